#!/bin/bash
# usage: tools/confirm_seed.sh <ID> <k> <pkgdir> [store-as-k]   (checker self-test helper, not a registered check)
# Confirms a sub-agent's seeded change in the scratch worktree /tmp/wt-<ID>:
#  demo passes without the patch; with the patch: build ok, existing suite passes (except TestCgroupAll), demo fails.
# On success stores it as /verif/seeded/<ID>-<k>/ {patch.diff, demo_test.go, notes.md, meta.json}.
set -u
. /verif/tools/env.sh; unset CGO_ENABLED
id=$1; k=$2; pkg=$3; dk=${4:-$k}   # dk: number under which the seed is stored (round 2 uses 4..6)
src=/tmp/mut-out/$id/$k; wt=/tmp/wt-$id
cd $wt || exit 2
git checkout -q -- . ; git clean -fdq
tests=$(grep -ho '^func Test[A-Za-z0-9_]*' $src/demo_test.go | sed 's/func //' | paste -sd'|')
cp $src/demo_test.go $pkg/zz_demo_test.go
demo() { # DEMO_WRAP=cgroup2: run the demo in a private mount namespace with the cgroup v2 hierarchy at /sys/fs/cgroup
  if [ "${DEMO_WRAP:-}" = cgroup2 ]; then
    go test -vet=off -c -o /tmp/seed-$id-$k.test ./$pkg/ && unshare -m sh -c "mount --bind /sys/fs/cgroup/unified /sys/fs/cgroup && /tmp/seed-$id-$k.test -test.count=1 -test.run '^($tests)\$'"; r=$?; rm -f /tmp/seed-$id-$k.test; return $r
  fi
  go test -vet=off -count=1 -run "^($tests)\$" ./$pkg/
}
demo > /tmp/seed-$id-$k-without.txt 2>&1; r0=$?
git apply $src/patch.diff || { echo "APPLY-FAILED"; git checkout -q -- .; git clean -fdq; exit 2; }
go build ./... > /tmp/seed-build.txt 2>&1; rb=$?
demo > /tmp/seed-$id-$k-with.txt 2>&1; r1=$?
rm $pkg/zz_demo_test.go
suite=$(go test -vet=off -count=1 ./... 2>&1 | grep -E '^(FAIL|---)' | grep -v 'TestCgroupAll' | grep -v '^FAIL$' | grep -v 'pkg/cgroup' )
# the container tests time out on a loaded machine (ping deadline): a package that failed is re-run alone up to 3 times
if [ -n "$suite" ]; then
  still=""
  for fp in $(echo "$suite" | grep '^FAIL' | awk '{print $2}' | sed 's#github.com/criyle/go-sandbox/##'); do
    okp=0; for t in 1 2 3; do if go test -vet=off -count=1 ./$fp/ >/dev/null 2>&1; then okp=1; break; fi; sleep 2; done
    [ $okp -eq 1 ] || still="$still FAIL:$fp"
  done
  suite=$still
fi
git checkout -q -- . ; git clean -fdq
echo "demo-without exit=$r0 build=$rb demo-with exit=$r1 suite-extra-failures='$suite'"
if [ $r0 -eq 0 ] && [ $rb -eq 0 ] && [ $r1 -ne 0 ] && [ -z "$suite" ]; then
  d=/verif/seeded/$id-$dk; mkdir -p $d
  cp $src/patch.diff $src/demo_test.go $src/notes.md $d/
  tail -5 /tmp/seed-$id-$k-with.txt > $d/demo_with_patch.txt
  python3 - "$id" "$dk" "$pkg" "$tests" <<'PY'
import json,sys
id,k,pkg,tests=sys.argv[1:5]
notes=open(f'/verif/seeded/{id}-{k}/notes.md').read()
json.dump({"property":id,"demo":{"file":"demo_test.go","drop_into":pkg,"tests":tests.split('|')},
 "needs_to_manifest":"see notes.md",
 "confirmed":{"demo_passes_without_patch":True,"builds_with_patch":True,"existing_suite_passes_with_patch":True,"demo_fails_with_patch":True,
   "how":"tools/confirm_seed.sh in scratch worktree /tmp/wt-%s (go1.26.8, offline)%s"%(id, " with DEMO_WRAP=cgroup2 (demo run under unshare -m with /sys/fs/cgroup/unified bind-mounted on /sys/fs/cgroup)" if __import__("os").environ.get("DEMO_WRAP")=="cgroup2" else "")},
 "detected_by":[]}, open(f'/verif/seeded/{id}-{k}/meta.json','w'), indent=1)
PY
  echo "STORED $d"
else
  echo "NOT-CONFIRMED $id/$k"; tail -5 /tmp/seed-$id-$k-without.txt; 
fi
rm -f /tmp/seed-$id-$k-without.txt /tmp/seed-$id-$k-with.txt /tmp/seed-build.txt
