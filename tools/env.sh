# source me: pinned offline Go environment for building and running the checker
export PATH=/opt/veriftools/go1.26.8/bin:$PATH
export GOTOOLCHAIN=local GOFLAGS=-mod=mod GOPROXY=off GOSUMDB=off GOWORK=off CGO_ENABLED=0
