#!/usr/bin/env python3-vt
import json, jsonschema, glob, sys
m=json.load(open('/verif/MANIFEST.json')); s=json.load(open('/root/.vp/MANIFEST.schema.json'))
jsonschema.validate(m,s); print("manifest valid:", len(m["checks"]), "checks,", len(m.get("not_applicable",[])), "n/a")
es=json.load(open('/root/.vp/EVIDENCE.schema.json'))
for c in m["checks"]:
    try:
        e=json.load(open(c["evidence_file"])); jsonschema.validate(e,es); print("evidence valid:", c["property_id"], "violations=", e.get("violations"))
    except Exception as ex:
        print("EVIDENCE PROBLEM", c["property_id"], str(ex)[:200])
