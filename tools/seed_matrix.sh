#!/bin/bash
# usage: tools/seed_matrix.sh [jobs] [seed-regex]  — checker self-test (not a registered check): runs every check against every
# seeded change (scratch copies outside /repo and /verif, removed afterwards) and writes seeded/MATRIX.tsv:
#   seed <tab> own property detected? <tab> all detecting properties <tab> first failing obligation of the own property
. /verif/tools/env.sh
jobs=${1:-6}; re=${2:-.}
out=/verif/seeded/MATRIX.tsv
tmp=$(mktemp -d /tmp/gsv-matrix.XXXXXX)
trap 'rm -rf "$tmp"' EXIT
one() {
  seed=$1; d=/verif/seeded/$seed
  scratch=$(mktemp -d /tmp/gsv-scratch.XXXXXX)
  mkdir -p $scratch/repo $scratch/home
  rsync -a --exclude .git /repo/ $scratch/repo/
  cp /verif/known_findings.json $scratch/home/
  if ! (cd $scratch/repo && patch -p1 -s < $d/patch.diff >/dev/null 2>&1); then echo -e "$seed\tPATCH-FAILED\t\t" ; rm -rf $scratch; return; fi
  res=$(GSVERIF_REPO=$scratch/repo GSVERIF_HOME=$scratch/home ${GSVERIF_BIN:-/verif/bin/gsverif} checkall 2>&1)
  det=$(echo "$res" | grep '^VIOLATION' | sed 's/VIOLATION property=\([A-Z0-9]*\).*/\1/' | sort -u | tr '\n' ' ')
  own=${seed%%-*}
  case " $det " in *" $own "*) o=yes;; *) o=NO;; esac
  first=$(echo "$res" | grep "^FAILED $own\." | head -1 | sed "s#$scratch/repo/##g" | cut -c1-220 | iconv -f utf-8 -t utf-8 -c)
  echo -e "$seed\t$o\t$det\t$first"
  rm -rf $scratch
}
export -f one
ls /verif/seeded | grep -E '^C[0-9]+-[0-9]+$' | grep -E "$re" | xargs -P $jobs -I{} bash -c 'one {}' | tee -a /tmp/matrix-partial.tsv | sort > $tmp/m.tsv
if [ "$re" = "." ]; then cp $tmp/m.tsv $out; else grep -v -E "^($re)" $out 2>/dev/null | grep -vE "^($(cut -f1 $tmp/m.tsv | paste -sd'|'))	" > $tmp/o.tsv; cat $tmp/o.tsv $tmp/m.tsv | sort > $out; fi
cat $tmp/m.tsv
