#!/bin/bash
# usage: tools/seed_matrix.sh [jobs]  — checker self-test (not a registered check): runs every check against every
# seeded change (in scratch copies outside /repo and /verif) and writes seeded/MATRIX.tsv: seed, own property detected?, all detecting properties.
. /verif/tools/env.sh
jobs=${1:-8}
out=/verif/seeded/MATRIX.tsv
tmp=$(mktemp -d /tmp/gsv-matrix.XXXXXX)
trap 'rm -rf "$tmp"' EXIT
ids=$(cd /verif && bin/gsverif list)
one() {
  seed=$1; d=/verif/seeded/$seed
  scratch=$(mktemp -d /tmp/gsv-scratch.XXXXXX)
  mkdir -p $scratch/repo $scratch/home
  rsync -a --exclude .git /repo/ $scratch/repo/
  cp /verif/known_findings.json $scratch/home/
  if ! (cd $scratch/repo && patch -p1 -s < $d/patch.diff >/dev/null 2>&1); then echo -e "$seed\tPATCH-FAILED\t" ; rm -rf $scratch; return; fi
  det=""
  for id in $IDS; do
    if ! GSVERIF_REPO=$scratch/repo GSVERIF_HOME=$scratch/home /verif/bin/gsverif check $id >/dev/null 2>&1; then det="$det $id"; fi
  done
  own=${seed%%-*}
  case " $det " in *" $own "*) o=yes;; *) o=NO;; esac
  echo -e "$seed\t$o\t$det"
  rm -rf $scratch
}
export -f one; export IDS="$ids"
ls /verif/seeded | grep -E '^C[0-9]+-[0-9]+$' | xargs -P $jobs -I{} bash -c 'one {}' | sort > $tmp/m.tsv
cp $tmp/m.tsv $out
cat $out
