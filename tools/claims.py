# Claims table, exec'd by gen_manifest.py.  claim(id, technique, level text, level note, design ref) / na(id, reason)

claim("C09",
  "conditional constant propagation over SSA: complete table extraction of three sibling classifiers vs reference",
  "Decides, for all 64 signals and representative exit codes, that each runner's wait-status classifier maps to the documented (status, exit value) — exhaustive over the finite decision structure — plus main-pid-only classification, field-by-field host pass-through and non-empty Runner Error text. Static tables are the right level: the classifiers are finite switch structures whose complete behaviour is visible in the code, while tests sample 2-3 signals.",
  "Not decided: which wait status the kernel produces for a program; runprog's later re-classification. Trusted: go/types+go/ssa, the reference table (property statement; README cross-checked).",
  "DESIGN.md §4 C09")

claim("C04",
  "E1 guard-formula analysis of the forked child: control-dependence path conditions per raw syscall, exhaustive truth-table enumeration over all configuration atoms",
  "Decides, for ALL combinations of launch options (every truth assignment of the configuration predicates the child branches on), presence/multiplicity/order/constant arguments and failure disposition of: capability drop, no_new_privs, seccomp load, setgroups/setgid/setuid, setsid/TIOCSCTTY, chdir/sethostname/setdomainname, the clone flag word and vfork condition, id-map order, and that the three callers set the fields attributed to them. The launch sequence is one function whose behaviour per configuration is visible in its control flow; the tests launch four configurations.",
  "Not decided: that the kernel honours each call; capability bounding set; clone-flag bits outside UnshareFlags. Atoms are branch predicates on Runner fields; E1 assumes (and C06 rule 1 checks) that the child never writes the configuration. Trusted: go/ssa, constant tables of syscall and x/sys/unix.",
  "DESIGN.md §2 E1, §4 C04")

claim("C06",
  "who-may-write over SSA stores; const-arg and sibling skip-loop rules on E1 events; typed comparison rule; close-on-exec site rules",
  "Decides structural necessary conditions of the descriptor shuffle: no store through the caller's configuration or package variables in the launch code, O_CLOEXEC on every scratch duplicate and flags 0 on every final one, skip loops over each live reserved descriptor before every scratch allocation, signed scratch-base computation on a fresh copy, exactly one action per slot in pass 2, and close-on-exec on every internal or received descriptor. These are visible in the code for all inputs; the tests use one fixed 3-entry list.",
  "Not decided: the complete value-level case analysis of the two-pass shuffle (all relative orders of list entries, pipe and exec descriptor); identity of open file descriptions.",
  "DESIGN.md §4 C06")

claim("C07",
  "E1 guard formulas (child) + control-dependence formulas (parent) with truth-table enumeration; must-pass-through to the kill+reap helper; table check of error locations",
  "Decides for all configurations: exactly one checked sync write/read pair iff a callback is configured, ordered before exec/ptrace/post-sync steps, both result words tested; the parent invokes the callback only after a good ready word with the clone result, acknowledges only on nil, is the only other writer of the channel besides the id-map word; every error return after a successful clone passes through SIGKILL+wait4(EINTR-retried); every failure edge names a declared, named ErrorLocation; the container relays the right pid. Failure injection at every step is a statement about every failure edge, which is visible statically.",
  "Not decided: that the pid still designates the process (kernel pid semantics), pid-namespace translation. Trusted: go/ssa; kernel read/write semantics on a socketpair.",
  "DESIGN.md §4 C07")

claim("C01",
  "table extraction by conditional constant propagation (action map), composite-literal / store wiring rules, fresh-result (ownership) rule, guarded-by rule on map insertions",
  "Decides the go-sandbox side of the filter pipeline (necessary conditions): Build wires allow→ALLOW, trace→TRACE and default→action-map(Default) into the dependency's Policy and returns export(Assemble()); the action map is complete and fails closed to KILL_PROCESS for every value other than allow/errno/trace after the 16-bit mask; the export copies Op/Jt/Jf/K of every instruction into a fresh slice; SockFprog hands over len and &filter[0]; runprog gives trace precedence over allow. This is the part whose truth is in the shape of this repository's code.",
  "NOT decided, and not decidable by static analysis within reach: the semantics of the cBPF program generated at run time by github.com/elastic/go-seccomp-bpf (ALLOW/TRACE/default per syscall number for all 2^32 numbers × architecture tags, arch check, x32 guard, far-jump splitting). The check claims only the wiring clauses, not that behaviour.",
  "DESIGN.md §4 C01")

claim("C05",
  "E1 guard formulas for the raw in-child mount sequence; flattened interprocedural call-order and must-pass-through rules for the container copy; sibling-constant comparison; constant propagation for builder flag sets",
  "Decides for all configurations that both implementations of the mount sequence follow the reference skeleton (private /, tmpfs root, chdir, every configured mount with read-only remount exactly under bind+rdonly, pivot_root, lazy detach and removal of the old root, symlinks and mask paths after the pivot, read-only remount of / with BIND|REMOUNT|RDONLY|NOSUID on every success path), with every step's failure aborting, equal retention mask and final flags in both copies, and the builder's flag sets (bind, tmpfs, proc, read-only polarity).",
  "Not decided: that the kernel enforces the flags; propagation semantics; other escape paths (open descriptors are C06); submounts of recursive binds.",
  "DESIGN.md §4 C05")

claim("C08",
  "table extraction over SSA stores with control-dependence guards (rlimit table), E1 loop/failure-edge rules, conditional constant propagation for usage verdicts, ordered must-occur rule for the collector goroutine",
  "Decides: the complete record→RLIMIT_* table with soft/hard provenance and CPU hard clamp; prlimit64 per entry with in-loop indexed failure edge before the security steps; usage over bound ⇒ TLE/MLE for every wait status with both measurements, strict comparison, identical Maxrss factor; SIGXCPU/SIGXFSZ stops ⇒ TLE/OLE; the output collector's CopyN(n) < close(done) < drain < Close order with n = max+1.",
  "Not decided: kernel enforcement of limits, CPU accounting accuracy, 'never blocks the writer' beyond the drain being unconditionally reached.",
  "DESIGN.md §4 C08")

claim("C03",
  "conditional constant propagation over the tracer's dispatch; who-may-call over register-writing primitives; const-arg rule on ptrace options; dominance rule; E1 guard formulas for the child order",
  "Decides: Ban/Kill/Allow dispatch of the trap handler and of the runner's handler (Ban always through the helper that sets −BanRet, unknown verdicts and syscall numbers kill), the skip helper's register rewrite and write-back per architecture (arm64/arm in the thorough tier), that registers are written only from the Ban arm, PTRACE_SETOPTIONS ⊇ SECCOMP|EXITKILL|FORK|VFORK|CLONE|EXEC at the first stop of every pid before it is continued, traps handled only after the exec event, the child's TRACEME < SIGSTOP < filter load (exactly once iff given) < exec for all configurations, and KILL_PROCESS as the fail-closed filter action.",
  "Not decided: that the kernel skips a syscall numbered −1, tracer/tracee event ordering, architectures without a register file in ptracer/.",
  "DESIGN.md §4 C03")

claim("C13",
  "guarded-by / loop-coverage rules on the reset and removal loops, ordered-call and const-arg rules on the memfd copier, E1 guard formulas for the exec variant",
  "Decides: Reset covers every configured tmpfs mount (skip only on !IsTmpFs), clears '/'+Target, reports failures; the removal helper lists all entries and removes each one unconditionally, returning the last error; the memfd copier creates with ALLOW_SEALING|CLOEXEC, copies the caller's reader itself, adds SEAL|SHRINK|GROW|WRITE, rewinds, in this order with every failure closing the file; an exec descriptor is executed with execveat(fd, \"\", …, AT_EMPTY_PATH) in the first attempt and the retry loop.",
  "Not decided: kernel seal semantics; entries the container init lacks permission to remove; writable bind mounts (host directories, not reset by design).",
  "DESIGN.md §4 C13")

claim("C14",
  "path rule over loop iterations by control-dependence formulas (exactly one outcome per item), callee-identity and dominance rules, cursor typestate, allocation-site rule for decode targets",
  "Decides: one error slot per request; per item exactly one of error-in-slot / descriptor+keep-alive entry; the descriptor sent belongs to the file just opened; Lstat-based regular-file pre-check on the same path before the open, accepting only not-exist or regular; host-side length check, cursor advancing once per success, close-on-exec before wrapping, naming by request i, cleanup of unconsumed descriptors; fresh decode target per message in both receive loops.",
  "Not decided: non-emptiness of OS error strings (assumed), the window between Lstat and open, symlinked intermediate components.",
  "DESIGN.md §4 C14")

claim("C18",
  "conditional constant propagation (refusal discipline, counter, dispatch), lookup-set extraction per predicate, guard formulas on the matcher's lookups",
  "Decides the wiring around the matcher and its skeleton: matching predicate on the same path per access class, soft-ban/kill refusal, cascade writable⊂readable⊂statable as the complete lookup set of each predicate, counter decrement-by-one with a non-negative monotone threshold, CheckSyscall's table, and in IsInSetSmart: exact match first, children entries only at depth one, directory entries at every depth, level counter 0/+1, walk to the parent.",
  "NOT decided: that IsInSetSmart admits exactly the covered paths for all sets × paths up to depth 4 (value-level behaviour of a string algorithm; a bounded enumeration would be testing). Only the structural skeleton above is claimed.",
  "DESIGN.md §4 C18")

claim("C16",
  "const-arg rules on the container's process attributes and ptrace options, must-pass-through (every path of the deferred function reaches os.Exit), error-discipline on both socket loops, who-may-block over the serving goroutine with a kill-before-wait path rule, E1 result-test rule",
  "Decides that the three death-propagation mechanisms exist, are unconditional and cover the init's blocking states: Pdeathsig=SIGKILL and default CLONE_NEWPID; exit-on-return registered before serving, transport errors closing 'done', every blocking operation of the serving goroutine observing 'done' or bounded by a preceding kill(-1); EXITKILL plus auto-attach options at the first stop of every tracee; a closed sync channel is fatal for a launching child.",
  "Not decided: 'within bounded time'; coverage of every crash instant is argued from these mechanisms, not enumerated; caller-chosen clone flags without CLONE_NEWPID (assumption); the namespace runner without ptrace has no such mechanism and the statement claims none.",
  "DESIGN.md §4 C16")

claim("C17",
  "cross-function lock pairing and dominance rules (ForkLock, environment mutex), who-may-write over all package-level variables, const-arg rule on wait targets and descriptor-creating flags",
  "Decides the discipline that makes interleavings harmless: ForkLock held across the clone and released exactly once before blocking, read lock over descriptor reception, descriptors born close-on-exec, no run-time writes to package variables (one allow-listed), OS thread locked before the tracee starts, no wait on pid −1 in the runners, every exported environment method locking before it touches socket/deadline/channels and unlocked helpers reachable only under the lock.",
  "Not decided: scheduler interleavings as such; descriptor-number reuse by the embedding program; fairness. ptracer.UseVMReadv is written without synchronisation (allow-listed, recorded as assumption).",
  "DESIGN.md §4 C17")

claim("C19",
  "guarded-by rules on the ancillary records, dominance of the truncation test over every success return, paired-release on rejected messages, const-arg construction rules, ordering/typestate rules on the gob framing",
  "Decides: rights and credentials are attached exactly when given and sent with the payload; no success return of RecvMsg bypasses the MSG_TRUNC|MSG_CTRUNC test; truncated, unparsable and undecodable messages have their descriptors closed (the closer visits every control message); SEQPACKET|CLOEXEC construction with SO_PASSCRED on the host end before the container starts; buffer reset before each encode, size test before the send, equal buffer sizes, one encode/decode per message. One known finding (encoder kept after an oversize rejection) is listed in known_findings.json.",
  "Not decided: byte-level fidelity of gob and of the kernel, SEQPACKET ordering and wholeness, the kernel's per-message descriptor maximum.",
  "DESIGN.md §4 C19")

claim("C20",
  "guarded-by and who-may-write rules on the ownership flag, provenance rule (ownership decisions derive from a mkdir error), table extraction of file names / scale factors vs the kernel's documented interface, constructor result rule",
  "Decides: Destroy removes only created directories of non-existing handles with a non-recursive rmdir; ownership decided from mkdir's EEXIST (never Stat), Random only returns fresh groups; child paths nest under the parent; AddProc writes decimal pids one per write to the group's own cgroup.procs for every controller; the v1/v2 file and unit table (including usage_usec×1000 and the cpu.max format); failed creations clean up only what they created; constructors return the handle they built (this rule found and led to the repair of OpenExisting on v1).",
  "Not decided: kernel accounting; behaviour on malformed statistics beyond errors being returned; concurrency beyond creation atomicity.",
  "DESIGN.md §4 C20")

claim("C02",
  "table extraction by conditional constant propagation over the syscall-name dispatch vs the Linux signature table; conversion-chain rule; taint analysis of raw paths into lexical normalisers; guarded-by rules",
  "Decides: for each of the 30 path-taking syscall names which register feeds the directory descriptor, the pathname and the flags, and which access class is asked for (two-path calls included); int32 truncation of every directory descriptor; read-only classification of open flags with fail-closed open_how; no Clean/Join/Dir/Abs on a not-yet-resolved path (one known finding, listed) and /proc/self normalisation of symlink targets; proc-alias policy before file policy; base selection incl. the empty path for unknown descriptors.",
  "NOT decided: that the resolver's output equals the kernel's resolution on every concrete forest (value-level: symlink loops, depth bound, trailing slashes, NOFOLLOW variants), check/use races, contents returned by GetString (only its crash-freedom, C15).",
  "DESIGN.md §4 C02")

claim("C12",
  "paired-release (typestate must-close) over discovered acquisition sites, must-pass-through to kill/reap steps with select-arm sensitivity, enumeration and classification of go statements",
  "Decides: deferred kill-group+reap registered before the wait loops with no return in between; in the container every non-transport-lost return after a successful Start has passed kill(-1), the main wait and both halves of the wait-all handshake; both ends of the launch socket pair, raw opens, os.Open results, the container's socket ends and duplicated file, the started container on Build errors, received descriptor lists and NewSocket's temporary file are released on every path; the library's 9 goroutines each have an ending event, context watchers wait on a context derived and cancelled in their spawner.",
  "Not decided: numeric return-to-baseline over arbitrary histories (a dynamic quantity), zombies the kernel re-parents, descriptor identity; pipe.NewPipe's reader ends only when the caller closes W (documented obligation).",
  "DESIGN.md §4 C12")

claim("C15",
  "compiler prove pass (check_bce) as first-line bounds prover + pattern-based bound prover over SSA for the residue; conditional constant propagation for the vanished-tracee and progress rules; loop-shape classification",
  "Decides on the scope reachable from the tracer's wait-status handler: every bounds check the compiler cannot eliminate is discharged by a sound local pattern (10 obligations today), no unchecked type assertion / unproven division / explicit panic; ESRCH at ptrace requests yields no verdict and the compared errors are unwrapped; every stop is continued or ends the run; every loop is bounded (range, constant depth bound, shrinking buffer, walk to parent); unknown syscall numbers kill.",
  "Not decided: races inside the kernel's ptrace state machine, behaviour of a user-supplied Handler, memory exhaustion. Assumptions: os.Getpagesize() > 0; process_vm_readv returns 0 ≤ n ≤ requested; strings.LastIndex returns an index < len.",
  "DESIGN.md §4 C15")

claim("C10",
  "extraction of two communicating finite-state machines from SSA (interprocedural conditional constant propagation over message contents, callback closure inlined, forkexec.Start replaced by its launch summary) and exhaustive reachability over their product with FIFO queues; who-may-block and guarded-dereference rules",
  "Decides, for every finite sequence of environment operations and every interleaving of cancel / child exit / kill / reply inside Execve (including Start failing before, at, and AFTER the sync callback): the container never terminates on a protocol error, no reply is left queued when a call returns, no call returns while the container still waits inside it, no deadlock, bounded queues — by exhaustive exploration of the product automaton (≈6k states today). Plus: every blocking operation of the host observes 'done', unknown commands terminate as documented, request-controlled dereferences are guarded, methods are serialised by the environment mutex.",
  "Not decided: gob encoding fidelity (C19), real-time behaviour of Ping's deadline, scheduler fairness of select. Model assumptions: messages are abstracted to their kind (command constant; reply = ack/err/sync/result/batch by nil-ness of Error/ExecReply/Cred); branches on request contents are explored both ways; loops are unrolled at most twice; transport stays up inside the product (loss is covered by the who-may-block rule).",
  "DESIGN.md §2 E2, §4 C10")

claim("C11",
  "structural canceller rules (goroutine / select-arm with kill reached), const/dataflow rule on the kill targets, conditional constant propagation for the vanished-tracee rule, call-order rule on Destroy, who-may-block",
  "Decides the necessary conditions of prompt, truthful cancellation: a context watcher (derived context, started before the wait) that kills the process group AND the pid; the host's ctx arm sends kill then collects the result, the container's started state turns kill into kill(-1); no verdict derives from ctx.Err(); ESRCH under the kill is not a runner/policy verdict and the compared errors are unwrapped; Destroy closes the socket before taking the mutex, then kills and reaps; every blocking host operation observes 'done'.",
  "Not decided: 'within bounded time' (timing/liveness); the container-side launch phase is not interruptible by the context; duration of a user-supplied SyncFunc. SIGKILL→TLE itself is decided by C09.",
  "DESIGN.md §4 C11")

for pid in [p for p in ["C%02d"%i for i in range(1,21)] if p not in CLAIMS]:
    na(pid, "check under construction in this session (design in DESIGN.md section 4); not yet claimed")


# ---- rules added after the first complete pass (DESIGN.md 8.5) ----
FRESH = "both receive loops decode every message into a value allocated inside the loop (no field of a request is inherited from the previous one)"
also("C01", FRESH + ".", "allocation-site rule for decode targets")
also("C02", "the tracee-string reader returns only the bytes read into this call's buffer and switches primitive only under ENOSYS; getProcCwd/getProcFd return only what this call's readlink reported; the bounded symlink loop never returns a value older than its last resolution step (all rounds enumerated); no package-level mutable state in the tracing packages.", "value-origin tracing; step-token walk of the bounded loop; who-may-write incl. address-taking uses of package variables")
also("C03", "the combiner of per-path verdicts (two-path calls) is the severity join on every list of length 1..3, constants read by name; no package-level mutable state in the tracing packages.", "enumeration of the combiner over a finite input domain by constant propagation")
also("C04", "a failed id-map write reaches the waiting child as a non-zero word on every path; the id-map writer is resolved through helpers and its errors are decided path-sensitively.", "path-sensitive error propagation (walker with the error assumed non-nil)")
also("C05", "SyscallParams.Flags/Source/Target have exactly one writer (the entry-to-raw conversion) and Flags is the entry's field unmodified.", "single-writer rule over all stores to the raw mount record")
also("C06", "the in-place fcntl tests the very descriptor whose flag it clears; the skip loop's cursor is the value used as the dup3 target (a skip hoisted out of an allocating loop does not count).")
also("C07", FRESH + "; no scratch duplicate can land on the child's end of the sync socket; a failed id-map write fails the launch.")
also("C08", FRESH + ".")
also("C09", "a tracee that vanished at a ptrace request (ESRCH) yields no verdict and the compared error is the primitive's own errno (any library wrapper counts as wrapping).")
also("C10", FRESH + "; the exploration stops expanding at an orphan reply and has a state cap.")
also("C11", "'Runner Error' is produced only on the failure side of a nil test (error, recover(), error record, missing mandatory part) or in the documented exit-before-exec arm; 'done' is closed only with an error that is non-nil on that path; Destroy reaches Kill and Wait on every path.", "dominance-based guarded-by rule; must-pass-through on Destroy")
also("C12", "Destroy reaches Kill and Wait on every path; each end of the sync socket pair is released at most once on every path (explicit, deferred or by the goroutine it was handed to); every truncated-message edge of RecvMsg reaches the closer.", "path enumeration with a release counter")
also("C13", "the host's Reset reports success only after sending the reset command and receiving its acknowledgement; between creation and sealing the memfd is touched only by the copy, Fd, Seek and Close.")
also("C14", "the cursor into the received descriptors is itself tested against their number before use; every file operation gets exactly one answer (the product exploration of C10 restricted to Open/Symlink/Delete/Reset).")
also("C15", "the trap context's pid is written only where the context is built.")
also("C16", "the forked child closes the parent's end of the sync socket in every configuration, before its first blocking read; no package-level mutable state in ptracer, forkexec, runner/ptrace.", "E1 guard validity over all configurations")
also("C17", "the OS-thread unlock is registered or made on every path after the lock; the process-wide reader switch flips only under ENOSYS; each end of the sync pair is released at most once; package variables handed out by address (sync.Map, sync.Pool) count as shared state.")
also("C18", "every lookup inside the matcher's walk is keyed by the name of the current level (so the depth-one test of 'd/*' is about direct children); no package-level mutable state in the file policy.")
also("C19", FRESH + "; truncation handling is decided per flag test (one mask or one test per bit): every success return clears both bits, every truncated edge reaches the closer; the credential delivered is the standard parser's own copy, never a pointer into the receive buffer.")
also("C20", "a constructor whose failure cleanup removes the handle's own group builds the handle as not owning; the v1 path helper returns the directory path on every return (also next to 'already exists').")


# ---- rules added in the third pass (round-3 seeded changes; DESIGN.md 8.5) ----
also("C01", "Build returns a filter or an error on every return (never (nil, nil)).")
also("C02", "the readlink behind getProcCwd/getProcFd may sit in a helper; its result reaches the caller unmodified (no library post-processing).")
also("C03", "on the path on which the trap handler reports a policy error (kill) the tracee is not continued, neither directly nor by a deferred call.")
also("C04", FRESH + ".")
also("C05", "the capability drop of C04.O1 holds for every configuration (a program that keeps CAP_SYS_ADMIN can remount).")
also("C06", "a descriptor list that does not fit the control buffer is rejected, never delivered short (C19.2); descriptors the framework creates are born close-on-exec, memfd included.")
also("C07", "the parent never switches the sync socket to non-blocking mode; the failed child is awaited with options 0; ChildError.Index is as wide as the loop index; one environment call at a time (mutex discipline of C17.5).")
also("C08", "the limit signals are classified in every classifier (rows of the C09 tables); the container init does not ignore SIGXCPU/SIGXFSZ (ignored dispositions are inherited through exec).")
also("C09", FRESH + "; the classifying waits ask for terminations only (no WUNTRACED/WCONTINUED); the tables are evaluated for the main pid and admit no dropped report; one environment call at a time.")
also("C10", "the container init ignores every signal on which a Go process exits by default (os/signal reference list); the started-state handler and the wait goroutine cannot wait for each other (reap-all requested after the main result was taken, or result channel buffered).")
also("C11", "the no-circular-wait rule of C10.")
also("C12", "the reapers wait for the whole killed group, blocking, with no narrowing option; the launch-failure reaper rules of C07.3.")
also("C14", "the receive control buffer is a compile-time constant large enough for SCM_MAX_FD descriptors plus a credential record.")
also("C15", "the end of the main process ends the run on every path of the wait-status handler (tables of C09.1 for the ptrace classifier).")
also("C16", "the parent acknowledges only after the callback returned (C07.2); every exit of the container's receive loop closes 'done'; the container init never changes its own credentials (the kernel would clear its parent-death signal).")
also("C17", "no getrusage/times in the library packages; blocking raw system calls outside the forked child go through syscall.Syscall.")
also("C18", "set lookups test the stored value (not key presence); path sets only ever receive true; the ancestor walk of AddFilePermission never adds the empty name.")
also("C19", "the receive control buffer is a compile-time constant of sufficient size.")
also("C20", "the cpuset bootstrap overwrites a group's own value only when it was read back empty.")

# ---- fourth pass (round-4 seeds: faults in helpers, tables, constants and wiring the anchored functions merely use) ----
also("C01", "the compiled program is installed in every configuration that declares one (C04.O3); in cmd/runprog every runner kind receives, without -unsafe, exactly the result of Builder.Build, and the switch that admits the process-creation calls is the -allow-proc flag.", "path-sensitive walk of the command's wiring per runner kind")
also("C02", "the chunked reader of tracee strings leaves its loop exactly when no room is left (condition evaluated over buffer sizes ≤6 × fill levels under the invariant read+room=size) and fetches chunk k from start+bytes-read; no format string of the tracing packages is computed.", "finite evaluation of a loop condition under its linear invariant; constant-argument rule")
also("C03", "the path names the verdicts are computed from are read whole (C02.11); the tracer's OS-thread pin is taken before the tracee is started and no function of the module unlocks an OS thread it did not lock itself (C17.3).")
also("C04", "every field of every type that crosses the control socket is transmitted by gob (exported, embedded structs included; no unregistered interface field); the default container uid/gid is substituted per field, under 'that field is unset', with the same constant on host and init; uid_map/gid_map contents are computed in the writing call, never read from a package variable; the C-string arguments handed to the child are their Runner field in every configuration.", "type-structure walk from the encoder/decoder call sites; guard formulas; value-origin tracing")
also("C05", "the new root is entered whenever one is configured (child argument rule of C04.O14); the container init's close-on-exec sweep visits every entry of the descriptor listing (C06.4).")
also("C06", FRESH + "; the init's sweep indexes the whole listing (no sub-slice, bound = its length); a descriptor wrapped by os.NewFile is closed through the wrapper or handed on, never dropped, and its number is not also closed raw.", "ownership rule on os.NewFile results")
also("C07", "every failure report of the child is written to the sync channel (argument in the φ-web of the descriptor the go-ahead is read from); whenever the init's 'done' is closed an error was recorded before, so a lost connection cannot read as the go-ahead.", "φ-web membership; dominance of the store over the close")
also("C08", "cmd/runprog's final re-classification: a run that ended Normal over its time (memory) limit reaches the store of the matching verdict (relative guard formulas).", "guard formulas relative to a dominating block")
also("C09", "the tracer-thread rules of C17.3; the init survives every signal on which a Go process exits (now incl. SIGSTKFLT, and SIGBUS/SIGFPE/SIGSEGV sent by kill); the severity join of C03.8.")
also("C10", "a handler learns 'reply sent' only after the sender goroutine acknowledged the write; failed launches leave no descriptor of the sync pair behind (C12.2); opens accept regular files only (C14.1).", "must-pass-through on the acknowledgement receive")
also("C11", "a host method that arms a socket deadline disarms every direction it armed before returning; the close Destroy makes reaches the connection's own Close on every path; the error is recorded on every path that closes 'done'.")
also("C12", "no allow list of the shipped policy tables contains a call by which a process leaves the process group or session of its run (setpgid, setsid).", "consistency rule over the literal tables of cmd/runprog/config (syntax trees of the build-selected files)")
also("C13", "the container root is read-only in every configuration (C05.2); what covers a masked path carries MS_BIND / MS_RDONLY (C05.4); scratch duplicates of the exec descriptor are close-on-exec (C06.2).")
also("C14", "the init's umask is cleared once and never set to anything else; error replies are encodable (wire-type rule of C19.10); every exit of host Open after a non-error reply comes after the cleanup defer.")
also("C15", "no allow list lets a tracee leave the process group the tracer waits on; the skip helper hands on the error it got (C03.2).")
also("C16", "the tracer-thread rules of C17.3 (PTRACE_O_EXITKILL is only in force if set from the tracer's thread).")
also("C17", "no function receives a lock-holding value by copy (value receivers included); no library function returns a value that shares slice/map storage with a package variable; no UnlockOSThread without a LockOSThread of the same function.", "type walk for locks held by value; value-origin rule on results")
also("C18", "the helper that computes the symlink-free form maps the empty (unresolvable) name to the empty name (EvalSymlinks(\"\") modelled as (\".\", nil)); budgeted calls are on no allow list GetConf can combine with them; the handler's sets and counter are created afresh in every GetConf call (deep freshness of the returned objects); the count-down is at least 32 bits wide.")
also("C19", "send and receive control buffers are separate allocations; a successful RecvMsg returns the count the read reported, unmodified; wire types are fully transmitted; the host's cleanup covers every exit after a non-error reply (C14.2).")
also("C20", "control files are read to end of file (os.ReadFile/io.ReadAll), never with a single read call.")

# ---- fifth pass (round-5 seeds, genuine defects F21/F22) ----
also("C01", "Build never writes into the allow/trace lists it was given (no append to, sort of or store into a list of the policy, helpers included); SockFprog answers nil ('no filter') only for the empty filter.", "input-immutability rule followed into helpers; guard-formula validity on the nil return")
also("C04", "the capset data buffer covers the two structs a version-3 header announces (F22); SockFprog answers nil only for the empty filter; condition formulas expand a predicate computed once into a local (boolean φ anywhere).", "type-size rule on the capset arguments")
also("C05", "the mount builder's entries carry the caller's source/target strings unmodified (no lexical rewriting), judged on the entry as appended.")
also("C06", "a number handed to a function that wraps it in an *os.File (which releases it on every path) is not closed by number afterwards (F21); no reinterpreted (unsafe) slice header of a caller's list is extended, copied into or stored into.", "handover/ownership summary per function; alias-then-mutate flow rule")
also("C07", "the protocol product of C10 restricted to Execve (an abandoned launch is not released by a later message); the clone word keeps SIGCHLD as exit signal (C04.O7); errorReply.Error() returns the container's message on every path.")
also("C08", "the container package never sets a resource limit of its own process (programs inherit what is not configured).")
also("C10", "a transport error closes 'done' in every loop of both ends (C16.2), so later calls fail promptly.")
also("C11", "waits name the run's own children (C17.4); no channel that is sent on is ever closed (a call in flight during Destroy cannot panic).")
also("C12", "each end of the socket pair is released exactly once on every error path of NewSocketPair (path enumeration; handover to the wrapping constructor is a release).", "path enumeration with release counting")
also("C15", "the tracer's deferred clean-up kills before it reaps under no condition (C12.1); bound prover: min/max builtins, search results returned only where found.")
also("C16", "every syscall.SysProcAttr built in package container sets Pdeathsig=SIGKILL; the forkexec sync pair is born close-on-exec (C17.1).")
also("C17", "watcher goroutines end with their run (C12.3, C11.1 watcher); every sandbox is its own session (C04.O5); the double close of F21 (via C06.9 in C19/C12/C10).")
also("C18", "AddFilePermission, evaluated for each named permission constant, enters the name into the set of that name only (table entries resolved).", "conditional constant propagation per named constant")
also("C19", "the framed connection is written only by its send loop and read only by its receive loop (single writer/reader: who-may-call); wrapper ownership (C06.9); ancillary composition decided by data flow from the UnixRights/UnixCredentials results to the control argument.", "who-may-call rule; backward data-flow rule")
