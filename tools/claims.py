# Claims table, exec'd by gen_manifest.py.  claim(id, technique, level text, level note, design ref) / na(id, reason)

claim("C09",
  "conditional constant propagation over SSA: complete table extraction of three sibling classifiers vs reference",
  "Decides, for all 64 signals and representative exit codes, that each runner's wait-status classifier maps to the documented (status, exit value) — exhaustive over the finite decision structure — plus main-pid-only classification, field-by-field host pass-through and non-empty Runner Error text. Static tables are the right level: the classifiers are finite switch structures whose complete behaviour is visible in the code, while tests sample 2-3 signals.",
  "Not decided: which wait status the kernel produces for a program; runprog's later re-classification. Trusted: go/types+go/ssa, the reference table (property statement; README cross-checked).",
  "DESIGN.md §4 C09")

for pid in ["C01","C02","C03","C04","C05","C06","C07","C08","C10","C11","C12","C13","C14","C15","C16","C17","C18","C19","C20"]:
    na(pid, "check under construction in this session (design in DESIGN.md section 4); not yet claimed")
