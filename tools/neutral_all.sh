#!/bin/bash
# usage: tools/neutral_all.sh [jobs] [regex]  — checker self-test: every behaviour-preserving patch under /verif/neutral must leave every check silent.
jobs=${1:-5}; re=${2:-.}
ls /verif/neutral/*.patch | grep -E "$re" | xargs -P $jobs -I{} bash -c 'r=$(/verif/tools/on_patch_all.sh {} 400 2>&1 | grep -v "^RENAMED"); if echo "$r" | grep -q "^DETECTED-BY: $"; then echo "NEUTRAL-OK $(basename {})"; else echo "== ALARM $(basename {})"; echo "$r"; fi'
