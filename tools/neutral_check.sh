#!/bin/bash
# usage: tools/neutral_check.sh <patch>  — checker self-test: a behaviour-preserving refactor must leave every check silent.
. /verif/tools/env.sh
patch=$1
scratch=$(mktemp -d /tmp/gsv-scratch.XXXXXX)
trap 'rm -rf "$scratch"' EXIT
mkdir -p $scratch/repo $scratch/home
rsync -a --exclude .git /repo/ $scratch/repo/
cp /verif/known_findings.json $scratch/home/
(cd $scratch/repo && patch -p1 -s < $patch) || { echo PATCH-FAILED; exit 3; }
(cd $scratch/repo && unset CGO_ENABLED && go build ./... && go test -vet=off -count=1 ./... 2>&1 | grep -E "^(FAIL|---)" | grep -v "TestCgroupAll\|pkg/cgroup\|^FAIL$")
out=$(GSVERIF_REPO=$scratch/repo GSVERIF_HOME=$scratch/home ${GSVERIF_BIN:-/verif/bin/gsverif} checkall 2>&1)
if echo "$out" | grep -q "^VIOLATION"; then
  echo "== ALARM $(basename $patch): $(echo "$out" | grep '^VIOLATION' | sed 's/VIOLATION property=\([A-Z0-9]*\).*/\1/' | sort -u | tr '\n' ' ')"
  echo "$out" | grep -E "^FAILED" | sed "s#$scratch/repo/##g" | cut -c1-300
  exit 1
fi
echo "NEUTRAL-OK $(basename $patch)"
