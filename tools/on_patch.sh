#!/bin/bash
# usage: tools/on_patch.sh <patch-file> <ID>...   — checker self-test helper (not a registered check).
# Applies the patch to a scratch copy of /repo (outside /repo and /verif), runs the
# named checks against the copy with evidence redirected to a scratch dir, prints
# their verdict lines and removes everything again.
set -u
. /verif/tools/env.sh
patch=$1; shift
scratch=$(mktemp -d /tmp/gsv-scratch.XXXXXX)
trap 'rm -rf "$scratch"' EXIT
mkdir -p "$scratch/repo" "$scratch/home"
rsync -a --exclude .git /repo/ "$scratch/repo/"
cp /verif/known_findings.json "$scratch/home/" 2>/dev/null
if ! (cd "$scratch/repo" && patch -p1 -s < "$patch"); then echo "PATCH-FAILED $patch"; exit 3; fi
if ! (cd "$scratch/repo" && go build ./... 2>&1 | head -5 | grep . ) ; then :; else echo "BUILD-FAILED"; exit 3; fi
rc=0
for id in "$@"; do
  out=$(GSVERIF_REPO="$scratch/repo" GSVERIF_HOME="$scratch/home" /verif/bin/gsverif check "$id" --tier ${TIER:-quick} 2>&1); r=$?
  echo "== $id exit=$r"
  echo "$out" | grep -E '^(FAILED|VIOLATION|KNOWN-FINDING|SUMMARY)' | sed "s#$scratch/repo/##g" | head -${LINES_MAX:-12}
  [ $r -ne 0 ] && rc=1
done
exit $rc
