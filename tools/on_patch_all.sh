#!/bin/bash
# usage: tools/on_patch_all.sh <patch>  — checker self-test helper: apply a patch to a scratch copy of /repo (outside /repo and /verif),
# run every check once (one load), print the failing properties and FAILED lines, remove the copy.
. /verif/tools/env.sh
patch=$(readlink -f $1)
scratch=$(mktemp -d /tmp/gsv-scratch.XXXXXX)
trap 'rm -rf "$scratch"' EXIT
mkdir -p $scratch/repo $scratch/home
rsync -a --exclude .git /repo/ $scratch/repo/
cp /verif/known_findings.json $scratch/home/
(cd $scratch/repo && patch -p1 -s < $patch) || { echo PATCH-FAILED; exit 3; }
out=$(GSVERIF_REPO=$scratch/repo GSVERIF_HOME=$scratch/home ${GSVERIF_BIN:-/verif/bin/gsverif} checkall 2>&1)
echo "DETECTED-BY: $(echo "$out" | grep '^VIOLATION' | sed 's/VIOLATION property=\([A-Z0-9]*\).*/\1/' | sort -u | tr '\n' ' ')"
echo "$out" | grep -E "^(FAILED|RENAMED)" | sed "s#$scratch/repo/##g" | cut -c1-${2:-260}
