#!/usr/bin/env python3
"""Regenerates /verif/MANIFEST.json from the table below (single source of truth for
claims, level texts and not_applicable reasons). Run after adding a check."""
import json, os, sys

ENV = ("PATH=/opt/veriftools/go1.26.8/bin:$PATH GOTOOLCHAIN=local GOFLAGS=-mod=mod "
       "GOPROXY=off GOSUMDB=off GOWORK=off CGO_ENABLED=0")

# id -> (technique, level text, level note, design ref)
CLAIMS = {}
NA = {}

def claim(pid, technique, text, note, ref):
    CLAIMS[pid] = dict(technique=technique, text=text, note=note, ref=ref)

def na(pid, reason):
    NA[pid] = reason

def also(pid, text, technique=None):
    """rules added after the first complete pass: appended to the level text (and technique)"""
    CLAIMS[pid]["text"] += " Also decided: " + text
    if technique:
        CLAIMS[pid]["technique"] += "; " + technique

exec(open(os.path.join(os.path.dirname(__file__), "claims.py")).read())

checks = []
for pid in sorted(CLAIMS):
    c = CLAIMS[pid]
    checks.append({
        "property_id": pid,
        "quick_cmd": f"{ENV} bin/gsverif check {pid} --tier quick",
        "thorough_cmd": f"{ENV} bin/gsverif check {pid} --tier thorough",
        "evidence_file": f"/verif/evidence/{pid}.json",
        "replay_cmd_template": f"{ENV} bin/gsverif check {pid} --tier quick --replay {{path}}",
        "engine": "gsverif",
        "level_claimed": {"category": "other", "text": c["text"], "design_ref": c["ref"]},
        "level_note": c["note"],
        "technique": c["technique"],
    })

manifest = {
    "version": 1,
    "setup_cmd": f"cd /verif/checker && {ENV} go build -o ../bin/gsverif . && cd /verif && bin/gsverif list >/dev/null",
    "hooks": {
        "guard": "verif",
        "enable": "no hooks: every check is a static analysis of /repo's working tree; nothing in /repo is built with a tag",
        "baseline_off_cmd": "cd /repo && " + ENV.replace(" CGO_ENABLED=0", "") + " go test -vet=off -count=1 ./...",
        "source_commits": [],
        "add_only": True,
    },
    "engines": [{
        "name": "gsverif",
        "path": "/verif/checker",
        "serves_properties": sorted(CLAIMS),
        "kind_free_text": "custom static analyser over go/packages + go/ssa (x/tools v0.29.0): control-dependence guard formulas with exhaustive truth-table enumeration, path-sensitive conditional constant propagation for table extraction, CFSM extraction and duality check, must-pass-through / paired-release / who-may-write rules",
    }],
    "checks": checks,
    "not_applicable": [{"property_id": k, "reason": NA[k]} for k in sorted(NA)],
    "notes": "All claims are level 'other': each check decides named structural clauses (necessary conditions) of its property on the type-checked SSA of /repo's current tree; level_note says what is not decided. See DESIGN.md.",
}
json.dump(manifest, open("/verif/MANIFEST.json", "w"), indent=1)
print("claimed:", sorted(CLAIMS), "not_applicable:", sorted(NA))
