#!/usr/bin/env python3
"""Maintenance helper (not a registered check): refreshes, from seeded/MATRIX.tsv and a neutral-corpus log,
 - the `detected_by` / `needs_to_manifest` fields of every seeded/<id>/meta.json,
 - the tables between the BEGIN/END markers in DESIGN.md section 8.
usage: tools/design_tables.py [neutral-log]"""
import json, os, re, sys

V = '/verif'
rows = []
for line in open(f'{V}/seeded/MATRIX.tsv', errors='replace'):
    parts = line.rstrip('\n').split('\t')
    while len(parts) < 4:
        parts.append('')
    seed, own, det, first = parts[:4]
    rows.append((seed, own, det.split(), first))


def title(seed):
    p = f'{V}/seeded/{seed}/notes.md'
    if not os.path.exists(p):
        return ''
    for l in open(p):
        l = l.strip()
        if l.startswith('#'):
            t = l.lstrip('#').strip()
            t = re.sub(r'^(C\d+\s*[/:,-]?\s*)?(round-?\d\s*)?(change|mutant|mutation)\s*\d+\s*[-:—–]*\s*', '', t, flags=re.I)
            t = re.sub(r'^C\d+\s*[/:-]\s*', '', t)
            return t.replace('|', '/')[:150]
    return ''


def needs(seed):
    p = f'{V}/seeded/{seed}/notes.md'
    txt = open(p).read() if os.path.exists(p) else ''
    m = re.search(r'(?ims)^#+\s*(what it needs[^\n]*|needs[^\n]*|trigger[^\n]*)\n(.*?)(?=^#|\Z)', txt)
    if m:
        return ' '.join(m.group(2).split())[:400]
    return 'see notes.md'


for seed, own, det, first in rows:
    mp = f'{V}/seeded/{seed}/meta.json'
    if os.path.exists(mp):
        m = json.load(open(mp))
        m['detected_by'] = det
        m['detected_by_own_property_check'] = (own == 'yes')
        if first:
            m['first_failing_obligation'] = first
        if m.get('needs_to_manifest', 'see notes.md') == 'see notes.md':
            m['needs_to_manifest'] = needs(seed)
        json.dump(m, open(mp, 'w'), indent=1)

out = []
out.append('| seeded change | what it does | caught by its own property\'s check | all checks that fail |')
out.append('|---|---|---|---|')
for seed, own, det, first in rows:
    rule = ''
    m = re.match(r'FAILED (\S+)', first)
    if m:
        rule = m.group(1)
    out.append(f'| {seed} | {title(seed)} | {"yes: " + rule if own == "yes" else "**no**"} | {" ".join(det)} |')
seed_table = '\n'.join(out)
n_own = sum(1 for r in rows if r[1] == 'yes')
n_any = sum(1 for r in rows if r[2])
seed_summary = f'{len(rows)} seeded changes; {n_own} are reported by the check of the property they were written against, {n_any} by at least one check.'

neutral_table = ''
if len(sys.argv) > 1 and os.path.exists(sys.argv[1]):
    ok, alarm = [], []
    cur = None
    det = {}
    for l in open(sys.argv[1]):
        l = l.rstrip('\n')
        if l.startswith('NEUTRAL-OK'):
            ok.append(l.split()[1])
        elif l.startswith('== ALARM'):
            cur = l.split()[2]
            alarm.append(cur)
        elif l.startswith('DETECTED-BY:') and cur:
            det[cur] = l[len('DETECTED-BY:'):].strip()
    lines = ['| behaviour-preserving patch | what it does | result |', '|---|---|---|']
    for f in sorted(ok + alarm):
        note = ''
        np = f'{V}/neutral/' + f.replace('.patch', '.notes')
        if os.path.exists(np):
            note = ' '.join(open(np).read().strip().lstrip('# ').replace('|', '/').split())[:140]
        res = 'silent' if f in ok else '**ALARM** ' + det.get(f, '')
        lines.append(f'| {f} | {note} | {res} |')
    neutral_table = '\n'.join(lines) + f'\n\n{len(ok)} of {len(ok) + len(alarm)} patches leave every check silent.'

d = open(f'{V}/DESIGN.md').read()


def put(d, name, text):
    b, e = f'<!-- BEGIN {name} -->', f'<!-- END {name} -->'
    if b in d and e in d:
        i, j = d.index(b) + len(b), d.index(e)
        return d[:i] + '\n' + text + '\n' + d[j:]
    return d


d = put(d, 'SEED-TABLE', seed_summary + '\n\n' + seed_table)
if neutral_table:
    d = put(d, 'NEUTRAL-TABLE', neutral_table)
open(f'{V}/DESIGN.md', 'w').write(d)
print(seed_summary)
