package main

// C04, additional rules: the identity defaults of host and container init agree field by field; the default id map
// is computed when it is written.

import (
	"fmt"
	"strings"

	"golang.org/x/tools/go/ssa"
)

// checkDefaultIdentity: the container init and the host substitute the default container uid/gid independently per
// field — the default for field F is applied exactly under "F is unset" and is the same constant on both sides.
// (The host maps cUID/cGID into the user namespace; the init later setuid/setgid()s to its own copy: if the two
// disagree for one field the program runs with an id that is not mapped.)
func checkDefaultIdentity(c *Check) {
	p := c.P
	const rule = "O12/default-identity"
	fields := []string{"ContainerUID", "ContainerGID"}
	initDefault := map[string]int64{}
	// --- init side: stores of a constant into the server's field
	hc := p.Func("container", "containerServer.handleConf")
	if hc == nil {
		c.Undecided(rule, "container.handleConf", "-", "function not found")
	} else {
		// the handler itself, or a helper of the package it hands the configuration to
		scope := []*ssa.Function{hc}
		for _, ci := range callInstrs(hc) {
			if _, callee := calleeOf(ci); callee != nil && callee.Pkg == hc.Pkg && len(callee.Blocks) > 0 && callee != hc {
				scope = append(scope, callee)
			}
		}
		for _, f := range fields {
			n := 0
			for _, sf := range scope {
				cd := controlDeps(sf)
				for _, b := range sf.Blocks {
					for _, in := range b.Instrs {
						st, ok := in.(*ssa.Store)
						if !ok {
							continue
						}
						fa, ok := st.Addr.(*ssa.FieldAddr)
						if !ok || fieldName(fa.X.Type(), fa.Field) != f {
							continue
						}
						v, isC := constInt(st.Val)
						if !isC {
							continue
						}
						n++
						initDefault[f] = v
						g := cd.guardOf(b)
						own, foreign := "", ""
						for _, a := range Support(g) {
							for _, f2 := range fields {
								if strings.Contains(a, "."+f2+" ") || strings.HasSuffix(a, "."+f2) {
									if f2 == f {
										own = a
									} else {
										foreign = a
									}
								}
							}
						}
						okG := own != "" && foreign == "" && strings.HasSuffix(own, " == 0")
						if okG {
							okG, _, _ = Valid(fImp(g, fLit(own)))
						}
						c.Cond(okG, rule, "container.handleConf:default("+f+")", p.Pos(st.Pos()), "the default "+f+" is applied exactly when "+f+" is unset",
							fmt.Sprintf("the default %s (%d) is stored under %s — not under \"%s == 0\" alone: host and init disagree about the identity for some configuration", f, v, g.String(), f))
					}
				}
			}
			if n != 1 {
				c.Fail(rule, "container.handleConf:default("+f+"):count", p.Pos(hc.Pos()), fmt.Sprintf("%d default stores for %s in the init, want 1", n, f))
			}
		}
	}
	// --- host side: the value mapped into the user namespace is φ(field, constant) with the constant edge taken
	// exactly when the field is 0
	gm := p.Func("container", "Builder.getIDMapping")
	if gm == nil {
		c.Undecided(rule, "container.Builder.getIDMapping", "-", "function not found")
		return
	}
	for _, f := range fields {
		found := false
		for _, b := range gm.Blocks {
			for _, in := range b.Instrs {
				ph, ok := in.(*ssa.Phi)
				if !ok {
					continue
				}
				var cst int64
				var hasC, hasF bool
				var cIdx int
				for i, e := range ph.Edges {
					if v, isC := constInt(e); isC {
						cst, hasC, cIdx = v, true, i
					} else if strings.HasSuffix(describe(e), "."+f) {
						hasF = true
					}
				}
				if !hasC || !hasF || len(ph.Edges) != 2 {
					continue
				}
				found = true
				// the constant edge comes from a block entered on "field == 0"
				pred := b.Preds[cIdx]
				okEdge := false
				if len(pred.Preds) == 1 {
					if iff := blockIf(pred.Preds[0]); iff != nil {
						if bo, eq, _, ok := eqEdges(iff); ok && pred.Preds[0].Succs[eq] == pred {
							x, y := describe(bo.X), describe(bo.Y)
							okEdge = (strings.HasSuffix(x, "."+f) && y == "0") || (strings.HasSuffix(y, "."+f) && x == "0")
						}
					}
				}
				c.Cond(okEdge, rule, "container.getIDMapping:default("+f+")", p.Pos(ph.Pos()), "host default for "+f+" applied exactly when it is unset", "the host substitutes the default "+f+" under a condition other than \""+f+" == 0\"")
				if d, ok := initDefault[f]; ok {
					c.Cond(d == cst, rule, "container:default("+f+"):agree", p.Pos(ph.Pos()), fmt.Sprintf("host and init default = %d", cst), fmt.Sprintf("host default %s is %d, init default is %d", f, cst, d))
				}
			}
		}
		if !found {
			c.Undecided(rule, "container.getIDMapping:default("+f+")", p.Pos(gm.Pos()), "the host-side default for "+f+" was not recognised")
		}
	}
	c.Expect(rule, 6)
}

// mutableGlobalOrigin: v is computed (through operators, conversions, slices, φ, calls) from a load of a package
// variable of the module.
func mutableGlobalOrigin(v ssa.Value, d int, seen map[ssa.Value]bool) *ssa.Global {
	if d > 12 || seen[v] {
		return nil
	}
	seen[v] = true
	switch x := v.(type) {
	case *ssa.UnOp:
		if g, ok := x.X.(*ssa.Global); ok && g.Pkg != nil && strings.HasPrefix(g.Pkg.Pkg.Path(), repoModule) {
			return g
		}
		return mutableGlobalOrigin(x.X, d+1, seen)
	case *ssa.Global:
		if x.Pkg != nil && strings.HasPrefix(x.Pkg.Pkg.Path(), repoModule) {
			return x
		}
	case *ssa.Convert:
		return mutableGlobalOrigin(x.X, d+1, seen)
	case *ssa.ChangeType:
		return mutableGlobalOrigin(x.X, d+1, seen)
	case *ssa.Slice:
		return mutableGlobalOrigin(x.X, d+1, seen)
	case *ssa.BinOp:
		if g := mutableGlobalOrigin(x.X, d+1, seen); g != nil {
			return g
		}
		return mutableGlobalOrigin(x.Y, d+1, seen)
	case *ssa.Phi:
		for _, e := range x.Edges {
			if g := mutableGlobalOrigin(e, d+1, seen); g != nil {
				return g
			}
		}
	case *ssa.Call:
		for _, a := range x.Call.Args {
			if g := mutableGlobalOrigin(a, d+1, seen); g != nil {
				return g
			}
		}
	case *ssa.Extract:
		return mutableGlobalOrigin(x.Tuple, d+1, seen)
	}
	return nil
}

// checkChildArguments: the C-string arguments the launcher prepares for the child (work directory, host and domain
// name, new root) are the conversion of their Runner field in every configuration: none of them is withheld (left
// nil) under a condition on some other part of the configuration. A withheld new root makes the child skip
// pivot_root although one was asked for.
func checkChildArguments(c *Check, rule string) {
	p := c.P
	child := p.Func("pkg/forkexec", "forkAndExecInChild")
	if child == nil {
		c.Undecided(rule, "forkexec.forkAndExecInChild", "-", "function not found")
		return
	}
	n := 0
	for _, site := range staticCallSites(child) {
		caller := site.Parent()
		if caller == nil || caller.Pkg == nil || strings.HasSuffix(caller.Pkg.Pkg.Path(), "_test") {
			continue
		}
		cd := controlDeps(caller)
		for i, a := range site.Common().Args {
			if i >= len(child.Params) || child.Params[i].Type().String() != "*byte" {
				continue
			}
			name := child.Params[i].Name()
			fields := runnerFieldsOf(a, 0)
			if len(fields) == 0 {
				continue // not a plain conversion of a Runner field (argv0: element 0 of the argument vector)
			}
			n++
			key := "forkexec." + caller.Name() + ":arg(" + name + ")"
			if len(fields) != 1 {
				c.Fail(rule, key, p.Pos(site.Pos()), fmt.Sprintf("the child's %s is computed from Runner fields %v, want exactly one", name, fields))
				continue
			}
			field := fields[0]
			bad := ""
			var walk func(v ssa.Value, d int)
			walk = func(v ssa.Value, d int) {
				ph, ok := v.(*ssa.Phi)
				if !ok || d > 4 {
					return
				}
				for j, e := range ph.Edges {
					if !isNilConst(e) {
						walk(e, d+1)
						continue
					}
					pred := ph.Block().Preds[j]
					g := cd.guardOf(pred)
					if iff := blockIf(pred); iff != nil {
						atom, neg := condLit(iff.Cond)
						lit := fLit(atom)
						if (pred.Succs[0] == ph.Block()) == neg {
							lit = fNot(lit)
						}
						g = fAnd(g, lit)
					}
					okEdge := false
					for _, at := range Support(g) {
						if strings.Contains(at, "."+field+" ") && strings.HasSuffix(at, `== ""`) {
							if v, _, _ := Valid(fImp(g, fLit(at))); v {
								okEdge = true
							}
						}
					}
					if !okEdge && bad == "" {
						bad = g.String()
					}
				}
			}
			walk(a, 0)
			c.Cond(bad == "", rule, key, p.Pos(site.Pos()), "the child's "+name+" is Runner."+field+" in every configuration",
				"the child's "+name+" is left nil under "+bad+" although Runner."+field+" may be set: the step it controls is silently skipped for that configuration")
		}
	}
	if n == 0 {
		c.Undecided(rule, "forkexec:child-arguments", p.Pos(child.Pos()), "no call of the child with C-string arguments found")
	}
	c.Expect(rule, 4)
}
