package main

// Path-sensitive conditional constant propagation over SSA ("spec walker").
// Used for table extraction: a function's finite decision structure is
// specialised on seeded abstract values (e.g. signal = SIGKILL,
// Exited() = false) and every path is followed; branches whose condition
// evaluates to a constant under the seeds take one edge, all others fork.
// Values live in the lattice {const c, pointer to tracked cell, struct of
// fields, symbolic(ssa value)}. Nothing is executed: there is no heap, no
// call is followed unless the caller supplies a summary via Seed.

import (
	"fmt"
	"go/constant"
	"go/token"
	"go/types"
	"sort"
	"strings"

	"golang.org/x/tools/go/ssa"
)

type avKind int

const (
	avSym avKind = iota
	avConst
	avNil
	avPtr
	avStruct
)

type absVal struct {
	k      avKind
	c      constant.Value
	key    string             // avPtr: cell key
	fields map[string]*absVal // avStruct
	sym    ssa.Value          // avSym: the opaque value
	tag    string             // optional symbolic tag set by seeds
}

func avC(c constant.Value) *absVal { return &absVal{k: avConst, c: c} }
func avInt(i int64) *absVal        { return avC(constant.MakeInt64(i)) }
func avBool(b bool) *absVal        { return avC(constant.MakeBool(b)) }
func avSymOf(v ssa.Value) *absVal  { return &absVal{k: avSym, sym: v} }
func avTag(t string) *absVal       { return &absVal{k: avSym, tag: t} }

func (a *absVal) String() string {
	if a == nil {
		return "<none>"
	}
	switch a.k {
	case avConst:
		return a.c.ExactString()
	case avNil:
		return "nil"
	case avPtr:
		return "&" + a.key
	case avStruct:
		var ks []string
		for k := range a.fields {
			ks = append(ks, k)
		}
		sort.Strings(ks)
		var ps []string
		for _, k := range ks {
			ps = append(ps, k+":"+a.fields[k].String())
		}
		return "{" + strings.Join(ps, " ") + "}"
	}
	if a.tag != "" {
		return "«" + a.tag + "»"
	}
	if a.sym != nil {
		return "«" + describe(a.sym) + "»"
	}
	return "⊤"
}

func (a *absVal) Int() (int64, bool) {
	if a == nil || a.k != avConst || a.c.Kind() != constant.Int {
		return 0, false
	}
	return constant.Int64Val(a.c)
}

func (a *absVal) Bool() (bool, bool) {
	if a == nil || a.k != avConst || a.c.Kind() != constant.Bool {
		return false, false
	}
	return constant.BoolVal(a.c), true
}

type wstate struct {
	vals   map[ssa.Value]*absVal
	mem    map[string]*absVal
	allocd map[string]bool
	esc    map[string]bool // cells whose address was handed to an unmodelled call: contents unknown
	visits map[*ssa.BasicBlock]int
	trail  []*ssa.BasicBlock
	defers []*ssa.Defer
}

func (s *wstate) clone() *wstate {
	n := &wstate{vals: map[ssa.Value]*absVal{}, mem: map[string]*absVal{}, allocd: map[string]bool{}, visits: map[*ssa.BasicBlock]int{}}
	for k, v := range s.vals {
		n.vals[k] = v
	}
	for k, v := range s.mem {
		n.mem[k] = v
	}
	for k, v := range s.allocd {
		n.allocd[k] = v
	}
	if len(s.esc) > 0 {
		n.esc = map[string]bool{}
		for k, v := range s.esc {
			n.esc[k] = v
		}
	}
	for k, v := range s.visits {
		n.visits[k] = v
	}
	n.trail = append([]*ssa.BasicBlock(nil), s.trail...)
	n.defers = append([]*ssa.Defer(nil), s.defers...)
	return n
}

type walker struct {
	fn *ssa.Function
	// Seed may return an abstract value for v (consulted before the default
	// transfer function); return nil to use the default.
	Seed func(w *walker, st *wstate, v ssa.Value) *absVal
	// OnInstr observes every instruction on a path (after evaluation).
	OnInstr func(w *walker, st *wstate, in ssa.Instruction)
	// OnReturn is called at each Return with evaluated results.
	OnReturn func(w *walker, st *wstate, ret *ssa.Return, results []*absVal)
	// OnPanic is called at each Panic.
	OnPanic func(w *walker, st *wstate, p *ssa.Panic)
	// Inline > 0: calls to functions of the module (static callees with a body, not recursive) are followed up to
	// this depth instead of being treated as opaque, so that moving code into or out of a helper does not change
	// what a rule sees. A Seed value for the call instruction takes precedence (the call then stays opaque).
	// 0 = default (2), negative = never inline.
	Inline int
	// Init may pre-populate the memory of the initial state (e.g. the elements of a slice parameter).
	Init func(w *walker, st *wstate)
	// MemoStates: a block entered again in an identical abstract state (constants, pointers, notes) is not explored
	// twice (keeps functions with many independent symbolic branches tractable). Only for rules whose per-path
	// bookkeeping lives in the state (note/bump), never in variables captured by the hooks.
	MemoStates bool
	seedSkip   *ssa.Call
	MaxVisits  int // per block per path (default 2)
	MaxPaths   int
	paths      int
	Truncated  bool
}

func (w *walker) Run() {
	if w.MaxVisits == 0 {
		w.MaxVisits = 2
	}
	if w.MaxPaths == 0 {
		w.MaxPaths = 200000
	}
	if w.Inline == 0 {
		w.Inline = 2
	}
	if w.Inline > 0 {
		w.runInlining()
		if w.Truncated {
			walkerTruncations = append(walkerTruncations, funcName(w.fn))
		}
		return
	}
	defer func() {
		if w.Truncated {
			walkerTruncations = append(walkerTruncations, funcName(w.fn))
		}
	}()
	st := &wstate{vals: map[ssa.Value]*absVal{}, mem: map[string]*absVal{}, allocd: map[string]bool{}, visits: map[*ssa.BasicBlock]int{}}
	if w.Init != nil {
		w.Init(w, st)
	}
	w.block(st, w.fn.Blocks[0], nil)
}

// runInlining explores the function with the interprocedural walker, following
// static calls into the module.
func (w *walker) runInlining() {
	x := &xwalker{w: w, MaxSteps: 400000, MaxPaths: w.MaxPaths, MaxVisits: w.MaxVisits}
	if w.MemoStates {
		x.Memo = map[string]bool{}
	}
	x.Call = func(x *xwalker, st *xstate, call *ssa.Call) ([]xoutcome, bool) {
		if w.Seed != nil {
			if a := w.Seed(w, st.wstate, call); a != nil {
				return []xoutcome{{result: a}}, true
			}
		}
		w.seedSkip = call // the default transfer must not consult Seed a second time
		var fn *ssa.Function
		var bind map[ssa.Value]*absVal
		switch cv := call.Call.Value.(type) {
		case *ssa.Function:
			fn = cv
		case *ssa.MakeClosure:
			fn, _ = cv.Fn.(*ssa.Function)
			if fn != nil {
				bind = map[ssa.Value]*absVal{}
				for i, fv := range fn.FreeVars {
					if i < len(cv.Bindings) {
						bind[fv] = x.eval(st, cv.Bindings[i])
					}
				}
			}
		}
		// helpers = functions of the root function's own package
		if call.Call.IsInvoke() || fn == nil || len(fn.Blocks) == 0 || !inModule(fn) || fn.Pkg != w.fn.Pkg || len(st.frames) > w.Inline {
			return nil, false
		}
		for _, fr := range st.frames {
			if fr.fn == fn {
				return nil, false // recursion
			}
		}
		var args []*absVal
		for _, a := range call.Call.Args {
			args = append(args, x.eval(st, a))
		}
		w.seedSkip = nil
		return []xoutcome{{inline: fn, args: args, bind: bind}}, true
	}
	x.OnReturn = func(x *xwalker, st *xstate, rs []*absVal) {
		w.paths++
		if w.OnReturn != nil {
			ret, _ := st.user["@ret"].(*ssa.Return)
			w.OnReturn(w, st.wstate, ret, rs)
		}
	}
	x.OnPanic = func(x *xwalker, st *xstate) {
		w.paths++
		if w.OnPanic != nil {
			pn, _ := st.user["@panic"].(*ssa.Panic)
			w.OnPanic(w, st.wstate, pn)
		}
	}
	st := &xstate{wstate: &wstate{vals: map[ssa.Value]*absVal{}, mem: map[string]*absVal{}, allocd: map[string]bool{}, visits: map[*ssa.BasicBlock]int{}}, user: map[string]any{}}
	if w.Init != nil {
		w.Init(w, st.wstate)
	}
	st.frames = []xframe{{fn: w.fn, block: w.fn.Blocks[0]}}
	x.run(st)
	if x.Truncated {
		w.Truncated = true
	}
}

func (w *walker) eval(st *wstate, v ssa.Value) *absVal {
	if a, ok := st.vals[v]; ok {
		return a
	}
	switch x := v.(type) {
	case *ssa.Const:
		if x.Value == nil {
			// zero value of an aggregate (go/ssa represents e.g. T{} as a nil-valued constant)
			if _, isStruct := x.Type().Underlying().(*types.Struct); isStruct {
				return zeroOf(x.Type())
			}
			return &absVal{k: avNil}
		}
		return avC(x.Value)
	case *ssa.Global:
		return &absVal{k: avPtr, key: "G:" + x.Pkg.Pkg.Path() + "." + x.Name()}
	case *ssa.Function:
		return avSymOf(v)
	}
	if w.Seed != nil {
		if a := w.Seed(w, st, v); a != nil {
			return a
		}
	}
	return avSymOf(v)
}

func zeroOf(t types.Type) *absVal {
	switch u := t.Underlying().(type) {
	case *types.Basic:
		switch {
		case u.Info()&types.IsBoolean != 0:
			return avBool(false)
		case u.Info()&types.IsInteger != 0:
			return avInt(0)
		case u.Info()&types.IsString != 0:
			return avC(constant.MakeString(""))
		case u.Info()&types.IsFloat != 0:
			return avC(constant.MakeFloat64(0))
		}
	case *types.Pointer, *types.Slice, *types.Map, *types.Chan, *types.Interface, *types.Signature:
		return &absVal{k: avNil}
	case *types.Struct:
		f := map[string]*absVal{}
		for i := 0; i < u.NumFields(); i++ {
			f[u.Field(i).Name()] = zeroOf(u.Field(i).Type())
		}
		return &absVal{k: avStruct, fields: f}
	}
	return &absVal{k: avSym}
}

func (w *walker) load(st *wstate, key string, t types.Type) *absVal {
	if a, ok := st.mem[key]; ok {
		return a
	}
	// array value assembled from its elements (constant-length literal tables)
	if at, ok := t.Underlying().(*types.Array); ok && at.Len() <= 64 {
		f := map[string]*absVal{}
		for i := int64(0); i < at.Len(); i++ {
			f[fmt.Sprint(i)] = w.load(st, fmt.Sprintf("%s[%d]", key, i), at.Elem())
		}
		return &absVal{k: avStruct, fields: f}
	}
	// struct assembled from fields?
	if stt, ok := t.Underlying().(*types.Struct); ok {
		f := map[string]*absVal{}
		for i := 0; i < stt.NumFields(); i++ {
			fl := stt.Field(i)
			f[fl.Name()] = w.load(st, key+"."+fl.Name(), fl.Type())
		}
		return &absVal{k: avStruct, fields: f}
	}
	base := key
	if i := strings.Index(key, "."); i >= 0 {
		base = key[:i]
	}
	if strings.HasPrefix(base, "A:") && st.allocd[base] && !st.escaped(key) {
		return zeroOf(t)
	}
	return avTag("load " + key)
}

// escaped: the cell (or an enclosing / enclosed one) was passed by address to
// a call the walker does not model, so its contents are whatever the callee
// left there.
func (s *wstate) escaped(key string) bool {
	for e := range s.esc {
		if key == e || strings.HasPrefix(key, e+".") || strings.HasPrefix(e, key+".") {
			return true
		}
	}
	return false
}

// havoc forgets what is known about the cell at key and everything inside it.
func (s *wstate) havoc(key string) {
	if s.esc == nil {
		s.esc = map[string]bool{}
	}
	s.esc[key] = true
	for k := range s.mem {
		if k == key || strings.HasPrefix(k, key+".") {
			delete(s.mem, k)
		}
	}
}

func (w *walker) store(st *wstate, key string, v *absVal) {
	for k := range st.mem {
		if strings.HasPrefix(k, key+".") {
			delete(st.mem, k)
		}
	}
	if v.k == avStruct {
		delete(st.mem, key)
		for f, fv := range v.fields {
			w.store(st, key+"."+f, fv)
		}
		return
	}
	st.mem[key] = v
	// invalidate enclosing whole-struct entries
	for i := len(key) - 1; i > 0; i-- {
		if key[i] == '.' {
			delete(st.mem, key[:i])
		}
	}
}

func (w *walker) transfer(st *wstate, in ssa.Instruction, prev *ssa.BasicBlock) {
	v, isVal := in.(ssa.Value)
	if w.seedSkip != nil && in == ssa.Instruction(w.seedSkip) {
		w.seedSkip = nil
	} else if isVal && w.Seed != nil {
		if _, isPhi := in.(*ssa.Phi); !isPhi {
			if a := w.Seed(w, st, v); a != nil {
				st.vals[v] = a
				return
			}
		}
	}
	switch x := in.(type) {
	case *ssa.Alloc:
		key := "A:" + x.Parent().Name() + "#" + x.Name()
		st.allocd[key] = true
		// re-executed alloc in a loop: reset cell
		for k := range st.mem {
			if k == key || strings.HasPrefix(k, key+".") {
				delete(st.mem, k)
			}
		}
		for k := range st.esc {
			if k == key || strings.HasPrefix(k, key+".") {
				delete(st.esc, k)
			}
		}
		st.vals[x] = &absVal{k: avPtr, key: key}
	case *ssa.Phi:
		for i, p := range x.Block().Preds {
			if p == prev {
				st.vals[x] = w.eval(st, x.Edges[i])
				return
			}
		}
		st.vals[x] = avSymOf(x)
	case *ssa.FieldAddr:
		b := w.eval(st, x.X)
		if b.k == avPtr {
			st.vals[x] = &absVal{k: avPtr, key: b.key + "." + fieldName(x.X.Type(), x.Field)}
		} else {
			st.vals[x] = avSymOf(x)
		}
	case *ssa.IndexAddr:
		// element of an array cell or of a slice modelled as a pointer to its backing array
		b, i := w.eval(st, x.X), w.eval(st, x.Index)
		if b.k == avPtr && i.k == avConst {
			st.vals[x] = &absVal{k: avPtr, key: b.key + "[" + i.c.ExactString() + "]"}
		} else {
			st.vals[x] = avSymOf(x)
		}
	case *ssa.Index:
		// element of an array value with a constant index
		b, i := w.eval(st, x.X), w.eval(st, x.Index)
		if b.k == avStruct && i.k == avConst {
			if f, ok := b.fields[i.c.ExactString()]; ok {
				st.vals[x] = f
				return
			}
		}
		st.vals[x] = avSymOf(x)
	case *ssa.Field:
		b := w.eval(st, x.X)
		if b.k == avStruct {
			if f, ok := b.fields[fieldName(x.X.Type(), x.Field)]; ok {
				st.vals[x] = f
				return
			}
		}
		st.vals[x] = avSymOf(x)
	case *ssa.UnOp:
		a := w.eval(st, x.X)
		switch x.Op {
		case token.MUL:
			if a.k == avPtr {
				st.vals[x] = w.load(st, a.key, x.Type())
			} else {
				st.vals[x] = avSymOf(x)
			}
		case token.NOT:
			if b, ok := a.Bool(); ok {
				st.vals[x] = avBool(!b)
			} else {
				st.vals[x] = avSymOf(x)
			}
		case token.SUB:
			if a.k == avConst {
				st.vals[x] = avC(constant.UnaryOp(token.SUB, a.c, 0))
			} else {
				st.vals[x] = avSymOf(x)
			}
		default:
			st.vals[x] = avSymOf(x)
		}
	case *ssa.BinOp:
		st.vals[x] = w.binop(st, x)
	case *ssa.Convert:
		st.vals[x] = w.eval(st, x.X)
	case *ssa.ChangeType:
		st.vals[x] = w.eval(st, x.X)
	case *ssa.ChangeInterface:
		st.vals[x] = w.eval(st, x.X)
	case *ssa.MakeInterface:
		st.vals[x] = w.eval(st, x.X)
	case *ssa.Store:
		a := w.eval(st, x.Addr)
		if a.k == avPtr {
			w.store(st, a.key, w.eval(st, x.Val))
		}
	case *ssa.Extract:
		st.vals[x] = avSymOf(x)
	case *ssa.Defer:
		st.defers = append(st.defers, x)
	case *ssa.TypeAssert:
		// v.(T) without ", ok" yields the dynamic value: a definitely non-nil interface stays a definite value
		if a := w.eval(st, x.X); !x.CommaOk && a.k == avPtr {
			st.vals[x] = a
		} else {
			st.vals[x] = avSymOf(x)
		}
	case *ssa.Slice:
		// a slice of a tracked array cell (or of a slice of one) is modelled as a pointer to the same backing cell;
		// its length is remembered when it is static (whole array, constant bounds)
		b := w.eval(st, x.X)
		lowZero := x.Low == nil
		if !lowZero {
			if lv, ok := w.eval(st, x.Low).Int(); ok && lv == 0 {
				lowZero = true
			}
		}
		if b.k == avPtr && lowZero {
			st.vals[x] = &absVal{k: avPtr, key: b.key}
			n := int64(-1)
			if x.High != nil {
				if hv, ok := w.eval(st, x.High).Int(); ok {
					n = hv
				}
			} else if pt, ok := x.X.Type().Underlying().(*types.Pointer); ok {
				if at, ok := pt.Elem().Underlying().(*types.Array); ok {
					n = at.Len()
				}
			} else if l, ok := st.mem["LEN:"+b.key]; ok {
				if lv, ok := l.Int(); ok {
					n = lv
				}
			}
			if n >= 0 {
				st.mem["LEN:"+b.key] = avInt(n)
			} else {
				delete(st.mem, "LEN:"+b.key)
			}
		} else {
			st.vals[x] = avSymOf(x)
		}
	case *ssa.Call:
		if bi, ok := x.Call.Value.(*ssa.Builtin); ok && (bi.Name() == "len" || bi.Name() == "cap") && len(x.Call.Args) == 1 {
			if a := w.eval(st, x.Call.Args[0]); a.k == avPtr {
				if l, ok := st.mem["LEN:"+a.key]; ok && bi.Name() == "len" {
					st.vals[x] = l
					return
				}
			} else if a.k == avNil {
				st.vals[x] = avInt(0)
				return
			}
			st.vals[x] = avSymOf(x)
			return
		}
		if bi, ok := x.Call.Value.(*ssa.Builtin); ok && (bi.Name() == "min" || bi.Name() == "max") && len(x.Call.Args) > 0 {
			// the builtin on constants: evaluated; otherwise symbolic
			var best constant.Value
			allConst := true
			for _, a := range x.Call.Args {
				av := w.eval(st, a)
				if av.k != avConst || av.c == nil || (av.c.Kind() != constant.Int && av.c.Kind() != constant.Float) {
					allConst = false
					break
				}
				if best == nil || (bi.Name() == "min" && constant.Compare(av.c, token.LSS, best)) || (bi.Name() == "max" && constant.Compare(av.c, token.GTR, best)) {
					best = av.c
				}
			}
			if allConst && best != nil {
				st.vals[x] = &absVal{k: avConst, c: best}
			} else {
				st.vals[x] = avSymOf(x)
			}
			return
		}
		if e, tgt, ok := errorsIsConst(x); ok {
			l, r := w.eval(st, e), w.eval(st, tgt)
			switch {
			case l.k == avNil:
				st.vals[x] = avBool(false)
				return
			case l.k == avConst && r.k == avConst && l.c != nil && r.c != nil && l.c.Kind() == r.c.Kind():
				st.vals[x] = avBool(constant.Compare(l.c, token.EQL, r.c))
				return
			}
		}
		// an unmodelled call may write through every pointer it is given
		for _, a := range x.Call.Args {
			if pv := w.eval(st, a); pv.k == avPtr && strings.HasPrefix(pv.key, "A:") {
				st.havoc(pv.key)
			}
		}
		if x.Call.IsInvoke() {
			if pv := w.eval(st, x.Call.Value); pv.k == avPtr && strings.HasPrefix(pv.key, "A:") {
				st.havoc(pv.key)
			}
		}
		st.vals[x] = avSymOf(x)
	default:
		if isVal {
			st.vals[v] = avSymOf(v)
		}
	}
}

func (w *walker) binop(st *wstate, x *ssa.BinOp) *absVal {
	l, r := w.eval(st, x.X), w.eval(st, x.Y)
	isCmp := x.Op == token.EQL || x.Op == token.NEQ
	if isCmp {
		// nil comparisons
		lp, rp := l.k == avPtr, r.k == avPtr
		ln, rn := l.k == avNil, r.k == avNil
		switch {
		case ln && rn:
			return avBool(x.Op == token.EQL)
		case (lp && rn) || (ln && rp):
			return avBool(x.Op == token.NEQ)
		case lp && rp:
			return avBool((l.key == r.key) == (x.Op == token.EQL))
		}
		if (ln && r.k == avConst) || (rn && l.k == avConst) {
			// interface holding a constant compared with nil: non-nil
			return avBool(x.Op == token.NEQ)
		}
	}
	if l.k == avConst && r.k == avConst {
		defer func() { recover() }()
		switch x.Op {
		case token.EQL, token.NEQ, token.LSS, token.LEQ, token.GTR, token.GEQ:
			if l.c.Kind() == r.c.Kind() || (l.c.Kind() != constant.String && r.c.Kind() != constant.String && l.c.Kind() != constant.Bool) {
				return avBool(constant.Compare(l.c, x.Op, r.c))
			}
		case token.SHL, token.SHR:
			if s, ok := constant.Uint64Val(r.c); ok {
				return avC(constant.Shift(l.c, x.Op, uint(s)))
			}
		case token.AND_NOT:
			return avC(constant.BinaryOp(l.c, token.AND, constant.UnaryOp(token.XOR, r.c, 64)))
		default:
			op := x.Op
			if op == token.QUO && l.c.Kind() == constant.Int {
				op = token.QUO_ASSIGN
			}
			return avC(constant.BinaryOp(l.c, op, r.c))
		}
	}
	return avSymOf(x)
}

func (w *walker) block(st *wstate, b *ssa.BasicBlock, prev *ssa.BasicBlock) {
	if w.paths >= w.MaxPaths {
		w.Truncated = true
		return
	}
	if st.visits[b] >= w.MaxVisits {
		return
	}
	st.visits[b]++
	st.trail = append(st.trail, b)
	for _, in := range b.Instrs {
		switch x := in.(type) {
		case *ssa.If:
			c := w.eval(st, x.Cond)
			if w.OnInstr != nil {
				w.OnInstr(w, st, in)
			}
			if bv, ok := c.Bool(); ok {
				if bv {
					w.block(st, b.Succs[0], b)
				} else {
					w.block(st, b.Succs[1], b)
				}
				return
			}
			s2 := st.clone()
			w.block(st, b.Succs[0], b)
			w.block(s2, b.Succs[1], b)
			return
		case *ssa.Jump:
			w.block(st, b.Succs[0], b)
			return
		case *ssa.Return:
			var rs []*absVal
			for _, r := range x.Results {
				rs = append(rs, w.eval(st, r))
			}
			w.paths++
			if w.OnReturn != nil {
				w.OnReturn(w, st, x, rs)
			}
			return
		case *ssa.Panic:
			w.paths++
			if w.OnPanic != nil {
				w.OnPanic(w, st, x)
			}
			return
		default:
			w.transfer(st, in, prev)
			if w.OnInstr != nil {
				w.OnInstr(w, st, in)
			}
		}
	}
}

// seedChain combines seed functions.
func seedChain(fs ...func(w *walker, st *wstate, v ssa.Value) *absVal) func(w *walker, st *wstate, v ssa.Value) *absVal {
	return func(w *walker, st *wstate, v ssa.Value) *absVal {
		for _, f := range fs {
			if a := f(w, st, v); a != nil {
				return a
			}
		}
		return nil
	}
}

// seedCallResult seeds the result of calls whose canonical callee name
// matches.
func seedCallResult(name string, val *absVal) func(w *walker, st *wstate, v ssa.Value) *absVal {
	return func(w *walker, st *wstate, v ssa.Value) *absVal {
		if c, ok := v.(*ssa.Call); ok {
			if n, _ := calleeOf(c); n == name {
				return val
			}
		}
		return nil
	}
}

func fmtVals(vs []*absVal) string {
	var ps []string
	for _, v := range vs {
		ps = append(ps, v.String())
	}
	return fmt.Sprint(ps)
}

// errPropagated decides, path-sensitively, whether a non-nil error produced at
// ev (a call returning error, or the error component extracted from a call) is
// always reported by the enclosing function: on every path from the entry that
// evaluates ev, with ev assumed non-nil, the function returns a non-nil error
// (ev itself, or a value built by an error constructor). The shape of the
// source (if err != nil { return err } / return f() / named result) does not
// matter. Returns false with the position of an offending return otherwise.
func errPropagated(p *Prog, ev ssa.Value) (bool, string) {
	in, ok := ev.(ssa.Instruction)
	if !ok || in.Parent() == nil {
		return false, "-"
	}
	fn := in.Parent()
	res := fn.Signature.Results()
	errIdx := -1
	for i := 0; i < res.Len(); i++ {
		if isErrorType(res.At(i).Type()) {
			errIdx = i
		}
	}
	if errIdx < 0 {
		return false, "-"
	}
	w := &walker{fn: fn}
	w.Seed = func(w *walker, st *wstate, v ssa.Value) *absVal {
		if v == ev {
			return &absVal{k: avPtr, key: "X:err"}
		}
		if c, ok := v.(*ssa.Call); ok && isErrorType(c.Type()) {
			n, _ := calleeOf(c)
			if n == "fmt.Errorf" || n == "errors.New" || n == "os.NewSyscallError" || n == "errors.Join" {
				return &absVal{k: avPtr, key: "X:wrapped"}
			}
		}
		return nil
	}
	passes, bad := 0, ""
	w.OnReturn = func(w *walker, st *wstate, ret *ssa.Return, rs []*absVal) {
		if _, seen := st.vals[ev]; !seen {
			return
		}
		passes++
		if errIdx >= len(rs) || rs[errIdx].k != avPtr {
			if bad == "" {
				bad = p.Pos(ret.Pos())
			}
		}
	}
	w.Run()
	if w.Truncated || passes == 0 {
		return false, "-"
	}
	return bad == "", bad
}

// walkerTruncations collects the functions whose exploration hit the path or step limit during the current
// check: their tables are incomplete, so the check reports itself undecided instead of passing.
var walkerTruncations []string

// Per-path bookkeeping of a rule lives in the state's memory (which is copied when a path forks), not in maps keyed
// by the state object: note / noted / count.
func (s *wstate) note(name string) { s.mem["EV:"+name] = avBool(true) }
func (s *wstate) noted(name string) bool {
	v, ok := s.mem["EV:"+name]
	if !ok {
		return false
	}
	b, _ := v.Bool()
	return b
}
func (s *wstate) bump(name string) {
	s.mem["EV:"+name] = avInt(int64(s.count(name) + 1))
}
func (s *wstate) count(name string) int {
	if v, ok := s.mem["EV:"+name]; ok && v.k == avConst {
		if n, ok := constant.Int64Val(v.c); ok {
			return int(n)
		}
	}
	return 0
}
func (s *wstate) noteStr(name, val string) { s.mem["EV:"+name] = avStr(val) }
func (s *wstate) notedStr(name string) string {
	if v, ok := s.mem["EV:"+name]; ok && v.k == avConst && v.c.Kind() == constant.String {
		return constant.StringVal(v.c)
	}
	return ""
}
