package main

// E0c: canonical comparisons.
//
// The rules look at comparisons in the SSA form. The same test can be written
// in several equivalent ways (`err != nil` / `!(err == nil)` / `nil != err`,
// `a > b` / `b < a`, `x == 3` / `3 == x`, `if x == nil { A } else { B }` /
// `if x != nil { B } else { A }`). After the SSA form is built every comparison
// of the module's functions is brought into one shape, in place:
//
//   - a constant (or nil) operand stands on the right; `c < x` becomes `x > c` etc.;
//   - between two non-constant operands only `<` and `<=` are used (`a > b` becomes `b < a`), and the operands
//     of `==` / `!=` stand in a fixed order;
//   - a branch on a nil test is a branch on `x != nil` (successors exchanged if needed);
//   - a branch on any other equality is a branch on `x == y` (successors exchanged if needed),
//     provided the comparison value is used by that branch only.
//
// This changes no meaning: operands of a comparison are values already computed,
// and exchanging the successors of a branch together with negating its condition
// is the identity.

import (
	"go/token"

	"golang.org/x/tools/go/ssa"
)

func mirrorOp(op token.Token) token.Token {
	switch op {
	case token.LSS:
		return token.GTR
	case token.GTR:
		return token.LSS
	case token.LEQ:
		return token.GEQ
	case token.GEQ:
		return token.LEQ
	}
	return op
}

func isCmpOp(op token.Token) bool {
	switch op {
	case token.EQL, token.NEQ, token.LSS, token.LEQ, token.GTR, token.GEQ:
		return true
	}
	return false
}

func isConstOperand(v ssa.Value) bool {
	switch x := v.(type) {
	case *ssa.Const:
		return true
	case *ssa.MakeInterface:
		_, ok := x.X.(*ssa.Const)
		return ok
	case *ssa.Convert:
		_, ok := x.X.(*ssa.Const)
		return ok
	}
	return false
}

func canonicalise(fn *ssa.Function) {
	for _, b := range fn.Blocks {
		for _, in := range b.Instrs {
			bo, ok := in.(*ssa.BinOp)
			if !ok || !isCmpOp(bo.Op) {
				continue
			}
			xc, yc := isConstOperand(bo.X), isConstOperand(bo.Y)
			switch {
			case xc && !yc:
				bo.X, bo.Y = bo.Y, bo.X
				bo.Op = mirrorOp(bo.Op)
			case !xc && !yc && (bo.Op == token.GTR || bo.Op == token.GEQ):
				bo.X, bo.Y = bo.Y, bo.X
				bo.Op = mirrorOp(bo.Op)
			case !xc && !yc && (bo.Op == token.EQL || bo.Op == token.NEQ):
				// symmetric: a fixed operand order (by the canonical rendering of the operands)
				if describe(bo.X) > describe(bo.Y) {
					bo.X, bo.Y = bo.Y, bo.X
				}
			}
		}
		if len(b.Instrs) == 0 {
			continue
		}
		iff, ok := b.Instrs[len(b.Instrs)-1].(*ssa.If)
		if !ok || len(b.Succs) != 2 {
			continue
		}
		bo, ok := iff.Cond.(*ssa.BinOp)
		if !ok || (bo.Op != token.EQL && bo.Op != token.NEQ) {
			continue
		}
		refs := bo.Referrers()
		if refs == nil || len(*refs) != 1 {
			continue
		}
		nilTest := false
		if c, ok := bo.Y.(*ssa.Const); ok && c.Value == nil {
			nilTest = true
		}
		want := token.EQL
		if nilTest {
			want = token.NEQ
		}
		if bo.Op != want {
			bo.Op = want
			b.Succs[0], b.Succs[1] = b.Succs[1], b.Succs[0]
		}
	}
	for _, af := range fn.AnonFuncs {
		canonicalise(af)
	}
}
