package main

// C08 — configured limits are in force; exhausting them yields the matching verdict.

import (
	"fmt"
	"go/token"
	"go/types"
	"sort"
	"strings"

	"golang.org/x/tools/go/ssa"
)

func init() {
	register("C08", "(1) The record→resource table of RLimits.PrepareRLimit is extracted (guard field, RLIMIT_* constant, provenance of soft/hard value) and compared with the Linux resource table; the CPU hard limit is clamped to ≥ soft. (2) E1: the child issues prlimit64(0, Res, &Rlim, NULL) for every entry, checked inside the loop with the entry index, before no_new_privs / capability drop / seccomp / exec. (3) Usage verdicts by conditional constant propagation: exceeding the time or memory bound yields TLE / MLE whatever the wait status, with both measurements; strict '>' comparison; identical KiB→byte factor in the three readers of Maxrss; SIGXCPU / SIGXFSZ signal-delivery stops of the ptrace runner map to TLE / OLE. (4) The output collector copies at most N+1 bytes, then signals done, then drains to EOF and closes the read end, unconditionally and in this order. Does not decide kernel enforcement or CPU accounting accuracy.", checkC08)
}

func checkC08(c *Check) {
	p := c.P
	// ---------- 1: record → resource table ----------
	prep := p.Func("pkg/rlimit", "RLimits.PrepareRLimit")
	if prep == nil {
		c.Undecided("1/rlimit-table", "pkg/rlimit.PrepareRLimit", "-", "function not found")
	} else {
		// The record → limit-list conversion is evaluated on a finite set of scenarios by constant propagation (each
		// field alone, the CPU soft/hard combinations, nothing, everything): the list of entries appended on every
		// path is read from the abstract memory. Independent of how the function is written (one block per field, or
		// a table and a loop).
		type entry struct{ res, cur, max int64 }
		type scenario struct {
			label string
			set   map[string]int64 // field -> value (bool fields: 1)
			want  []entry
		}
		R := func(n string) int64 { return p.Sys(n) }
		scs := []scenario{
			{"nothing set", map[string]int64{}, nil},
			{"CPU=10, CPUHard unset", map[string]int64{"CPU": 10}, []entry{{R("RLIMIT_CPU"), 10, 10}}},
			{"CPU=10, CPUHard=20", map[string]int64{"CPU": 10, "CPUHard": 20}, []entry{{R("RLIMIT_CPU"), 10, 20}}},
			{"CPU=10, CPUHard=5 (below soft)", map[string]int64{"CPU": 10, "CPUHard": 5}, []entry{{R("RLIMIT_CPU"), 10, 10}}},
			{"CPUHard=20 alone", map[string]int64{"CPUHard": 20}, nil},
			{"Data=1001", map[string]int64{"Data": 1001}, []entry{{R("RLIMIT_DATA"), 1001, 1001}}},
			{"FileSize=1002", map[string]int64{"FileSize": 1002}, []entry{{R("RLIMIT_FSIZE"), 1002, 1002}}},
			{"Stack=1003", map[string]int64{"Stack": 1003}, []entry{{R("RLIMIT_STACK"), 1003, 1003}}},
			{"AddressSpace=1004", map[string]int64{"AddressSpace": 1004}, []entry{{R("RLIMIT_AS"), 1004, 1004}}},
			{"OpenFile=1005", map[string]int64{"OpenFile": 1005}, []entry{{R("RLIMIT_NOFILE"), 1005, 1005}}},
			{"DisableCore", map[string]int64{"DisableCore": 1}, []entry{{R("RLIMIT_CORE"), 0, 0}}},
			{"everything set", map[string]int64{"CPU": 10, "CPUHard": 20, "Data": 1001, "FileSize": 1002, "Stack": 1003, "AddressSpace": 1004, "OpenFile": 1005, "DisableCore": 1},
				[]entry{{R("RLIMIT_CPU"), 10, 20}, {R("RLIMIT_DATA"), 1001, 1001}, {R("RLIMIT_FSIZE"), 1002, 1002}, {R("RLIMIT_STACK"), 1003, 1003}, {R("RLIMIT_AS"), 1004, 1004}, {R("RLIMIT_NOFILE"), 1005, 1005}, {R("RLIMIT_CORE"), 0, 0}}},
		}
		recvParam := prep.Params[0]
		for _, sc2 := range scs {
			sc2 := sc2
			var results []string
			w := &walker{fn: prep, MaxVisits: 12, Inline: 3}
			w.Seed = func(w *walker, st *wstate, v ssa.Value) *absVal {
				if u, ok := v.(*ssa.UnOp); ok && u.Op == token.MUL {
					if fa, ok := u.X.(*ssa.FieldAddr); ok && fa.X == ssa.Value(recvParam) {
						f := fieldName(fa.X.Type(), fa.Field)
						val := sc2.set[f]
						if b, isB := u.Type().Underlying().(*types.Basic); isB && b.Info()&types.IsBoolean != 0 {
							return avBool(val != 0)
						}
						return avInt(val)
					}
				}
				return nil
			}
			w.OnInstr = func(w *walker, st *wstate, in ssa.Instruction) {
				call, ok := in.(*ssa.Call)
				if !ok {
					return
				}
				bi, ok := call.Call.Value.(*ssa.Builtin)
				if !ok || bi.Name() != "append" || len(call.Call.Args) != 2 {
					return
				}
				slT, isSl := call.Type().Underlying().(*types.Slice) // also a named list type
				if !isSl || !strings.HasSuffix(slT.Elem().String(), "rlimit.RLimit") {
					return
				}
				sl, ok := call.Call.Args[1].(*ssa.Slice)
				if !ok {
					st.noteStr("entries", st.notedStr("entries")+"?;")
					return
				}
				arr := w.eval(st, sl.X)
				if arr.k != avPtr {
					st.noteStr("entries", st.notedStr("entries")+"?;")
					return
				}
				el := w.load(st, arr.key+"[0]", slT.Elem())
				res, cur, max := "?", "?", "?"
				if el.k == avStruct {
					if f := el.fields["Res"]; f != nil {
						res = f.String()
					}
					if rl := el.fields["Rlim"]; rl != nil && rl.k == avStruct {
						if f := rl.fields["Cur"]; f != nil {
							cur = f.String()
						}
						if f := rl.fields["Max"]; f != nil {
							max = f.String()
						}
					}
				}
				st.noteStr("entries", st.notedStr("entries")+res+"/"+cur+"/"+max+";")
			}
			w.OnReturn = func(w *walker, st *wstate, ret *ssa.Return, rs []*absVal) {
				results = append(results, st.notedStr("entries"))
			}
			w.Run()
			var wantL []string
			for _, e := range sc2.want {
				wantL = append(wantL, fmt.Sprintf("%d/%d/%d", e.res, e.cur, e.max))
			}
			sort.Strings(wantL)
			okSc := len(results) > 0 && !w.Truncated
			got := ""
			for _, r := range results {
				parts := strings.Split(strings.TrimSuffix(r, ";"), ";")
				if r == "" {
					parts = nil
				}
				sort.Strings(parts)
				got = strings.Join(parts, " ")
				if strings.Join(parts, " ") != strings.Join(wantL, " ") {
					okSc = false
				}
			}
			c.Cond(okSc, "1/rlimit-table", "pkg/rlimit.PrepareRLimit:"+sc2.label, p.Pos(prep.Pos()), "→ entries (resource/soft/hard): "+strings.Join(wantL, " "),
				fmt.Sprintf("with %s the limit list is [%s], want [%s]", sc2.label, got, strings.Join(wantL, " ")))
		}
		c.Expect("1/rlimit-table", 12)
	}

	// ---------- 2: child loop ----------
	if x := newE1ctx(c); x != nil {
		r := x.r
		pl := x.sel("prlimit64", nil)
		c.Cond(len(pl) == 1, "2/child-loop", "prlimit64-sites", p.Pos(r.Child.Pos()), "one prlimit64 site", fmt.Sprintf("%d prlimit64 sites", len(pl)))
		for _, e := range pl {
			pid, ok0 := e.argInt(0)
			old, ok3 := e.argInt(3)
			c.Cond(ok0 && pid == 0 && ok3 && old == 0 && strings.HasSuffix(e.argDesc(1), ".Res") && strings.Contains(e.argDesc(2), ".Rlim"), "2/child-loop", "args:"+e.Site, x.pos(e),
				"prlimit64(self, entry.Res, &entry.Rlim, NULL)", "prlimit64("+e.argDesc(0)+", "+e.argDesc(1)+", "+e.argDesc(2)+", "+e.argDesc(3)+"): new limit must be argument 3 and the old-limit pointer NULL")
			extra := nonLoopAtoms(e.Guard)
			loopOK := e.InLoop && len(extra) == 0 && strings.Contains(e.Guard.String(), "len("+r.R+".RLimits)")
			c.Cond(loopOK, "2/child-loop", "every-entry:"+e.Site, x.pos(e), "applied to every configured entry", "not every configured limit is applied: guard "+e.Guard.String())
			c.Cond(e.Checked && e.FailIdx != "" && strings.HasSuffix(e.FailLoc, "SetRlimit"), "2/child-loop", "failure-edge:"+e.Site, x.pos(e), "a failing entry aborts the launch with its index",
				"a failing prlimit64 is not reported per entry (checked="+fmt.Sprint(e.Checked)+", loc="+e.FailLoc+"): the program would run with inherited limits")
			// the failure test sits inside the loop
			for b, fc := range r.failBlk {
				if len(fc.Call.Args) >= 2 {
					if v, ok := constInt(fc.Call.Args[1]); ok && r.LocNames[v] == e.FailLoc {
						c.Cond(inLoop(b), "2/child-loop", "failure-in-loop:"+e.Site, p.Pos(fc.Pos()), "the result of every iteration is tested", "the result is tested after the loop only: failures of all but the last entry are swallowed")
					}
				}
			}
		}
		nnp := x.sel("prctl", func(e *e1Event) bool {
			a0, _ := e.argInt(0)
			a1, _ := e.argInt(1)
			return a0 == p.Unix("PR_SET_NO_NEW_PRIVS") || (a0 == p.Sys("PR_SET_SECUREBITS") && a1&1 != 0)
		})
		x.ordered("2/child-loop", "rlimit<prctl", pl, nnp, "limits", "no_new_privs / capability drop")
		x.ordered("2/child-loop", "rlimit<seccomp", pl, x.sel("seccomp", nil), "limits", "seccomp load")
		x.ordered("2/child-loop", "rlimit<exec", pl, x.execEvents(), "limits", "exec")
		c.Expect("2/child-loop", 8)
	}

	// ---------- 3: verdicts ----------
	sc := loadStatusConsts(p)
	checkUsageVerdicts(c, sc)

	// ---------- 4: output collector ----------
	checkPipeCollector(c)
	// the parameters acted upon are those of this request (no field inherited from the previous message)
	checkFreshDecode(c, "5/request-is-fresh")

	// the limit signals map to their verdicts in every classifier, the container's included (tables of C09.1)
	importObs(c, "C09", "C09.1/classifier-table", "6/limit-signals-classified", func(o Obligation) bool {
		for _, s := range []string{":signal=9", ":signal=24", ":signal=25"} {
			if strings.HasSuffix(o.Key, s) {
				return true
			}
		}
		return false
	})
	c.Expect("6/limit-signals-classified", 9)

	// programs in the container keep the default disposition of the limit signals
	checkIgnoredSignals(c, "7/limit-signals-not-ignored", []string{"SIGXCPU", "SIGXFSZ"}, nil)
	c.Expect("7/limit-signals-not-ignored", 1)
	// the command's own re-classification from the measured usage
	checkRunprogFinalVerdict(c, "8/runprog-final-verdict")
}

func checkGetRlimit(c *Check, fn *ssa.Function) {
	p := c.P
	key := "pkg/rlimit." + fn.Name()
	for _, o := range c.Obs {
		if o.Key == key {
			return
		}
	}
	ok := false
	if len(fn.Params) == 2 {
		m := map[string]string{}
		for _, b := range fn.Blocks {
			for _, in := range b.Instrs {
				if st, isS := in.(*ssa.Store); isS {
					if fa, isF := st.Addr.(*ssa.FieldAddr); isF {
						m[fieldName(fa.X.Type(), fa.Field)] = describe(st.Val)
					}
				}
			}
		}
		ok = m["Cur"] == fn.Params[0].Name() && m["Max"] == fn.Params[1].Name()
	}
	c.Cond(ok, "1/rlimit-table", key, p.Pos(fn.Pos()), "helper maps (cur, max) to Rlimit{Cur, Max}", "helper does not map its parameters to Cur and Max in this order")
}

func checkUsageVerdicts(c *Check, sc *statusConsts) {
	p := c.P
	// (a) ptracer checkUsage
	var cu *ssa.Function
	for _, f := range p.PkgFuncs("ptracer") {
		if f.Signature.Results().Len() == 3 && f.Signature.Results().At(2).Type().String() == repoModule+"/runner.Status" {
			cu = f
		}
	}
	usageSeed := func(timeEx, memEx bool) func(w *walker, st *wstate, v ssa.Value) *absVal {
		return func(w *walker, st *wstate, v ssa.Value) *absVal {
			if bo, ok := v.(*ssa.BinOp); ok && (bo.Op == token.GTR || bo.Op == token.LSS || bo.Op == token.GEQ || bo.Op == token.LEQ) {
				switch bo.X.Type().String() {
				case "time.Duration":
					return avBool(timeEx)
				case repoModule + "/runner.Size":
					return avBool(memEx)
				}
			}
			return nil
		}
	}
	expect := func(t, m bool) string {
		switch {
		case m:
			return "StatusMemoryLimitExceeded"
		case t:
			return "StatusTimeLimitExceeded"
		}
		return "StatusNormal"
	}
	if cu == nil {
		c.Undecided("3/usage-verdict", "ptracer.checkUsage", "-", "cannot resolve the usage check of package ptracer")
	} else {
		for _, sce := range [][2]bool{{false, false}, {true, false}, {false, true}, {true, true}} {
			var outs []string
			w := &walker{fn: cu, Seed: usageSeed(sce[0], sce[1])}
			w.OnReturn = func(w *walker, st *wstate, ret *ssa.Return, rs []*absVal) { outs = append(outs, statusName(sc, rs[2])) }
			w.Run()
			want := expect(sce[0], sce[1])
			c.Cond(len(outs) == 1 && outs[0] == want, "3/usage-verdict", fmt.Sprintf("ptracer.%s:time>%v,mem>%v", cu.Name(), sce[0], sce[1]), p.Pos(cu.Pos()), "→ "+want, fmt.Sprintf("usage check yields %v, want %s", outs, want))
		}
		checkStrictCompare(c, cu, "ptracer."+cu.Name())
		// trace(): the verdict and both measurements are stored, and a non-normal verdict ends the run; only for the main pid
		if tr := p.Func("ptracer", "Tracer.trace"); tr != nil {
			var call *ssa.Call
			for _, ci := range callInstrs(tr) {
				if _, callee := calleeOf(ci); callee == cu {
					call, _ = ci.(*ssa.Call)
				}
			}
			if call == nil {
				c.Fail("3/usage-verdict", "ptracer.trace:uses-check", p.Pos(tr.Pos()), "the wait loop does not consult the usage check")
			} else {
				stored := map[string]string{}
				for _, b := range tr.Blocks {
					for _, in := range b.Instrs {
						if st, ok := in.(*ssa.Store); ok {
							if fa, ok := st.Addr.(*ssa.FieldAddr); ok {
								if ex, ok := st.Val.(*ssa.Extract); ok && ex.Tuple == ssa.Value(call) {
									stored[fieldName(fa.X.Type(), fa.Field)] = fmt.Sprint(ex.Index)
								}
							}
						}
					}
				}
				c.Cond(stored["Status"] == "2" && stored["Time"] == "0" && stored["Memory"] == "1", "3/usage-verdict", "ptracer.trace:result-fields", p.Pos(call.Pos()), "status, time and memory of the usage check are stored in the result", fmt.Sprintf("result fields from the usage check: %v", stored))
				conds := extraConds(controlDeps(tr), call.Block())
				// the one condition compares the pid wait4 reported with the pid the launch returned
				okMain := false
				// (a retry test `err == EINTR → continue` earlier in the loop body is not a condition on the usage check)
				var conds2 []string
				for _, a := range conds {
					if !strings.Contains(a, fmt.Sprintf("== %d", p.Sys("EINTR"))) {
						conds2 = append(conds2, a)
					}
				}
				conds = conds2
				if len(conds) == 1 {
					for _, d := range cdChain(controlDeps(tr), call.Block()) {
						iff := blockIf(d.b)
						if iff == nil || isLoopHeader(d.b) || isErrCheck(iff) {
							continue
						}
						if bo, ok := iff.Cond.(*ssa.BinOp); ok && bo.Op == token.EQL && d.succ == 0 {
							ox, oy := strings.Join(valueOrigins(bo.X), ","), strings.Join(valueOrigins(bo.Y), ",")
							isWait := func(s string) bool { return strings.HasSuffix(s, ".Wait4") }
							isStart := func(s string) bool { return strings.HasSuffix(s, ".Start") && !strings.Contains(s, ",") }
							okMain = (isWait(ox) && isStart(oy)) || (isWait(oy) && isStart(ox))
						}
					}
				}
				c.Cond(okMain, "3/usage-verdict", "ptracer.trace:main-pid", p.Pos(call.Pos()), "usage is taken from the main process's rusage", "usage check runs under "+strings.Join(conds, ", "))
				// early return on non-normal status
				ret := false
				for _, b := range tr.Blocks {
					if iff := blockIf(b); iff != nil {
						if bo, _, ne, ok := eqEdges(iff); ok {
							if ex, ok := bo.X.(*ssa.Extract); ok && ex.Tuple == ssa.Value(call) && ex.Index == 2 {
								if v, ok := constInt(bo.Y); ok && v == sc.byName["StatusNormal"] && leadsToReturn(b.Succs[ne], 3) {
									ret = true
								}
							}
						}
					}
				}
				c.Cond(ret, "3/usage-verdict", "ptracer.trace:limit-ends-run", p.Pos(call.Pos()), "an exceeded bound ends the run with that verdict", "an exceeded bound does not end the run")
			}
		}
	}
	// (b) unshare.Run: usage verdict wins whatever the wait status
	if run := p.Func("runner/unshare", "Runner.Run"); run != nil {
		for _, sce := range [][2]bool{{true, false}, {false, true}, {true, true}} {
			for _, ws := range []struct {
				label            string
				exited, signaled bool
				sig, code        int64
			}{{"exit0", true, false, 0, 0}, {"exit1", true, false, 0, 1}, {"sig11", false, true, 11, 0}, {"sig9", false, true, 9, 0}, {"sig31", false, true, 31, 0}} {
				var outs []string
				w := &walker{fn: run}
				w.Seed = seedChain(usageSeed(sce[0], sce[1]), func(w *walker, st *wstate, v ssa.Value) *absVal {
					if e, ok := v.(*ssa.Extract); ok && isErrorType(e.Type()) {
						if call, ok := e.Tuple.(*ssa.Call); ok {
							n, _ := calleeOf(call)
							if strings.HasSuffix(n, ".Wait4") || strings.HasSuffix(n, "Runner).Start") {
								return &absVal{k: avNil}
							}
						}
					}
					return nil
				}, classifierSeeds(ws.exited, ws.signaled, ws.sig, ws.code))
				w.OnReturn = func(w *walker, st *wstate, ret *ssa.Return, rs []*absVal) {
					if rs[0].k == avStruct {
						o := statusName(sc, rs[0].fields["Status"])
						tm, mm := rs[0].fields["Time"].String(), rs[0].fields["Memory"].String()
						if tm == "0" || mm == "0" {
							o += "(measurements missing)"
						}
						outs = append(outs, o)
					}
				}
				w.Run()
				want := expect(sce[0], sce[1])
				good := len(outs) > 0
				for _, o := range outs {
					if o != want {
						good = false
					}
				}
				c.Cond(good, "3/usage-verdict", fmt.Sprintf("runner/unshare.Run:time>%v,mem>%v,%s", sce[0], sce[1], ws.label), p.Pos(run.Pos()), "→ "+want+" with both measurements", fmt.Sprintf("with the bound exceeded and wait status %s the verdict is %v, want %s", ws.label, outs, want))
			}
		}
		checkStrictCompare(c, run, "runner/unshare.Run")
	}
	// (c) Maxrss factor identical
	factors := map[string]int64{}
	for _, rel := range []string{"ptracer", "runner/unshare", "container"} {
		for _, fn := range p.PkgFuncs(rel) {
			for _, b := range fn.Blocks {
				for _, in := range b.Instrs {
					if bo, ok := in.(*ssa.BinOp); ok && (bo.Op == token.SHL || bo.Op == token.MUL) && strings.HasSuffix(describe(bo.X), ".Maxrss") {
						if k, ok := constInt(bo.Y); ok {
							if bo.Op == token.SHL {
								k = 1 << uint(k)
							}
							factors[rel+"."+fn.Name()] = k
						}
					}
				}
			}
		}
	}
	for k, f := range factors {
		c.Cond(f == 1024, "3/usage-verdict", k+":maxrss-factor", "-", "Maxrss (KiB) × 1024 = bytes", fmt.Sprintf("Maxrss is scaled by %d, want 1024 (KiB→bytes)", f))
	}
	c.Cond(len(factors) == 3, "3/usage-verdict", "maxrss-readers", "-", "three readers of Maxrss found", fmt.Sprintf("%d readers of Maxrss with a constant factor found (expected 3)", len(factors)))
	// (d) ptrace runner: SIGXCPU / SIGXFSZ delivered as signal stops
	var handle *ssa.Function
	for _, f := range p.PkgFuncs("ptracer") {
		sig := f.Signature
		if sig.Recv() != nil && sig.Results().Len() == 4 && sig.Params().Len() == 2 && strings.HasSuffix(sig.Params().At(1).Type().String(), "WaitStatus") {
			handle = f
		}
	}
	if handle != nil {
		for _, t := range []struct {
			sig  string
			want string
		}{{"SIGXCPU", "StatusTimeLimitExceeded"}, {"SIGXFSZ", "StatusOutputLimitExceeded"}} {
			var outs []string
			w := &walker{fn: handle}
			sv := p.Sys(t.sig)
			w.Seed = func(w *walker, st *wstate, v ssa.Value) *absVal {
				if call, ok := v.(*ssa.Call); ok {
					n, _ := calleeOf(call)
					switch {
					case isWaitStatusMethod(n, "Exited"), isWaitStatusMethod(n, "Signaled"):
						return avBool(false)
					case isWaitStatusMethod(n, "Stopped"):
						return avBool(true)
					case isWaitStatusMethod(n, "StopSignal"):
						return avInt(sv)
					}
					if strings.HasSuffix(n, "setPtraceOption") || strings.HasSuffix(n, ".PtraceSetOptions") {
						return &absVal{k: avNil}
					}
				}
				return nil
			}
			w.OnReturn = func(w *walker, st *wstate, ret *ssa.Return, rs []*absVal) { outs = append(outs, statusName(sc, rs[0])) }
			w.Run()
			good := len(outs) > 0
			for _, o := range outs {
				if o != t.want {
					good = false
				}
			}
			c.Cond(good, "3/usage-verdict", "ptracer."+handle.Name()+":stop("+t.sig+")", p.Pos(handle.Pos()), "signal-delivery stop with "+t.sig+" → "+t.want, fmt.Sprintf("signal-delivery stop with %s yields %v, want %s", t.sig, outs, t.want))
		}
	}
	c.Expect("3/usage-verdict", 30)
}

// checkStrictCompare: usage comparisons are `usage > limit` (strict).
func checkStrictCompare(c *Check, fn *ssa.Function, key string) {
	p := c.P
	n := 0
	for _, b := range fn.Blocks {
		for _, in := range b.Instrs {
			bo, ok := in.(*ssa.BinOp)
			if !ok || !isUsageType(bo.X.Type()) {
				continue
			}
			switch bo.Op {
			case token.GTR, token.LSS, token.GEQ, token.LEQ:
			default:
				continue
			}
			n++
			limOnRight := strings.Contains(describe(bo.Y), "Limit")
			limOnLeft := strings.Contains(describe(bo.X), "Limit")
			ok2 := (bo.Op == token.GTR && limOnRight) || (bo.Op == token.LSS && limOnLeft)
			c.Cond(ok2, "3/usage-verdict", fmt.Sprintf("%s:strict-compare#%d", key, n), p.Pos(bo.Pos()), "usage > bound (strict)", "usage comparison is "+describe(bo)+": a program exactly at its bound would be (mis)classified")
		}
	}
}

func checkPipeCollector(c *Check) {
	p := c.P
	np := p.Func("pkg/pipe", "NewPipe")
	nb := p.Func("pkg/pipe", "NewBuffer")
	if np == nil || nb == nil {
		c.Undecided("4/output-collector", "pkg/pipe", "-", "NewPipe/NewBuffer not found")
		return
	}
	// NewBuffer passes max+1
	okPlus := false
	for _, ci := range callInstrs(nb) {
		if _, callee := calleeOf(ci); callee == np {
			if bo, ok := ci.Common().Args[1].(*ssa.BinOp); ok && bo.Op == token.ADD {
				if one, ok := constInt(bo.Y); ok && one == 1 {
					if _, isParam := bo.X.(*ssa.Parameter); isParam {
						okPlus = true
					}
				}
			}
		}
	}
	c.Cond(okPlus, "4/output-collector", "pkg/pipe.NewBuffer:max+1", p.Pos(nb.Pos()), "collector is capped at max+1 bytes (one extra byte reveals overflow)", "NewBuffer does not pass max+1 to NewPipe")
	// the goroutine
	var body *ssa.Function
	for _, b := range np.Blocks {
		for _, in := range b.Instrs {
			if g, ok := in.(*ssa.Go); ok {
				if f := spawnedFn(&g.Call); f != nil && inModule(f) && len(f.Blocks) > 0 {
					body = f
				}
			}
		}
	}
	if body == nil {
		c.Fail("4/output-collector", "pkg/pipe.NewPipe:goroutine", p.Pos(np.Pos()), "no collector goroutine")
		return
	}
	var copyN, closeDone, drain, closeR ssa.CallInstruction
	hasDeferClose := false
	for _, ci := range callInstrs(body) {
		n, _ := calleeOf(ci)
		_, isDefer := ci.(*ssa.Defer)
		switch {
		case n == "io.CopyN":
			copyN = ci
		case n == "builtin:close":
			closeDone = ci
		case n == "io.Copy":
			if strings.Contains(describe(ci.Common().Args[0]), "Discard") {
				drain = ci
			}
		case strings.HasSuffix(n, "os.File).Close"):
			if isDefer {
				hasDeferClose = true
			}
			closeR = ci
		}
	}
	key := "pkg/pipe.NewPipe$collector"
	pos := p.Pos(body.Pos())
	if copyN == nil || closeDone == nil || drain == nil || closeR == nil {
		c.Fail("4/output-collector", key+":steps", pos, fmt.Sprintf("collector lacks a step (CopyN:%v close(done):%v drain:%v close:%v): after the cap the writer would block or get SIGPIPE", copyN != nil, closeDone != nil, drain != nil, closeR != nil))
		return
	}
	c.OK("4/output-collector", key+":steps", pos, "CopyN, close(done), drain, Close present")
	order := !hasDeferClose && before(copyN, closeDone) && before(closeDone, drain) && before(drain, closeR)
	c.Cond(order, "4/output-collector", key+":order", pos, "CopyN < close(done) < drain to EOF < Close", "collector steps are out of order (the read end must stay open and be drained until EOF)")
	uncond := true
	cd := controlDeps(body)
	for _, ci := range []ssa.CallInstruction{copyN, closeDone, drain, closeR} {
		if len(extraConds(cd, ci.Block())) > 0 {
			uncond = false
		}
	}
	c.Cond(uncond, "4/output-collector", key+":unconditional", pos, "every step is unconditional", "a collector step is conditional")
	// CopyN's limit is the parameter n and its destination the writer parameter
	a := copyN.Common().Args
	nOK := strings.Contains(describe(a[2]), np.Params[1].Name())
	c.Cond(nOK, "4/output-collector", key+":limit", p.Pos(copyN.Pos()), "at most n bytes are retained", "CopyN limit is "+describe(a[2]))
	srcSame := describe(drain.Common().Args[1]) == describe(a[1])
	c.Cond(srcSame, "4/output-collector", key+":drain-source", p.Pos(drain.Pos()), "the drain reads the same pipe", "the drain reads "+describe(drain.Common().Args[1]))
	c.Expect("4/output-collector", 6)
}
