package main

// A small, sound-but-incomplete bound prover used by C15. Open obligations
// are the bounds checks the Go compiler's own prove pass could NOT eliminate
// (listed by -d=ssa/check_bce); each must be discharged by one of the local
// patterns below, otherwise it is reported as unproven. No values are
// computed: the prover reasons about SSA value identities, dominating
// guards, loop shapes and a handful of library/kernel contracts.

import (
	"fmt"
	"go/token"
	"strings"

	"golang.org/x/tools/go/ssa"
)

type bprover struct {
	p       *Prog
	S       map[*ssa.Function]bool
	assume  map[string]bool
	visitPh map[*ssa.Phi]bool
	why     []string
}

func newBProver(p *Prog, S map[*ssa.Function]bool) *bprover {
	return &bprover{p: p, S: S, assume: map[string]bool{}, visitPh: map[*ssa.Phi]bool{}}
}

func (bp *bprover) note(s string) { bp.why = append(bp.why, s) }

// sameVal: two values denote the same runtime value (identical SSA value, or
// loads of the same never-rewritten global, or len() of the same value).
func (bp *bprover) sameVal(a, b ssa.Value) bool {
	a, b = stripConv(a), stripConv(b)
	if a == b {
		return true
	}
	ua, ok1 := a.(*ssa.UnOp)
	ub, ok2 := b.(*ssa.UnOp)
	if ok1 && ok2 && ua.Op == token.MUL && ub.Op == token.MUL {
		ga, okA := ua.X.(*ssa.Global)
		gb, okB := ub.X.(*ssa.Global)
		if okA && okB && ga == gb && len(storesToGlobal(bp.p, ga)) == 0 {
			return true
		}
	}
	ca, ok1 := a.(*ssa.Call)
	cb, ok2 := b.(*ssa.Call)
	if ok1 && ok2 {
		ba, okA := ca.Call.Value.(*ssa.Builtin)
		bb, okB := cb.Call.Value.(*ssa.Builtin)
		if okA && okB && ba.Name() == "len" && bb.Name() == "len" {
			return bp.sameVal(ca.Call.Args[0], cb.Call.Args[0])
		}
	}
	return false
}

func isLenOf(v ssa.Value) (ssa.Value, bool) {
	v = stripConv(v)
	if c, ok := v.(*ssa.Call); ok {
		if b, ok := c.Call.Value.(*ssa.Builtin); ok && b.Name() == "len" {
			return c.Call.Args[0], true
		}
	}
	return nil, false
}

// domTrueEdge: some If whose condition satisfies pred has its taken (true or false per `want`) successor dominating `at`.
func domEdge(fn *ssa.Function, at *ssa.BasicBlock, pred func(cond ssa.Value) (matches bool, onTrue bool)) bool {
	for _, b := range fn.Blocks {
		iff := blockIf(b)
		if iff == nil {
			continue
		}
		m, onTrue := pred(iff.Cond)
		if !m {
			continue
		}
		k := 1
		if onTrue {
			k = 0
		}
		s := b.Succs[k]
		// the successor must be reached only through this edge
		if len(s.Preds) == 1 && (s == at || s.Dominates(at)) {
			return true
		}
	}
	return false
}

// lb: proven lower bound of integer value v when used in block `at`.
func (bp *bprover) lb(v ssa.Value, at *ssa.BasicBlock, d int) (int64, bool) {
	if d > 10 || v == nil {
		return 0, false
	}
	if c, ok := constInt(v); ok {
		return c, true
	}
	best, have := int64(0), false
	upd := func(x int64) {
		if !have || x > best {
			best, have = x, true
		}
	}
	// unsigned source
	if cv, ok := v.(*ssa.Convert); ok {
		if isUnsignedT(cv.X.Type()) {
			upd(0)
		}
		if x, ok := bp.lb(cv.X, at, d+1); ok {
			upd(x)
		}
	}
	if isUnsignedT(v.Type()) {
		upd(0)
	}
	switch x := v.(type) {
	case *ssa.ChangeType:
		if y, ok := bp.lb(x.X, at, d+1); ok {
			upd(y)
		}
	case *ssa.Call:
		if arg, ok := isLenOf(x); ok {
			upd(0)
			if k, ok := bp.lenLB(arg, at, d+1); ok {
				upd(k)
			}
		}
		if bi, ok := x.Call.Value.(*ssa.Builtin); ok && (bi.Name() == "min" || bi.Name() == "max") && len(x.Call.Args) > 0 {
			// min: the least of the arguments' lower bounds (all needed); max: the greatest of those known
			lo, all, hi, any := int64(0), true, int64(0), false
			for i, a := range x.Call.Args {
				if k, ok := bp.lb(a, at, d+1); ok {
					if i == 0 || k < lo {
						lo = k
					}
					if !any || k > hi {
						hi, any = k, true
					}
				} else {
					all = false
				}
			}
			if bi.Name() == "min" && all {
				upd(lo)
			}
			if bi.Name() == "max" && any {
				upd(hi)
			}
		}
		// summary functions returning a bounded index
		if _, callee := calleeOf(x); callee != nil && inModule(callee) && len(x.Call.Args) == 1 {
			if bp.summaryIndexOfArg(callee) {
				upd(0)
			}
		}
	case *ssa.Extract:
		if call, ok := x.Tuple.(*ssa.Call); ok && x.Index == 0 {
			if _, callee := calleeOf(call); callee != nil && bp.isReadLike(callee) {
				upd(0) // byte count of a successful read
			}
		}
	case *ssa.UnOp:
		if x.Op == token.MUL {
			if g, ok := x.X.(*ssa.Global); ok && bp.globalIsPageSize(g) {
				upd(1)
			}
		}
	case *ssa.BinOp:
		switch x.Op {
		case token.ADD:
			a, ok1 := bp.lb(x.X, at, d+1)
			b, ok2 := bp.lb(x.Y, at, d+1)
			if ok1 && ok2 {
				upd(a + b)
			}
		case token.REM:
			if m, ok := bp.lb(x.Y, at, d+1); ok && m >= 1 {
				if a, ok := bp.lb(x.X, at, d+1); ok && a >= 0 {
					upd(0)
				}
			}
		case token.SUB:
			// m − (a % m) ≥ 1 for m ≥ 1, a ≥ 0
			if rem, ok := stripConv(x.Y).(*ssa.BinOp); ok && rem.Op == token.REM && bp.sameVal(x.X, rem.Y) {
				if m, ok := bp.lb(x.X, at, d+1); ok && m >= 1 {
					if a, ok := bp.lb(rem.X, at, d+1); ok && a >= 0 {
						upd(1)
					}
				}
			}
			if cb, ok := constInt(x.Y); ok {
				if a, ok := bp.lb(x.X, at, d+1); ok {
					upd(a - cb)
				}
			}
		}
	case *ssa.Phi:
		if bp.visitPh[x] {
			return 0, false
		}
		bp.visitPh[x] = true
		defer delete(bp.visitPh, x)
		all := true
		min := int64(1) << 60
		for i, e := range x.Edges {
			// induction: i = φ(c, i + k) with k ≥ 0 keeps the bound of the other edges
			if bo, ok := stripConv(e).(*ssa.BinOp); ok && bo.Op == token.ADD && stripConv(bo.X) == ssa.Value(x) {
				if k, ok := bp.lb(bo.Y, x.Block().Preds[i], d+1); ok && k >= 0 {
					continue
				}
			}
			y, ok := bp.lb(e, x.Block().Preds[i], d+1)
			if !ok {
				all = false
				break
			}
			if y < min {
				min = y
			}
		}
		if all && min < int64(1)<<60 {
			upd(min)
		}
	}
	// a dominating guard v >= c / v > c / v != 0 (with v ≥ 0)
	fn := at.Parent()
	if domEdge(fn, at, func(cond ssa.Value) (bool, bool) {
		bo, ok := cond.(*ssa.BinOp)
		if !ok || !bp.sameVal(bo.X, v) {
			return false, false
		}
		c, isC := constInt(bo.Y)
		switch {
		case bo.Op == token.GEQ && isC && c >= 0:
			return true, true
		case bo.Op == token.GTR && isC && c >= -1:
			return true, true
		case bo.Op == token.LSS && isC && c <= 0:
			return true, false
		}
		return false, false
	}) {
		upd(0)
	}
	return best, have
}

func isUnsignedT(t interface{ String() string }) bool {
	s := t.String()
	return s == "uintptr" || s == "uint" || s == "uint64" || s == "uint32" || s == "uint16" || s == "uint8" || s == "byte"
}

// globalIsPageSize: an int package variable whose only writer is init storing os.Getpagesize(), and whose declared initial value is positive.
func (bp *bprover) globalIsPageSize(g *ssa.Global) bool {
	if len(storesToGlobal(bp.p, g)) != 0 {
		return false
	}
	okInit := false
	for _, m := range g.Pkg.Members {
		f, ok := m.(*ssa.Function)
		if !ok || !strings.HasPrefix(f.Name(), "init") {
			continue
		}
		for _, fn := range withClosures(f) {
			for _, b := range fn.Blocks {
				for _, in := range b.Instrs {
					if st, ok := in.(*ssa.Store); ok && st.Addr == ssa.Value(g) {
						if c, ok := constInt(st.Val); ok {
							if c < 1 {
								return false
							}
							continue
						}
						if call, ok := st.Val.(*ssa.Call); ok {
							if n, _ := calleeOf(call); n == "os.Getpagesize" {
								okInit = true
								continue
							}
						}
						return false
					}
				}
			}
		}
	}
	if okInit {
		bp.assume["os.Getpagesize() > 0"] = true
	}
	return okInit
}

// isReadLike: the function's first result is the byte count of process_vm_readv into its slice parameter (kernel contract: 0 ≤ n ≤ len on success).
func (bp *bprover) isReadLike(fn *ssa.Function) bool {
	if !inModule(fn) || fn.Signature.Results().Len() != 2 {
		return false
	}
	nr := bp.p.Unix("SYS_PROCESS_VM_READV")
	ok := reachesCall(fn, 2, func(ci ssa.CallInstruction) bool {
		n, _ := calleeOf(ci)
		if n == "syscall.Syscall6" {
			v, isC := constInt(ci.Common().Args[0])
			return isC && v == nr
		}
		return false
	})
	if ok {
		bp.assume["process_vm_readv returns 0 ≤ n ≤ total iovec length on success"] = true
	}
	return ok
}

// readLikeSliceArg returns the slice parameter index of a read-like function.
func readLikeSliceArg(fn *ssa.Function) int {
	for i, pr := range fn.Params {
		if pr.Type().String() == "[]byte" {
			return i
		}
	}
	return -1
}

// summaryIndexOfArg: every return value r of fn satisfies 0 ≤ r ≤ len(param0).
func (bp *bprover) summaryIndexOfArg(fn *ssa.Function) bool {
	if len(fn.Params) != 1 || fn.Signature.Results().Len() != 1 || fn.Signature.Results().At(0).Type().String() != "int" {
		return false
	}
	par := fn.Params[0]
	nRet := 0
	for _, b := range fn.Blocks {
		ret, ok := b.Instrs[len(b.Instrs)-1].(*ssa.Return)
		if !ok {
			continue
		}
		nRet++
		r := ret.Results[0]
		if arg, ok := isLenOf(r); ok && stripConv(arg) == ssa.Value(par) {
			continue
		}
		// the result of a library search over the parameter, returned only where it was found (≥ 0): an index < len
		if call, ok := stripConv(r).(*ssa.Call); ok {
			n, _ := calleeOf(call)
			if (n == "bytes.IndexByte" || n == "strings.IndexByte" || n == "bytes.Index" || n == "strings.Index") && len(call.Call.Args) >= 1 && stripConv(call.Call.Args[0]) == ssa.Value(par) {
				found := domEdge(fn, b, func(cond ssa.Value) (bool, bool) {
					cb, ok := cond.(*ssa.BinOp)
					if !ok || stripConv(cb.X) != ssa.Value(call) {
						return false, false
					}
					k, isC := constInt(cb.Y)
					if !isC {
						return false, false
					}
					switch {
					case cb.Op == token.GEQ && k == 0, cb.Op == token.GTR && k == -1, cb.Op == token.NEQ && k == -1:
						return true, true
					case cb.Op == token.LSS && k == 0, cb.Op == token.LEQ && k == -1, cb.Op == token.EQL && k == -1:
						return true, false
					}
					return false, false
				})
				if found {
					bp.assume[n+" returns an index < len(s) or -1"] = true
					continue
				}
			}
			return false
		}
		// range loop: the index is i = φ(-1, i)+1, returned under the guard i < len(par)
		if bo, ok := stripConv(r).(*ssa.BinOp); ok && bo.Op == token.ADD {
			if rph, ok := stripConv(bo.X).(*ssa.Phi); ok {
				one, isOne := constInt(bo.Y)
				start, back := false, false
				for _, e := range rph.Edges {
					if c, ok := constInt(e); ok && c == -1 {
						start = true
					} else if stripConv(e) == ssa.Value(bo) {
						back = true
					} else {
						start, back = false, false
						break
					}
				}
				guarded := domEdge(fn, b, func(cond ssa.Value) (bool, bool) {
					cb, ok := cond.(*ssa.BinOp)
					if !ok || cb.Op != token.LSS || stripConv(cb.X) != ssa.Value(bo) {
						return false, false
					}
					arg, ok := isLenOf(cb.Y)
					return ok && stripConv(arg) == ssa.Value(par), true
				})
				if isOne && one == 1 && start && back && guarded {
					continue
				}
			}
			return false
		}
		// loop index: φ(0, φ+1) returned under the guard φ < len(par)
		ph, ok := stripConv(r).(*ssa.Phi)
		if !ok {
			return false
		}
		zero, inc := false, false
		for _, e := range ph.Edges {
			if c, ok := constInt(e); ok && c == 0 {
				zero = true
			}
			if bo, ok := stripConv(e).(*ssa.BinOp); ok && bo.Op == token.ADD && stripConv(bo.X) == ssa.Value(ph) {
				if one, ok := constInt(bo.Y); ok && one == 1 {
					inc = true
				}
			}
		}
		guarded := domEdge(fn, b, func(cond ssa.Value) (bool, bool) {
			bo, ok := cond.(*ssa.BinOp)
			if !ok || bo.Op != token.LSS || stripConv(bo.X) != ssa.Value(ph) {
				return false, false
			}
			arg, ok := isLenOf(bo.Y)
			return ok && stripConv(arg) == ssa.Value(par), true
		})
		if !(zero && inc && guarded) {
			return false
		}
	}
	return nRet > 0
}

// lenLB: proven lower bound of len(x) at block `at`.
func (bp *bprover) lenLB(x ssa.Value, at *ssa.BasicBlock, d int) (int64, bool) {
	if d > 10 {
		return 0, true
	}
	x = stripConv(x)
	best := int64(0)
	upd := func(k int64) {
		if k > best {
			best = k
		}
	}
	switch v := x.(type) {
	case *ssa.Slice:
		if a, ok := v.X.(*ssa.Alloc); ok && v.Low == nil && v.High == nil {
			if arr, ok := derefType(a.Type()).Underlying().(interface{ Len() int64 }); ok {
				upd(arr.Len())
			}
		}
		if v.Low == nil && v.High != nil {
			if h, ok := bp.lb(v.High, v.Block(), d+1); ok && bp.leLen(v.High, v.X, v.Block(), d+1) {
				upd(h)
			}
		}
	case *ssa.MakeSlice:
		if k, ok := constInt(v.Len); ok {
			upd(k)
		}
	case *ssa.Call:
		if _, callee := calleeOf(v); callee != nil && inModule(callee) {
			// every return is a literal of constant length
			min := int64(1) << 60
			for _, b := range callee.Blocks {
				if ret, ok := b.Instrs[len(b.Instrs)-1].(*ssa.Return); ok {
					k, _ := bp.lenLB(ret.Results[0], b, d+1)
					if k < min {
						min = k
					}
				}
			}
			if min < int64(1)<<60 {
				upd(min)
			}
		}
	case *ssa.Parameter:
		// all callers inside the analysed scope
		fn := v.Parent()
		idx := -1
		for i, q := range fn.Params {
			if q == v {
				idx = i
			}
		}
		min := int64(1) << 60
		n := 0
		for g := range bp.S {
			for _, ci := range callInstrs(g) {
				if _, callee := calleeOf(ci); callee == fn && idx < len(ci.Common().Args) {
					n++
					k, _ := bp.lenLB(ci.Common().Args[idx], ci.Block(), d+1)
					if k < min {
						min = k
					}
				}
			}
		}
		if n > 0 && min < int64(1)<<60 {
			upd(min)
		}
	case *ssa.Phi:
		if !bp.visitPh[v] {
			bp.visitPh[v] = true
			min := int64(1) << 60
			for i, e := range v.Edges {
				k, _ := bp.lenLB(e, v.Block().Preds[i], d+1)
				if k < min {
					min = k
				}
			}
			delete(bp.visitPh, v)
			if min < int64(1)<<60 {
				upd(min)
			}
		}
	}
	// dominating guard len(x) > 0
	if domEdge(at.Parent(), at, func(cond ssa.Value) (bool, bool) {
		bo, ok := cond.(*ssa.BinOp)
		if !ok {
			return false, false
		}
		arg, isLen := isLenOf(bo.X)
		if !isLen || !bp.sameVal(arg, x) {
			return false, false
		}
		c, isC := constInt(bo.Y)
		switch {
		case bo.Op == token.GTR && isC && c >= 0:
			return true, true
		case bo.Op == token.NEQ && isC && c == 0:
			return true, true
		case bo.Op == token.EQL && isC && c == 0:
			return true, false
		}
		return false, false
	}) {
		upd(1)
	}
	return best, true
}

// leLen: h ≤ len(x) at block `at`.
func (bp *bprover) leLen(h, x ssa.Value, at *ssa.BasicBlock, d int) bool {
	if d > 10 {
		return false
	}
	h0 := stripConv(h)
	x = stripConv(x)
	if c, ok := constInt(h0); ok {
		k, _ := bp.lenLB(x, at, d+1)
		return c <= k
	}
	if arg, ok := isLenOf(h0); ok && bp.sameVal(arg, x) {
		return true
	}
	switch v := h0.(type) {
	case *ssa.Phi:
		if bp.visitPh[v] {
			return false
		}
		bp.visitPh[v] = true
		defer delete(bp.visitPh, v)
		for i, e := range v.Edges {
			pred := v.Block().Preds[i]
			if bp.leLen(e, x, pred, d+1) {
				continue
			}
			// clamp: the edge leaves an If `len(x) < e` on its false side (possibly through an empty block)
			if bp.edgeImpliesLe(pred, v.Block(), e, x) {
				continue
			}
			return false
		}
		return true
	case *ssa.Extract:
		if call, ok := v.Tuple.(*ssa.Call); ok && v.Index == 0 {
			if _, callee := calleeOf(call); callee != nil && bp.isReadLike(callee) {
				i := readLikeSliceArg(callee)
				if i >= 0 && i < len(call.Call.Args) {
					s := stripConv(call.Call.Args[i])
					// n ≤ len(s); need len(s) ≤ len(x)
					if bp.sameVal(s, x) {
						return bp.onSuccessEdge(call, at)
					}
					if sl, ok := s.(*ssa.Slice); ok && sl.Low == nil && sl.High != nil && bp.sameVal(sl.X, x) && bp.leLen(sl.High, x, sl.Block(), d+1) {
						return bp.onSuccessEdge(call, at)
					}
				}
			}
		}
	case *ssa.Call:
		if bi, ok := v.Call.Value.(*ssa.Builtin); ok && (bi.Name() == "min" || bi.Name() == "max") {
			// min(…) ≤ len(x) if one argument is; max(…) ≤ len(x) if all are
			any, all := false, len(v.Call.Args) > 0
			for _, a := range v.Call.Args {
				if bp.leLen(a, x, at, d+1) {
					any = true
				} else {
					all = false
				}
			}
			if bi.Name() == "min" {
				return any
			}
			return all
		}
		if _, callee := calleeOf(v); callee != nil && inModule(callee) && len(v.Call.Args) == 1 && bp.sameVal(v.Call.Args[0], x) && bp.summaryIndexOfArg(callee) {
			return true
		}
		if n, _ := calleeOf(v); (n == "strings.LastIndex" || n == "strings.Index" || n == "strings.LastIndexByte" || n == "strings.IndexByte" || n == "bytes.IndexByte") && bp.sameVal(v.Call.Args[0], x) {
			bp.assume[n+" returns an index < len(s) or -1"] = true
			return true
		}
	}
	return false
}

// edgeImpliesLe: on the CFG edge pred→to, e ≤ len(x) holds because the edge is the false side of `len(x) < e` (or the true side of `e <= len(x)`).
func (bp *bprover) edgeImpliesLe(pred, to *ssa.BasicBlock, e, x ssa.Value) bool {
	iff := blockIf(pred)
	if iff == nil {
		return false
	}
	bo, ok := iff.Cond.(*ssa.BinOp)
	if !ok {
		return false
	}
	k := -1
	for i, s := range pred.Succs {
		if s == to {
			k = i
		}
	}
	if k < 0 {
		return false
	}
	lx, isLenX := isLenOf(bo.X)
	ly, isLenY := isLenOf(bo.Y)
	switch {
	case bo.Op == token.LSS && isLenX && bp.sameVal(lx, x) && bp.sameVal(bo.Y, e):
		return k == 1
	case bo.Op == token.GTR && isLenY && bp.sameVal(ly, x) && bp.sameVal(bo.X, e):
		return k == 1
	case bo.Op == token.LEQ && isLenY && bp.sameVal(ly, x) && bp.sameVal(bo.X, e):
		return k == 0
	case bo.Op == token.GEQ && isLenX && bp.sameVal(lx, x) && bp.sameVal(bo.Y, e):
		return k == 0
	}
	return false
}

// onSuccessEdge: `at` is dominated by the err == nil side of the call's error test.
func (bp *bprover) onSuccessEdge(call *ssa.Call, at *ssa.BasicBlock) bool {
	roots := map[ssa.Value]bool{call: true}
	return domEdge(at.Parent(), at, func(cond ssa.Value) (bool, bool) {
		bo, ok := cond.(*ssa.BinOp)
		if !ok || !isNilConst(bo.Y) || bo.X.Type().String() != "error" || !dependsOn(bo.X, roots, 0) {
			return false, false
		}
		return true, bo.Op == token.EQL
	})
}

// proveInstr discharges the bounds obligation of one Slice / IndexAddr / Index instruction.
func (bp *bprover) proveInstr(in ssa.Instruction) (bool, string) {
	at := in.Block()
	switch x := in.(type) {
	case *ssa.Slice:
		if x.Max != nil {
			return false, "three-index slice"
		}
		ok := true
		var parts []string
		if x.High != nil {
			l, okL := bp.lb(x.High, at, 0)
			le := bp.leLen(x.High, x.X, at, 0)
			parts = append(parts, fmt.Sprintf("high=%s: ≥0 %v, ≤len %v", describe(x.High), okL && l >= 0, le))
			ok = ok && okL && l >= 0 && le
		}
		if x.Low != nil {
			l, okL := bp.lb(x.Low, at, 0)
			le := bp.leLen(x.Low, x.X, at, 0)
			if x.High != nil {
				// low ≤ high not handled
				le = false
			}
			parts = append(parts, fmt.Sprintf("low=%s: ≥0 %v, ≤len %v", describe(x.Low), okL && l >= 0, le))
			ok = ok && okL && l >= 0 && le
		}
		return ok, strings.Join(parts, "; ")
	case *ssa.IndexAddr:
		return bp.proveIndex(x.X, x.Index, at)
	case *ssa.Index:
		return bp.proveIndex(x.X, x.Index, at)
	}
	return false, "unsupported instruction"
}

func (bp *bprover) proveIndex(x, idx ssa.Value, at *ssa.BasicBlock) (bool, string) {
	if c, ok := constInt(idx); ok {
		k, _ := bp.lenLB(x, at, 0)
		return c >= 0 && k >= c+1, fmt.Sprintf("index %d, len ≥ %d", c, k)
	}
	l, okL := bp.lb(idx, at, 0)
	lt := domEdge(at.Parent(), at, func(cond ssa.Value) (bool, bool) {
		bo, ok := cond.(*ssa.BinOp)
		if !ok || bo.Op != token.LSS || !bp.sameVal(bo.X, idx) {
			return false, false
		}
		arg, isLen := isLenOf(bo.Y)
		return isLen && bp.sameVal(arg, x), true
	})
	return okL && l >= 0 && lt, fmt.Sprintf("index %s: ≥0 %v, <len guard %v", describe(idx), okL && l >= 0, lt)
}
