package main

// E2 — protocol analyser for the container RPC. Both endpoints are explored
// with the interprocedural spec walker; every send / receive on the
// transport becomes a transition of a communicating finite-state machine
// (one per endpoint); the pair is then checked for compatibility by an
// exhaustive reachability computation over the product with one FIFO queue
// per direction. The automata are extracted from the SSA of the current
// tree on every run; no program code is executed.

import (
	"fmt"
	"go/token"
	"go/types"
	"sort"
	"strings"

	"golang.org/x/tools/go/ssa"
)

type cfsmTrans struct {
	kind string // "!" send, "?" receive, "t" internal
	msg  string // message kind ("*" = any, for receives)
	to   int
	pos  string
	note string
}

type cfsm struct {
	byKey  map[string]int
	name   string
	nodes  []string // node labels
	trans  map[int][]cfsmTrans
	idle   int
	exit   map[int]string // node -> reason
	retn   map[int]bool   // host: method returned (back to idle)
	method map[int]string // root node of a host method -> name
}

func newCFSM(name string) *cfsm {
	m := &cfsm{name: name, trans: map[int][]cfsmTrans{}, exit: map[int]string{}, retn: map[int]bool{}, method: map[int]string{}}
	m.idle = m.add("idle")
	return m
}

func (m *cfsm) add(label string) int {
	m.nodes = append(m.nodes, label)
	return len(m.nodes) - 1
}

// named returns the unique node with this label.
func (m *cfsm) named(label string) int {
	if m.byKey == nil {
		m.byKey = map[string]int{}
	}
	if n, ok := m.byKey["#"+label]; ok {
		return n
	}
	n := m.add(label)
	m.byKey["#"+label] = n
	return n
}

// at returns the node for (label, abstract state): identical states share a node.
func (m *cfsm) at(label string, x *xwalker, st *xstate) int {
	if m.byKey == nil {
		m.byKey = map[string]int{}
	}
	k := label + "|" + x.FramesKey(st) + "|" + Fingerprint(st)
	if n, ok := m.byKey[k]; ok {
		return n
	}
	n := m.add(label)
	m.byKey[k] = n
	return n
}

func (m *cfsm) edge(from int, t cfsmTrans) {
	for _, e := range m.trans[from] {
		if e == t {
			return
		}
	}
	m.trans[from] = append(m.trans[from], t)
}

type e2 struct {
	repeated map[string]bool
	p        *Prog
	host     *cfsm
	cont     *cfsm
	cmdName  map[int64]string
	problems []string
	hostFns  map[string]*ssa.Function
	contFns  map[string]*ssa.Function
}

func cur(st *xstate) int { n, _ := st.user["node"].(int); return n }

// ---------- container ----------

func (e *e2) replyKind(x *xwalker, st *xstate, rep, msg *absVal) string {
	has := func(v *absVal, f string) (bool, bool) { // (non-nil, known)
		if v == nil || v.k != avStruct {
			return false, false
		}
		fv := v.fields[f]
		if fv == nil {
			return false, false
		}
		switch fv.k {
		case avNil:
			return false, true
		case avPtr:
			return true, true
		}
		return false, false
	}
	errSet, k1 := has(rep, "Error")
	exec, k2 := has(rep, "ExecReply")
	cred, k3 := has(msg, "Cred")
	if !k1 || !k2 {
		return "?unknown-reply:" + rep.String()
	}
	switch {
	case errSet:
		return "err"
	case exec:
		return "result"
	case k3 && cred:
		return "sync"
	}
	if rep.fields["BatchErrors"] != nil && rep.fields["BatchErrors"].k != avNil {
		return "batch"
	}
	return "ack"
}

func (e *e2) buildContainer() {
	p := e.p
	m := newCFSM("container")
	e.cont = m
	hc := p.Func("container", "containerServer.handleCmd")
	if hc == nil {
		e.problems = append(e.problems, "containerServer.handleCmd not found")
		return
	}
	sendFiles := p.Func("container", "containerServer.sendReplyFiles")
	recvCmd := p.Func("container", "containerServer.recvCmd")
	start := "(" + repoModule + "/pkg/forkexec.Runner).Start"
	kinds := e.kindsSorted()
	for _, kv := range kinds {
		kname := e.cmdName[kv]
		root := m.add("handle(" + kname + ")")
		m.edge(m.idle, cfsmTrans{kind: "?", msg: kname, to: root, pos: p.Pos(hc.Pos())})
		x := newXWalker(nil)
		x.Memo = map[string]bool{}
		x.Repeated = e.repeated
		x.Call = func(x *xwalker, st *xstate, call *ssa.Call) ([]xoutcome, bool) {
			n, callee := calleeOf(call)
			pos := p.Pos(call.Pos())
			switch {
			case callee == sendFiles:
				rep, msg := x.eval(st, call.Call.Args[1]), x.eval(st, call.Call.Args[2])
				kind := e.replyKind(x, st, rep, msg)
				return []xoutcome{{result: &absVal{k: avNil}, apply: func(s *xstate) {
					nn := m.at("after !"+kind, x, s)
					m.edge(cur(s), cfsmTrans{kind: "!", msg: kind, to: nn, pos: pos})
					s.user["node"] = nn
				}}}, true
			case callee == recvCmd:
				var outs []xoutcome
				for _, kv2 := range kinds {
					k2 := e.cmdName[kv2]
					kv2 := kv2
					outs = append(outs, xoutcome{
						result: tupleOf(symStruct(recvCmd.Signature.Results().At(0).Type(), map[string]*absVal{"Cmd": avInt(kv2)}), avTag("msg"), &absVal{k: avNil}),
						apply: func(s *xstate) {
							nn := m.at("after ?"+k2, x, s)
							m.edge(cur(s), cfsmTrans{kind: "?", msg: k2, to: nn, pos: pos})
							s.user["node"] = nn
						}})
				}
				return outs, true
			case n == start:
				return e.startSummary(x, st, call), true
			case callee != nil && inModule(callee) && callee.Pkg != nil && callee.Pkg.Pkg.Path() == repoModule+"/container" && callee.Blocks != nil:
				if e.communicates(callee) || callee.Name() == "convertReply" {
					return x.inlineStatic(st, call, callee), true
				}
			}
			return nil, false
		}
		x.Select = func(x *xwalker, st *xstate, sel *ssa.Select) []xoutcome {
			var outs []xoutcome
			nrecv := 0

			for k, s := range sel.States {
				ch := describe(s.Chan)
				k := k
				fields := map[string]*absVal{"0": avInt(int64(k)), "1": avBool(true)}
				for j := 0; j < 8; j++ {
					fields[fmt.Sprint(2+j)] = avTag("recv")
				}
				switch {
				case strings.HasSuffix(ch, ".done"):
					// transport alive in the product
				case strings.HasSuffix(ch, ".recvCh"):
					pos := p.Pos(sel.Pos())
					outs = append(outs, xoutcome{result: &absVal{k: avStruct, fields: fields}, apply: func(s *xstate) {
						nn := m.at("after ?*", x, s)
						m.edge(cur(s), cfsmTrans{kind: "?", msg: "*", to: nn, pos: pos})
						s.user["node"] = nn
					}})
				default:
					pos := p.Pos(sel.Pos())
					lbl := shortChans([]string{ch})[0]
					outs = append(outs, xoutcome{result: &absVal{k: avStruct, fields: fields}, apply: func(s *xstate) {
						nn := m.at("after "+lbl, x, s)
						m.edge(cur(s), cfsmTrans{kind: "t", msg: lbl, to: nn, pos: pos})
						s.user["node"] = nn
					}})
				}
				if s.Dir == 2 { // recv
					nrecv++
				}
			}
			return outs
		}
		x.OnReturn = func(x *xwalker, st *xstate, rs []*absVal) {
			if rs[0].k == avNil {
				m.edge(cur(st), cfsmTrans{kind: "t", msg: "handler-done", to: m.idle})
				return
			}
			reason := "error:" + rs[0].String()
			if kname == "conf" {
				reason = "conf-failed"
			}
			if s := rs[0].String(); strings.Contains(s, "unknown command") || strings.Contains(s, "fmt.Errorf") {
				reason = "unknown-command"
			}
			nn := m.named("EXIT(" + reason + ")")
			m.exit[nn] = reason
			m.edge(cur(st), cfsmTrans{kind: "t", msg: "exit", to: nn})
		}
		params := map[*ssa.Parameter]*absVal{}
		// handleCmd(c, cmd, msg): cmd struct with Cmd = kv, other fields symbolic-but-present
		params[hc.Params[1]] = symStruct(hc.Params[1].Type(), map[string]*absVal{"Cmd": avInt(kv)})
		x.Run(hc, params, map[string]any{"node": root})
		if x.Truncated {
			e.problems = append(e.problems, "container exploration truncated for "+kname)
		}
	}
}

// communicates: fn (transitively, within package container) reaches a transport primitive or a select on the receive channel.
func (e *e2) communicates(fn *ssa.Function) bool {
	return reachesCall(fn, 4, func(ci ssa.CallInstruction) bool {
		_, callee := calleeOf(ci)
		if callee == nil {
			return false
		}
		n := callee.Name()
		return n == "sendReplyFiles" || n == "recvCmd" || n == "sendCmd" || n == "recvReply"
	}) || hasRecvSelect(fn)
}

func hasRecvSelect(fn *ssa.Function) bool {
	for _, f := range withClosures(fn) {
		for _, op := range chanOpsOf(f) {
			if op.kind == "select" && hasSuffixAny(op.chans, ".recvCh") {
				return true
			}
		}
	}
	return false
}

// startSummary: the E1 summary of (*forkexec.Runner).Start as seen by the protocol:
// Start = err | S·err (callback failed) | S·(pid,nil) | S·err (exec failed after the callback returned nil), S = one call of SyncFunc.
func (e *e2) startSummary(x *xwalker, st *xstate, call *ssa.Call) []xoutcome {
	okRes := tupleOf(avTag("pid"), &absVal{k: avNil})
	errRes := tupleOf(avInt(0), &absVal{k: avPtr, key: "X:err:start"})
	// the SyncFunc stored in the Runner literal
	var sf *absVal
	recv := x.eval(st, call.Call.Args[0])
	if recv.k == avPtr {
		sf = st.mem[recv.key+".SyncFunc"]
	}
	outs := []xoutcome{{result: errRes}} // fails before the callback
	if sf == nil || sf.k == avNil {
		outs = append(outs, xoutcome{result: okRes})
		return outs
	}
	if sf.k == avSym && sf.sym != nil {
		if mc, ok := sf.sym.(*ssa.MakeClosure); ok {
			fn := mc.Fn.(*ssa.Function)
			bind := map[ssa.Value]*absVal{}
			for i, fv := range fn.FreeVars {
				bind[fv] = x.eval(st, mc.Bindings[i])
			}
			outs = append(outs, xoutcome{inline: fn, args: []*absVal{avTag("pid")}, bind: bind, then: func(s *xstate, ret *absVal) []xoutcome {

				if ret.k == avNil {
					return []xoutcome{{result: okRes}, {result: errRes}} // exec may still fail after the callback approved
				}
				return []xoutcome{{result: errRes}}
			}})
			return outs
		}
	}
	e.problems = append(e.problems, "cannot resolve the SyncFunc stored in the Runner literal of handleExecve: "+sf.String())
	return outs
}

func (e *e2) kindsSorted() []int64 {
	var ks []int64
	for k := range e.cmdName {
		ks = append(ks, k)
	}
	sort.Slice(ks, func(i, j int) bool { return ks[i] < ks[j] })
	return ks
}

// ---------- host ----------

func (e *e2) buildHost() {
	p := e.p
	m := newCFSM("host")
	e.host = m
	sendCmd := p.Func("container", "container.sendCmd")
	recvReply := p.Func("container", "container.recvReply")
	replyKinds := []string{"ack", "err", "sync", "result", "batch"}
	mkReply := func(kind string) (*absVal, *absVal) {
		rep := &absVal{k: avStruct, fields: map[string]*absVal{"Error": {k: avNil}, "ExecReply": {k: avNil}, "BatchErrors": {k: avNil}}}
		msg := &absVal{k: avStruct, fields: map[string]*absVal{"Cred": {k: avNil}, "Fds": avTag("fds")}}
		switch kind {
		case "err":
			rep.fields["Error"] = &absVal{k: avPtr, key: "X:errorReply"}
		case "result":
			rep.fields["ExecReply"] = &absVal{k: avPtr, key: "X:execReply"}
		case "sync":
			msg.fields["Cred"] = &absVal{k: avPtr, key: "X:cred"}
		case "batch":
			rep.fields["BatchErrors"] = avTag("batch-errors")
		}
		return rep, msg
	}
	for _, mn := range []string{"Ping", "conf", "Open", "Symlink", "Delete", "Reset", "Execve"} {
		fn := p.Func("container", "container."+mn)
		if fn == nil {
			e.problems = append(e.problems, "host method "+mn+" not found")
			continue
		}
		root := m.add("call " + mn)
		m.method[root] = mn
		m.edge(m.idle, cfsmTrans{kind: "t", msg: "call " + mn, to: root, pos: p.Pos(fn.Pos())})
		x := newXWalker(func(w *walker, st *wstate, v ssa.Value) *absVal {
			// param.SyncFunc != nil etc. stay symbolic (fork)
			return nil
		})
		x.Memo = map[string]bool{}
		x.Repeated = e.repeated
		x.Call = func(x *xwalker, st *xstate, call *ssa.Call) ([]xoutcome, bool) {
			n, callee := calleeOf(call)
			pos := p.Pos(call.Pos())
			switch {
			case callee == sendCmd:
				cv := x.eval(st, call.Call.Args[1])
				kind := "?unknown-cmd"
				if cv.k == avStruct {
					if i, ok := cv.fields["Cmd"].Int(); ok {
						kind = e.cmdName[i]
					}
				}
				return []xoutcome{{result: &absVal{k: avNil}, apply: func(s *xstate) {
					nn := m.at("after !"+kind, x, s)
					m.edge(cur(s), cfsmTrans{kind: "!", msg: kind, to: nn, pos: pos})
					s.user["node"] = nn
				}}}, true
			case callee == recvReply:
				var outs []xoutcome
				for _, k := range replyKinds {
					k := k
					rep, msg := mkReply(k)
					outs = append(outs, xoutcome{result: tupleOf(rep, msg, &absVal{k: avNil}), apply: func(s *xstate) {
						nn := m.at("after ?"+k, x, s)
						m.edge(cur(s), cfsmTrans{kind: "?", msg: k, to: nn, pos: pos})
						s.user["node"] = nn
					}})
				}
				return outs, true
			case n == "dynamic":
				// the user's SyncFunc: succeeds or fails
				if strings.HasSuffix(describe(call.Call.Value), ".SyncFunc") {
					return []xoutcome{{result: &absVal{k: avNil}}, {result: &absVal{k: avPtr, key: "X:err:syncfunc"}}}, true
				}
			case callee != nil && inModule(callee) && callee.Pkg != nil && callee.Pkg.Pkg.Path() == repoModule+"/container" && callee.Blocks != nil:
				if e.communicates(callee) {
					return x.inlineStatic(st, call, callee), true
				}
			}
			return nil, false
		}
		x.Select = func(x *xwalker, st *xstate, sel *ssa.Select) []xoutcome {
			var outs []xoutcome
			ridx := 0
			for k, s := range sel.States {
				ch := describe(s.Chan)
				k := k
				mk := func(extra map[string]*absVal) *absVal {
					fields := map[string]*absVal{"0": avInt(int64(k)), "1": avBool(true)}
					for j := 0; j < 8; j++ {
						fields[fmt.Sprint(2+j)] = avTag("recv")
					}
					for kk, vv := range extra {
						fields[kk] = vv
					}
					return &absVal{k: avStruct, fields: fields}
				}
				pos := p.Pos(sel.Pos())
				switch {
				case strings.HasSuffix(ch, ".done"):
				case strings.HasSuffix(ch, ".recvCh"):
					slot := fmt.Sprint(2 + ridx)
					for _, rk := range replyKinds {
						rk := rk
						rep, msg := mkReply(rk)
						val := &absVal{k: avStruct, fields: map[string]*absVal{"Reply": rep, "Msg": msg}}
						outs = append(outs, xoutcome{result: mk(map[string]*absVal{slot: val}), apply: func(s *xstate) {
							nn := m.at("after ?"+rk, x, s)
							m.edge(cur(s), cfsmTrans{kind: "?", msg: rk, to: nn, pos: pos})
							s.user["node"] = nn
						}})
					}
				default:
					lbl := "cancel"
					if !strings.Contains(ch, "Done()") {
						lbl = ch
					}
					outs = append(outs, xoutcome{result: mk(nil), apply: func(s *xstate) {
						nn := m.at("after "+lbl, x, s)
						m.edge(cur(s), cfsmTrans{kind: "t", msg: lbl, to: nn, pos: pos})
						s.user["node"] = nn
					}})
				}
				if s.Dir == 2 {
					ridx++
				}
			}
			return outs
		}
		x.OnReturn = func(x *xwalker, st *xstate, rs []*absVal) {
			nn := m.named("return " + mn)
			m.retn[nn] = true
			m.edge(cur(st), cfsmTrans{kind: "t", msg: "return " + mn, to: nn})
			m.edge(nn, cfsmTrans{kind: "t", msg: "idle", to: m.idle})
		}
		x.Run(fn, map[*ssa.Parameter]*absVal{}, map[string]any{"node": root})
		if x.Truncated {
			e.problems = append(e.problems, "host exploration truncated for "+mn)
		}
	}
}

// repeatedAtoms: branch atoms occurring in more than one If of package container.
func repeatedAtoms(p *Prog) map[string]bool {
	cnt := map[string]int{}
	for _, fn := range p.PkgFuncs("container") {
		for _, b := range fn.Blocks {
			if iff := blockIf(b); iff != nil {
				a, _ := decisionKey(iff.Cond)
				cnt[a]++
			}
		}
	}
	out := map[string]bool{}
	for a, n := range cnt {
		if n > 1 {
			out[a] = true
		}
	}
	return out
}

func buildE2(p *Prog) *e2 {
	e := &e2{p: p, cmdName: map[int64]string{}}
	e.repeated = repeatedAtoms(p)
	pk := p.Pkg("container")
	if pk == nil {
		e.problems = append(e.problems, "package container not loaded")
		return e
	}
	sc := pk.Types.Scope()
	for _, n := range sc.Names() {
		if strings.HasPrefix(n, "cmd") {
			if v, ok := p.ConstInt(repoModule+"/container", n); ok {
				if cst := sc.Lookup(n); cst != nil && strings.HasSuffix(cst.Type().String(), "container.cmdType") {
					e.cmdName[v] = strings.ToLower(strings.TrimPrefix(n, "cmd"))
				}
			}
		}
	}
	if len(e.cmdName) < 5 {
		e.problems = append(e.problems, "command constants not found")
		return e
	}
	e.buildContainer()
	e.buildHost()
	return e
}

// ---------- product ----------

type prodState struct {
	h, c int
	qhc  string // "," separated kinds
	qch  string
}

type prodViolation struct {
	kind  string
	state prodState
	trace []string
	hpos  string
	cpos  string
}

func qpush(q, k string) string {
	if q == "" {
		return k
	}
	return q + "," + k
}
func qhead(q string) (string, string) {
	if q == "" {
		return "", ""
	}
	if i := strings.Index(q, ","); i >= 0 {
		return q[:i], q[i+1:]
	}
	return q, ""
}
func qlen(q string) int {
	if q == "" {
		return 0
	}
	return strings.Count(q, ",") + 1
}

type prodResult struct {
	states, transitions int
	violations          []prodViolation
	maxQueue            int
}

func (e *e2) explore(capacity int) prodResult {
	var res prodResult
	start := prodState{e.host.idle, e.cont.idle, "", ""}
	type pred struct {
		from  prodState
		label string
	}
	parent := map[prodState]pred{}
	seen := map[prodState]bool{start: true}
	queue := []prodState{start}
	trace := func(s prodState) []string {
		var out []string
		for s != start {
			pr, ok := parent[s]
			if !ok {
				break
			}
			out = append(out, pr.label)
			s = pr.from
		}
		for i, j := 0, len(out)-1; i < j; i, j = i+1, j-1 {
			out[i], out[j] = out[j], out[i]
		}
		return out
	}
	seenViol := map[string]bool{}
	report := func(kind string, s prodState, hp, cp string) {
		key := kind + "|" + e.host.nodes[s.h] + "|" + e.cont.nodes[s.c] + "|" + s.qhc + "|" + s.qch
		if seenViol[key] || len(res.violations) > 40 {
			return
		}
		seenViol[key] = true
		res.violations = append(res.violations, prodViolation{kind, s, trace(s), hp, cp})
	}
	push := func(from, to prodState, label string) {
		res.transitions++
		if !seen[to] {
			seen[to] = true
			parent[to] = pred{from, label}
			queue = append(queue, to)
		}
	}
	for len(queue) > 0 {
		s := queue[0]
		queue = queue[1:]
		res.states++
		if l := qlen(s.qhc); l > res.maxQueue {
			res.maxQueue = l
		}
		if l := qlen(s.qch); l > res.maxQueue {
			res.maxQueue = l
		}
		if reason, isExit := e.cont.exit[s.c]; isExit {
			if reason != "conf-failed" {
				report("container-exit:"+reason, s, "", "")
			}
			continue // terminal
		}
		// a state in which the reply stream is already shifted is not expanded further (everything after it is a
		// consequence; exploring it only multiplies the queue contents)
		if s.h == e.host.idle && s.qch != "" {
			report("orphan-reply(host is idle but a reply is still queued: it will be consumed by a later call)", s, "", "")
			continue
		}
		if res.states > 3000000 {
			report("state-space-limit(more than 3,000,000 product states)", s, "", "")
			break
		}
		enabled := 0
		hostBlockedRecv, contBlockedRecv := false, false
		// host moves
		for _, t := range e.host.trans[s.h] {
			switch t.kind {
			case "t":
				// a new call can only start when the previous one has returned (host is sequential): always allowed
				enabled++
				push(s, prodState{t.to, s.c, s.qhc, s.qch}, "host: "+t.msg)
			case "!":
				if qlen(s.qhc) >= capacity {
					report("queue-overflow(host→container)", s, t.pos, "")
					continue
				}
				enabled++
				push(s, prodState{t.to, s.c, qpush(s.qhc, t.msg), s.qch}, "host !"+t.msg+" @"+t.pos)
			case "?":
				hd, rest := qhead(s.qch)
				if hd == "" {
					hostBlockedRecv = true
					continue
				}
				if t.msg == hd || t.msg == "*" {
					enabled++
					push(s, prodState{t.to, s.c, s.qhc, rest}, "host ?"+hd+" @"+t.pos)
				}
			}
		}
		// container moves
		accepts := false
		hasRecv := false
		for _, t := range e.cont.trans[s.c] {
			switch t.kind {
			case "t":
				enabled++
				push(s, prodState{s.h, t.to, s.qhc, s.qch}, "container: "+t.msg)
			case "!":
				if qlen(s.qch) >= capacity {
					report("queue-overflow(container→host)", s, "", t.pos)
					continue
				}
				enabled++
				push(s, prodState{s.h, t.to, s.qhc, qpush(s.qch, t.msg)}, "container !"+t.msg+" @"+t.pos)
			case "?":
				hasRecv = true
				hd, rest := qhead(s.qhc)
				if hd == "" {
					contBlockedRecv = true
					continue
				}
				if t.msg == hd || t.msg == "*" {
					accepts = true
					enabled++
					push(s, prodState{s.h, t.to, rest, s.qch}, "container ?"+hd+" @"+t.pos)
				}
			}
		}
		if hd, _ := qhead(s.qhc); hd != "" && hasRecv && !accepts {
			report("unspecified-reception(container cannot take '"+hd+"' here)", s, "", "")
		}
		// host-side checks at idle
		if s.h == e.host.idle {
			// container stable (no internal or send move), blocked in a receive that is not the idle one, nothing on the way
			if s.c != e.cont.idle && s.qhc == "" && s.qch == "" {
				stable := true
				for _, t := range e.cont.trans[s.c] {
					if t.kind != "?" {
						stable = false
					}
				}
				if stable && len(e.cont.trans[s.c]) > 0 {
					report("desync(the call returned but the container still waits inside the previous operation)", s, "", "")
				}
			}
		}
		if enabled == 0 && hostBlockedRecv && (contBlockedRecv || len(e.cont.trans[s.c]) == 0) {
			report("deadlock(host and container both wait for a message)", s, "", "")
		}
	}
	return res
}

func (e *e2) describeState(s prodState) string {
	return fmt.Sprintf("host=%s container=%s queue(host→container)=[%s] queue(container→host)=[%s]", e.host.nodes[s.h], e.cont.nodes[s.c], s.qhc, s.qch)
}

var _ = token.ADD

// symStruct builds an abstract struct value of type t whose fields are symbolic except the given ones.
func symStruct(t types.Type, known map[string]*absVal) *absVal {
	f := map[string]*absVal{}
	if st, ok := t.Underlying().(*types.Struct); ok {
		for i := 0; i < st.NumFields(); i++ {
			n := st.Field(i).Name()
			if v, ok := known[n]; ok {
				f[n] = v
			} else {
				f[n] = avTag("field:" + n)
			}
		}
	}
	return &absVal{k: avStruct, fields: f}
}
