package main

// C13 — pooled containers carry no state between runs; sealed executables are immutable.

import (
	"fmt"
	"go/token"
	"strings"

	"golang.org/x/tools/go/ssa"
)

func init() {
	register("C13", "Decides: (1) Reset ranges over every configured mount, skips an entry only if it is not a tmpfs, clears '/'+Target, turns any failure into an error reply and replies success only after the loop; (2) the clearing helper lists ALL entries (negative count), removes every one with RemoveAll(Join(dir,name)) without any skip condition and returns the last error; (3) the memfd copier: memfd_create(flags ⊇ ALLOW_SEALING|CLOEXEC) < ReadFrom(the caller's reader itself) < fcntl(F_ADD_SEALS, ⊇ SEAL|SHRINK|GROW|WRITE) < Seek(0,0) < return, every failure closing the file and returning an error; (4) E1: an exec descriptor is executed with execveat(fd, \"\", argv, env, AT_EMPTY_PATH) in the first attempt and in the ETXTBSY retry loop, otherwise execve(argv0,…). Does not decide kernel seal semantics or entries the container init cannot remove.", checkC13)
}

func checkC13(c *Check) {
	p := c.P
	// ---------- 1: Reset ----------
	hr := p.Func("container", "containerServer.handleReset")
	var clearFn *ssa.Function
	if hr == nil {
		c.Undecided("1/reset-loop", "container.handleReset", "-", "function not found")
	} else {
		key := "container.handleReset"
		cd := controlDeps(hr)
		var clr ssa.CallInstruction
		for _, ci := range callInstrs(hr) {
			if _, callee := calleeOf(ci); callee != nil && inModule(callee) && reachesCall(callee, 1, nameIs("os.RemoveAll")) {
				clr = ci
				clearFn = callee
			}
		}
		if clr == nil {
			c.Fail("1/reset-loop", key+":clear-call", p.Pos(hr.Pos()), "Reset does not call a helper that removes directory contents")
		} else {
			pos := p.Pos(clr.Pos())
			// loop over c.Mounts
			g := cd.guardOf(clr.Block())
			overMounts := false
			for _, a := range Support(g) {
				if strings.Contains(a, "rangeindex") && strings.Contains(a, ".Mounts)") {
					overMounts = true
				}
			}
			c.Cond(overMounts && inLoop(clr.Block()), "1/reset-loop", key+":all-mounts", pos, "the loop ranges over every configured mount", "the clearing is not performed in a loop over all configured mounts: "+g.String())
			conds := extraConds(cd, clr.Block())
			ok := len(conds) == 1 && strings.Contains(conds[0], "IsTmpFs(") && !strings.HasPrefix(conds[0], "¬")
			c.Cond(ok, "1/reset-loop", key+":skip-only-non-tmpfs", pos, "an entry is skipped only if it is not a tmpfs", "mounts are cleared under "+strings.Join(conds, " ∧ ")+" (expected: exactly IsTmpFs): some writable mount keeps an earlier program's files")
			// argument = Join("/", m.Target)
			arg := describe(clr.Common().Args[0])
			c.Cond(strings.Contains(arg, "filepath.Join") && strings.Contains(arg, `"/"`) && strings.Contains(arg, ".Target"), "1/reset-loop", key+":target", pos, "clears '/' + the mount's target", "clears "+arg)
			// error → error reply (returns result of a reply helper carrying the error)
			c.Cond(errChecked(clr), "1/reset-loop", key+":error-reported", pos, "a failure to clear is reported as an error of Reset", "a failure to clear a mount is swallowed: a partial reset is reported as success")
			// success reply only after the loop
			for _, b := range hr.Blocks {
				if ret, ok := b.Instrs[len(b.Instrs)-1].(*ssa.Return); ok {
					if call, ok := ret.Results[0].(*ssa.Call); ok {
						if _, callee := calleeOf(call); callee != nil && callee.Name() == "sendReply" {
							c.Cond(!inLoop(b) && !fwdReach(b, clr.Block()), "1/reset-loop", key+":success-after-loop", p.Pos(ret.Pos()), "success is replied after all mounts were cleared", "success is replied before all mounts were cleared")
						}
					}
				}
			}
		}
		// host side: Reset always asks the container — every nil return of the host's Reset has sent the reset command
		// and received its acknowledgement (a Reset elided on a host-side "unused" belief leaves files behind whenever
		// that belief is wrong, e.g. after an Execve that failed after the program already ran)
		if hreset := p.Func("container", "container.Reset"); hreset == nil {
			c.Undecided("1/reset-loop", "container.(host)Reset", "-", "function not found")
		} else {
			for _, step := range []string{"sendCmd", "recvAckReply"} {
				isStep := func(in ssa.Instruction) bool {
					ci, ok := in.(ssa.CallInstruction)
					if !ok {
						return false
					}
					_, callee := calleeOf(ci)
					if callee == nil {
						return false
					}
					if callee.Name() == step {
						return true
					}
					// through a helper of the package (e.g. a shared send-and-await-ack function)
					return inModule(callee) && callee.Pkg == hreset.Pkg && reachesCall(callee, 1, func(c2 ssa.CallInstruction) bool { _, c3 := calleeOf(c2); return c3 != nil && c3.Name() == step })
				}
				bad := ""
				for _, b := range hreset.Blocks {
					ret, ok := b.Instrs[len(b.Instrs)-1].(*ssa.Return)
					if !ok || !isNilConst(retVal(ret, 0)) {
						continue
					}
					if skips, trail := (pathQuery{fn: hreset, target: func(in ssa.Instruction) bool { return in == ssa.Instruction(ret) }, stop: isStep}).find(); skips {
						bad = p.trail(trail)
					}
				}
				c.Cond(bad == "", "1/reset-loop", "container.(host)Reset:always-"+step, p.Pos(hreset.Pos()), "success is returned only after "+step, "the host's Reset can report success without "+step+" ("+bad+"): the container is not asked to clean up")
			}
		}
		c.Expect("1/reset-loop", 7)
	}
	// ---------- 2: removeContents ----------
	if clearFn == nil {
		c.Undecided("2/remove-everything", "container.removeContents", "-", "clearing helper not resolved")
	} else {
		key := "container." + clearFn.Name()
		cd := controlDeps(clearFn)
		var rd, rm ssa.CallInstruction
		for _, ci := range callInstrs(clearFn) {
			n, _ := calleeOf(ci)
			if strings.HasSuffix(n, "os.File).Readdirnames") || strings.HasSuffix(n, "os.File).ReadDir") || strings.HasSuffix(n, "os.File).Readdir") || n == "os.ReadDir" {
				rd = ci
			}
			if n == "os.RemoveAll" {
				rm = ci
			}
		}
		if rd == nil || rm == nil {
			c.Fail("2/remove-everything", key+":steps", p.Pos(clearFn.Pos()), "the helper does not list the directory and RemoveAll its entries")
		} else {
			okAll := true
			if n, _ := calleeOf(rd); n != "os.ReadDir" {
				cnt, ok := constInt(rd.Common().Args[len(rd.Common().Args)-1])
				okAll = ok && cnt <= 0
			}
			c.Cond(okAll, "2/remove-everything", key+":list-all", p.Pos(rd.Pos()), "all entries are listed (count ≤ 0)", "only a bounded number of entries is listed: "+describe(rd.Common().Args[len(rd.Common().Args)-1]))
			conds := extraConds(cd, rm.Block())
			c.Cond(inLoop(rm.Block()) && len(conds) == 0, "2/remove-everything", key+":no-skip", p.Pos(rm.Pos()), "every listed entry is removed, unconditionally", "entries are removed only under "+strings.Join(conds, " ∧ ")+": some entries (e.g. dangling symlinks) survive Reset")
			arg := describe(rm.Common().Args[0])
			c.Cond(strings.Contains(arg, "filepath.Join(["+clearFn.Params[0].Name()+", "), "2/remove-everything", key+":path", p.Pos(rm.Pos()), "removes Join(dir, name)", "removes "+arg)
			// no early exit from the loop: the RemoveAll error does not return/break
			early := false
			if v, ok := rm.(ssa.Value); ok {
				if refs := v.Referrers(); refs != nil {
					for _, r := range *refs {
						if bo, ok := r.(*ssa.BinOp); ok {
							if br := bo.Referrers(); br != nil {
								for _, u := range *br {
									if iff, ok := u.(*ssa.If); ok {
										for _, s := range iff.Block().Succs {
											if leadsToReturn(s, 2) && inLoop(iff.Block()) && !inLoop(s) {
												early = true
											}
										}
									}
								}
							}
						}
					}
				}
			}
			c.Cond(!early, "2/remove-everything", key+":no-early-exit", p.Pos(rm.Pos()), "a failing entry does not stop the removal of the others", "the loop stops at the first entry that cannot be removed")
			// returns the accumulated error
			retErr := false
			if v, ok := rm.(ssa.Value); ok {
				retErr = returnsValueOf(clearFn, v)
			}
			c.Cond(retErr, "2/remove-everything", key+":error-returned", p.Pos(clearFn.Pos()), "the last removal error is returned", "removal errors are not returned")
		}
		c.Expect("2/remove-everything", 5)
	}
	// ---------- 3: sealing ----------
	checkMemfdSeal(c)

	// ---------- 4: fexecve (E1) ----------
	if x := newE1ctx(c); x != nil {
		r := x.r
		execNil := r.ZeroF("ExecFile")
		at := x.sel("execveat", nil)
		ve := x.sel("execve", nil)
		// one attempt site (a single loop: "try, and try again while busy") or two (first attempt + retry loop); each has both arms
		c.Cond(len(at) >= 1 && len(at) == len(ve), "4/fexecve", "exec-sites", p.Pos(r.Child.Pos()), "every exec attempt site has an execveat and an execve arm", fmt.Sprintf("%d execveat / %d execve sites (expected the same number, at least one)", len(at), len(ve)))
		for _, e := range at {
			s, okS := r.cstrArg(e.arg(1))
			fl, okF := e.argInt(4)
			fdOK := strings.Contains(e.argDesc(0), "xecFile")
			c.Cond(fdOK && okS && s == "" && okF && fl == p.Unix("AT_EMPTY_PATH") && strings.HasPrefix(e.argDesc(2), "&argv[0]") && strings.HasPrefix(e.argDesc(3), "&env[0]"), "4/fexecve", "execveat-args:"+e.Site, x.pos(e),
				"execveat(exec fd, \"\", argv, env, AT_EMPTY_PATH)", "execveat("+e.argDesc(0)+", "+e.argDesc(1)+", "+e.argDesc(2)+", "+e.argDesc(3)+", "+e.argDesc(4)+")")
			ok, _, _ := Valid(fImp(e.Guard, fNot(execNil)))
			c.Cond(ok, "4/fexecve", "execveat-guard:"+e.Site, x.pos(e), "used only when an exec descriptor is given", "execveat is used without an exec descriptor: "+e.Guard.String())
		}
		for _, e := range ve {
			ok, _, _ := Valid(fImp(e.Guard, execNil))
			c.Cond(ok && e.argDesc(0) == r.Child.Params[1].Name(), "4/fexecve", "execve-guard:"+e.Site, x.pos(e), "execve(argv0,…) only without an exec descriptor", "the path variant is used although an exec descriptor is given (or with the wrong path): "+e.Guard.String())
		}
		// first attempt: exactly one of the two
		var first []*e1Event
		for _, e := range append(append([]*e1Event{}, at...), ve...) {
			if !e.InLoop {
				first = append(first, e)
			}
		}
		if len(first) == 0 {
			// the first attempt is the first round of the retry loop (loop-carried conditions are not part of a guard)
			first = append(append(first, at...), ve...)
		}
		x.valid("4/fexecve", "first-attempt-exactly-one", p.Pos(r.Child.Pos()), exactlyOne(guardsOf(first)), "every configuration reaches exactly one exec call", "some configuration reaches no exec call or two")
		c.Expect("4/fexecve", 5)
	}
}

func checkMemfdSeal(c *Check) {
	p := c.P
	dup := p.Func("pkg/memfd", "DupToMemfd")
	if dup == nil {
		c.Undecided("3/seal", "pkg/memfd.DupToMemfd", "-", "function not found")
		return
	}
	key := "pkg/memfd.DupToMemfd"
	evs := flattenCalls(dup, 2, func(ci ssa.CallInstruction) bool {
		n, _ := calleeOf(ci)
		return n == "golang.org/x/sys/unix.MemfdCreate" || strings.HasSuffix(n, "os.File).ReadFrom") || n == "io.Copy" || n == "golang.org/x/sys/unix.FcntlInt" || strings.HasSuffix(n, "os.File).Seek")
	})
	var create, read, seal, seek *evRef
	for i := range evs {
		n, _ := calleeOf(evs[i].call())
		switch {
		case strings.HasSuffix(n, "MemfdCreate"):
			create = &evs[i]
		case strings.HasSuffix(n, "ReadFrom") || n == "io.Copy":
			read = &evs[i]
		case strings.HasSuffix(n, "FcntlInt"):
			seal = &evs[i]
		case strings.HasSuffix(n, "Seek"):
			seek = &evs[i]
		}
	}
	pos := p.Pos(dup.Pos())
	if create == nil || read == nil || seal == nil || seek == nil {
		c.Fail("3/seal", key+":steps", pos, fmt.Sprintf("missing step (create:%v copy:%v seal:%v seek:%v)", create != nil, read != nil, seal != nil, seek != nil))
		return
	}
	fl, ok := constInt(create.call().Common().Args[1])
	needC := p.Unix("MFD_ALLOW_SEALING") | p.Unix("MFD_CLOEXEC")
	c.Cond(ok && fl&needC == needC, "3/seal", key+":create-flags", p.Pos(create.call().Pos()), "memfd_create(ALLOW_SEALING|CLOEXEC)", fmt.Sprintf("memfd_create flags %#x lack %#x", fl, needC&^fl))
	// the copy source is the caller's reader itself
	src := read.call().Common().Args[len(read.call().Common().Args)-1]
	readerParam := dup.Params[1]
	c.Cond(stripConv(src) == ssa.Value(readerParam), "3/seal", key+":copy-source", p.Pos(read.call().Pos()), "the whole of the caller's reader is copied", "the copy reads from "+describe(src)+" instead of the caller's reader: the sealed file may hold a truncated or altered copy")
	cmd, ok1 := constInt(seal.call().Common().Args[1])
	seals, ok2 := constInt(seal.call().Common().Args[2])
	needS := p.Unix("F_SEAL_SEAL") | p.Unix("F_SEAL_SHRINK") | p.Unix("F_SEAL_GROW") | p.Unix("F_SEAL_WRITE")
	c.Cond(ok1 && cmd == p.Unix("F_ADD_SEALS") && ok2 && seals&needS == needS, "3/seal", key+":seals", p.Pos(seal.call().Pos()), "F_ADD_SEALS with SEAL|SHRINK|GROW|WRITE", fmt.Sprintf("seals %#x lack %#x: the executable can still be modified", seals, needS&^seals))
	o, ok3 := constInt(seek.call().Common().Args[1])
	wh, ok4 := constInt(seek.call().Common().Args[2])
	c.Cond(ok3 && o == 0 && ok4 && wh == 0, "3/seal", key+":rewind", p.Pos(seek.call().Pos()), "Seek(0, SEEK_SET)", "the file is not rewound to its start")
	c.Cond(evBefore(*create, *read) && evBefore(*read, *seal) && evBefore(*seal, *seek), "3/seal", key+":order", pos, "create < copy < seal < rewind", "steps are out of order (content must be complete before sealing)")
	for _, e := range []*evRef{read, seal, seek} {
		n, _ := calleeOf(e.call())
		handled := errChecked(e.call())
		if !handled {
			// the error may travel through a named result: decide path-sensitively that a failure is returned
			if v, isV := e.call().(ssa.Value); isV && v.Referrers() != nil {
				for _, r := range *v.Referrers() {
					if ex, ok := r.(*ssa.Extract); ok && isErrorType(ex.Type()) {
						handled, _ = errPropagated(p, ex)
					}
				}
			}
		}
		c.Cond(handled && len(evConds(*e)) == 0, "3/seal", key+":checked:"+n[strings.LastIndex(n, ".")+1:], p.Pos(e.call().Pos()), "step is unconditional and its failure is returned", "step is conditional or its error is dropped")
	}
	// every error return after creation closes the file
	var newCall ssa.CallInstruction
	for _, ci := range callInstrs(dup) {
		if _, callee := calleeOf(ci); callee != nil && inModule(callee) && reachesCall(callee, 1, nameIs("golang.org/x/sys/unix.MemfdCreate")) {
			newCall = ci
		}
	}
	if newCall != nil {
		n := 0
		for _, b := range dup.Blocks {
			ret, ok := b.Instrs[len(b.Instrs)-1].(*ssa.Return)
			if !ok {
				continue
			}
			// `return fail(…)`: the results are those of a local helper that returns (nil, error) on every path
			var viaHelper *ssa.Function
			if ex, ok := ret.Results[0].(*ssa.Extract); ok {
				if call, ok := ex.Tuple.(*ssa.Call); ok {
					if hf := spawnedFn(&call.Call); hf != nil && inModule(hf) && len(hf.Blocks) > 0 {
						allNil := true
						for _, hb := range hf.Blocks {
							if hr, ok := hb.Instrs[len(hb.Instrs)-1].(*ssa.Return); ok && !isNilConst(retVal(hr, 0)) {
								allNil = false
							}
						}
						if allNil {
							viaHelper = hf
						}
					}
				}
			}
			if viaHelper == nil && !isNilConst(retVal(ret, 0)) {
				// named results: the value is read from the result slot; an error return stored nil there in this block
				u, isLoad := ret.Results[0].(*ssa.UnOp)
				storedNil := false
				if isLoad && u.Op == token.MUL {
					for _, in := range b.Instrs {
						if st, ok := in.(*ssa.Store); ok && st.Addr == u.X && isNilConst(st.Val) {
							storedNil = true
						}
					}
				}
				if !storedNil {
					continue
				}
			}
			// error return: must be preceded by Close unless it is the creation failure itself
			if !newCall.Block().Dominates(b) || directErrOf(b, newCall) {
				continue
			}
			n++
			closed := false
			for _, in := range b.Instrs {
				if ci, ok := in.(ssa.CallInstruction); ok {
					if nm, _ := calleeOf(ci); strings.HasSuffix(nm, "os.File).Close") {
						closed = true
					}
				}
			}
			if viaHelper != nil {
				// the helper closes the file on every path through it
				skips, _ := pathQuery{fn: viaHelper, target: isReturn, stop: func(in ssa.Instruction) bool {
					ci, ok := in.(ssa.CallInstruction)
					if !ok {
						return false
					}
					nm, _ := calleeOf(ci)
					return strings.HasSuffix(nm, "os.File).Close")
				}}.find()
				if !skips {
					closed = true
				}
			}
			// or: a deferred function registered before this return closes the file when the function fails
			// (its Close depends only on a nil test of an error)
			for _, db := range dup.Blocks {
				for _, in := range db.Instrs {
					df, ok := in.(*ssa.Defer)
					if !ok || !db.Dominates(b) {
						continue
					}
					f := spawnedFn(&df.Call)
					if f == nil || !inModule(f) || len(f.Blocks) == 0 {
						continue
					}
					for _, ci := range callInstrs(f) {
						if nm, _ := calleeOf(ci); strings.HasSuffix(nm, "os.File).Close") {
							onlyErrTests := true
							for _, d := range cdChain(controlDeps(f), ci.Block()) {
								iff := blockIf(d.b)
								if iff == nil {
									continue
								}
								bo, isBo := iff.Cond.(*ssa.BinOp)
								if !isBo || !isNilConst(bo.Y) || !isErrorType(bo.X.Type()) || (bo.Op == token.NEQ) != (d.succ == 0) {
									onlyErrTests = false
								}
							}
							if onlyErrTests {
								closed = true
							}
						}
					}
				}
			}
			c.Cond(closed, "3/seal", fmt.Sprintf("%s:error-closes#%d", key, n), p.Pos(ret.Pos()), "the half-built file is closed on this error", "an error return leaks the memfd")
		}
		if n == 0 {
			// with named results every return reads the result slots: the obligation is on the function as a whole
			c.Fail("3/seal", key+":error-closes", pos, "cannot find the error returns that follow the creation of the memfd")
		}
	}
	// the content of the sealed file is exactly what was copied: between creation and return the file is touched
	// only through ReadFrom (the copy), Fd (for the seal), Seek and Close
	if newCall != nil {
		var fileVal ssa.Value
		if v, ok := newCall.(ssa.Value); ok && v.Referrers() != nil {
			for _, r := range *v.Referrers() {
				if ex, ok := r.(*ssa.Extract); ok && ex.Index == 0 {
					fileVal = ex
				}
			}
		}
		var other []string
		for _, ci := range callInstrs(dup) {
			args := ci.Common().Args
			if len(args) == 0 || fileVal == nil || stripConv(args[0]) != fileVal {
				continue
			}
			nm, _ := calleeOf(ci)
			short := nm[strings.LastIndex(nm, ".")+1:]
			switch short {
			case "ReadFrom", "Fd", "Seek", "Close":
			default:
				other = append(other, short+"@"+p.Pos(ci.Pos()))
			}
		}
		c.Cond(fileVal != nil && len(other) == 0, "3/seal", key+":only-the-copy-writes", pos, "nothing but the copy changes the file before it is sealed", "the memfd is also modified by "+strings.Join(other, ", ")+" before sealing: the sealed content is not exactly the bytes supplied")
	}
	c.Expect("3/seal", 9)
	// nothing outside the configured tmpfs mounts can hold state between tenants: the container root is read-only
	// in every configuration (C05.2), what covers a masked path is read-only (C05.4); and the sealed executable is
	// not handed to the program as an open descriptor (scratch duplicates are close-on-exec, C06.2)
	importObs(c, "C05", "C05.2/container-sequence", "5/root-read-only", func(o Obligation) bool { return strings.Contains(o.Key, "remount") })
	importObs(c, "C05", "C05.4/mask-path", "6/mask-read-only", nil)
	importObs(c, "C06", "C06.2/scratch-discipline", "7/sealed-copy-not-inherited", func(o Obligation) bool { return strings.HasPrefix(o.Key, "cloexec:") })
}

// directErrOf: block b is the immediate error branch of call ci.
func directErrOf(b *ssa.BasicBlock, ci ssa.CallInstruction) bool {
	if len(b.Preds) != 1 {
		return false
	}
	iff := blockIf(b.Preds[0])
	if iff == nil {
		return false
	}
	v, ok := ci.(ssa.Value)
	if !ok {
		return false
	}
	roots := map[ssa.Value]bool{v: true}
	// the error may be kept in a local cell (named result): loads of a cell that receives a value of the call
	if v.Referrers() != nil {
		for _, r := range *v.Referrers() {
			ex, ok := r.(*ssa.Extract)
			if !ok || ex.Referrers() == nil {
				continue
			}
			for _, r2 := range *ex.Referrers() {
				if st, ok := r2.(*ssa.Store); ok && st.Val == ssa.Value(ex) {
					if cell, ok := st.Addr.(*ssa.Alloc); ok {
						for _, r3 := range *cell.Referrers() {
							if u, ok := r3.(*ssa.UnOp); ok && u.Op == token.MUL && u.Block() == ci.Block() {
								roots[u] = true
							}
						}
					}
				}
			}
		}
	}
	return dependsOn(iff.Cond, roots, 0) && b.Preds[0] == ci.Block()
}
