package main

// C09 — every way a program can end is classified per the documented table.

import (
	"fmt"
	"go/constant"
	"go/token"
	"go/types"
	"os"
	"path/filepath"
	"regexp"
	"sort"
	"strings"

	"golang.org/x/tools/go/ssa"
)

func init() {
	register("C09", "Three sibling wait-status classifiers (ptracer handle, unshare Run, container convertReply) are specialised by conditional constant propagation on every signal 1..64 and on exit codes {0,1,2,127,255}; the resulting complete (status, exit value) table is compared with the reference table (property statement, cross-checked against README 'Result Status') and between siblings. Also: classification only for the main pid, host-side pass-through of the container verdict field by field, and every Runner Error construction carries a non-empty explanation. Decides the shape of the decision structure for all inputs; does not decide which wait status the kernel produces.", checkC09)
}

type statusConsts struct {
	byName map[string]int64
	byVal  map[int64]string
}

func loadStatusConsts(p *Prog) *statusConsts {
	sc := &statusConsts{byName: map[string]int64{}, byVal: map[int64]string{}}
	for _, n := range []string{"StatusInvalid", "StatusNormal", "StatusTimeLimitExceeded", "StatusMemoryLimitExceeded",
		"StatusOutputLimitExceeded", "StatusDisallowedSyscall", "StatusSignalled", "StatusNonzeroExitStatus", "StatusRunnerError"} {
		v, ok := p.ConstInt(repoModule+"/runner", n)
		if !ok {
			panic("runner." + n + " not found")
		}
		sc.byName[n] = v
		sc.byVal[v] = n
	}
	return sc
}

// refSignalStatus is the reference table from the property statement.
func refSignalStatus(p *Prog, sig int64) string {
	switch sig {
	case p.Sys("SIGXCPU"), p.Sys("SIGKILL"):
		return "StatusTimeLimitExceeded"
	case p.Sys("SIGXFSZ"):
		return "StatusOutputLimitExceeded"
	case p.Sys("SIGSYS"):
		return "StatusDisallowedSyscall"
	}
	return "StatusSignalled"
}

// parseReadmeTable extracts signal -> status phrases from README.md.
func parseReadmeTable(p *Prog) (map[string]string, error) {
	b, err := os.ReadFile(filepath.Join(p.Dir, "README.md"))
	if err != nil {
		return nil, err
	}
	s := string(b)
	i := strings.Index(s, "### Result Status")
	if i < 0 {
		return nil, fmt.Errorf("section 'Result Status' not found")
	}
	s = s[i:]
	if j := strings.Index(s[5:], "\n### "); j >= 0 {
		s = s[:j+5]
	}
	out := map[string]string{}
	sigRe := regexp.MustCompile("`(SIG[A-Z0-9]+)`")
	for _, line := range strings.Split(s, "\n") {
		low := strings.ToLower(strings.ReplaceAll(line, " ", ""))
		var st string
		switch {
		case strings.Contains(low, "astimelimitexceeded"):
			st = "StatusTimeLimitExceeded"
		case strings.Contains(low, "asoutputlimitexceeded"):
			st = "StatusOutputLimitExceeded"
		case strings.Contains(low, "asdisallowedsyscall"):
			st = "StatusDisallowedSyscall"
		case strings.Contains(low, "asmemorylimitexceeded"):
			st = "StatusMemoryLimitExceeded"
		default:
			continue
		}
		for _, m := range sigRe.FindAllStringSubmatch(line, -1) {
			out[m[1]] = st
		}
	}
	if len(out) == 0 {
		return nil, fmt.Errorf("no signal lines parsed")
	}
	return out, nil
}

type outcome struct {
	status   string // Status* name, or "?" if not constant
	exit     string // exit status rendering
	finished string
	errStr   string
	isErrRep bool // container: error reply instead of exec reply
}

func (o outcome) String() string {
	s := o.status + "/exit=" + o.exit
	if o.finished != "" {
		s += "/finished=" + o.finished
	}
	if o.errStr != "" {
		s += "/err=" + o.errStr
	}
	return s
}

func isWaitStatusMethod(name, m string) bool {
	return strings.HasSuffix(name, "WaitStatus)."+m)
}

// classifierSeeds seeds the wait-status predicates.
func classifierSeeds(exited, signaled bool, sig, code int64) func(w *walker, st *wstate, v ssa.Value) *absVal {
	return func(w *walker, st *wstate, v ssa.Value) *absVal {
		switch x := v.(type) {
		case *ssa.Call:
			n, _ := calleeOf(x)
			switch {
			case isWaitStatusMethod(n, "Exited"):
				return avBool(exited)
			case isWaitStatusMethod(n, "Signaled"):
				return avBool(signaled)
			case isWaitStatusMethod(n, "Stopped"), isWaitStatusMethod(n, "Continued"), isWaitStatusMethod(n, "CoreDump"):
				return avBool(false)
			case isWaitStatusMethod(n, "Signal"):
				return avInt(sig)
			case isWaitStatusMethod(n, "ExitStatus"):
				return avInt(code)
			}
		case *ssa.BinOp:
			// resource-usage comparisons (time.Duration / runner.Size operands): not exceeded
			if x.Op == token.GTR || x.Op == token.LSS || x.Op == token.GEQ || x.Op == token.LEQ {
				if isUsageType(x.X.Type()) {
					return avBool(false)
				}
			}
		}
		return nil
	}
}

func isUsageType(t types.Type) bool {
	s := t.String()
	return s == "time.Duration" || s == repoModule+"/runner.Size"
}

func statusName(sc *statusConsts, a *absVal) string {
	if i, ok := a.Int(); ok {
		if n, ok := sc.byVal[i]; ok {
			return n
		}
		return fmt.Sprintf("Status(%d)", i)
	}
	return "?" + a.String()
}

func checkC09(c *Check) {
	p := c.P
	sc := loadStatusConsts(p)

	// README cross-check of the reference
	if tab, err := parseReadmeTable(p); err != nil {
		c.Advisory("1/readme", "README.md#Result Status", "README.md", "could not parse README table: "+err.Error()+" (reference falls back to the property statement)")
	} else {
		for sigName, st := range tab {
			v, ok := p.ConstInt("syscall", sigName)
			if !ok {
				c.Fail("1/readme", "README:"+sigName, "README.md", "README names unknown signal "+sigName)
				continue
			}
			c.Cond(refSignalStatus(p, v) == st, "1/readme", "README:"+sigName, "README.md",
				"README agrees with reference: "+sigName+" → "+st,
				"README says "+sigName+" → "+st+" but the reference table says "+refSignalStatus(p, v))
		}
	}
	c.Expect("1/readme", 3)

	type classifier struct {
		key   string
		fn    *ssa.Function
		seeds func(w *walker, st *wstate, v ssa.Value) *absVal
		get   func(w *walker, st *wstate, rs []*absVal) outcome
	}
	var cls []classifier

	// ---- ptracer (*ptraceHandle).handle: structural anchor = the method of package ptracer taking a WaitStatus and returning (runner.Status, int, string, bool)
	var handle *ssa.Function
	for _, f := range p.PkgFuncs("ptracer") {
		sig := f.Signature
		if sig.Recv() != nil && sig.Results().Len() == 4 && sig.Params().Len() == 2 &&
			strings.HasSuffix(sig.Params().At(1).Type().String(), "WaitStatus") &&
			sig.Results().At(0).Type().String() == repoModule+"/runner.Status" {
			handle = f
		}
	}
	if handle == nil {
		c.Undecided("1/classifier-table", "ptracer.handle", "-", "cannot resolve the wait-status handler of package ptracer (method (pid, WaitStatus) → (Status,int,string,bool))")
	} else {
		pidParam := handle.Params[1]
		cls = append(cls, classifier{
			key: "ptracer." + handle.Name(), fn: handle,
			seeds: func(w *walker, st *wstate, v ssa.Value) *absVal {
				if b, ok := v.(*ssa.BinOp); ok && (b.Op == token.EQL || b.Op == token.NEQ) {
					if (b.X == pidParam && isFieldLoad(b.Y)) || (b.Y == pidParam && isFieldLoad(b.X)) {
						return avBool(b.Op == token.EQL) // main pid
					}
				}
				return nil
			},
			get: func(w *walker, st *wstate, rs []*absVal) outcome {
				o := outcome{status: statusName(sc, rs[0]), exit: rs[1].String(), errStr: rs[2].String()}
				o.finished = rs[3].String()
				return o
			},
		})
	}

	// ---- unshare (*Runner).Run
	if run := p.Func("runner/unshare", "Runner.Run"); run == nil {
		c.Undecided("1/classifier-table", "runner/unshare.Run", "-", "(*unshare.Runner).Run not found")
	} else {
		cls = append(cls, classifier{
			key: "runner/unshare.Run", fn: run,
			seeds: func(w *walker, st *wstate, v ssa.Value) *absVal {
				if e, ok := v.(*ssa.Extract); ok {
					if call, ok := e.Tuple.(*ssa.Call); ok {
						n, _ := calleeOf(call)
						if isErrorType(e.Type()) && (strings.HasSuffix(n, ".Wait4") || strings.HasSuffix(n, "Runner).Start")) {
							return &absVal{k: avNil}
						}
					}
				}
				return nil
			},
			get: func(w *walker, st *wstate, rs []*absVal) outcome {
				r := rs[0]
				if r.k != avStruct {
					return outcome{status: "?" + r.String()}
				}
				return outcome{status: statusName(sc, r.fields["Status"]), exit: r.fields["ExitStatus"].String(), errStr: r.fields["Error"].String()}
			},
		})
	}

	// ---- container convertReply: structural anchor = function of package container from a struct holding WaitStatus to reply
	var conv *ssa.Function
	for _, f := range p.PkgFuncs("container") {
		sig := f.Signature
		if sig.Recv() == nil && sig.Params().Len() == 1 && sig.Results().Len() == 1 {
			if st, ok := sig.Params().At(0).Type().Underlying().(*types.Struct); ok {
				for i := 0; i < st.NumFields(); i++ {
					if strings.HasSuffix(st.Field(i).Type().String(), "WaitStatus") {
						conv = f
					}
				}
			}
		}
	}
	if conv == nil {
		c.Undecided("1/classifier-table", "container.convertReply", "-", "cannot resolve the container-side wait-status converter")
	} else {
		cls = append(cls, classifier{
			key: "container." + conv.Name(), fn: conv,
			seeds: func(w *walker, st *wstate, v ssa.Value) *absVal {
				if f, ok := v.(*ssa.Field); ok && isErrorType(f.Type()) {
					if _, isParam := f.X.(*ssa.Parameter); isParam {
						return &absVal{k: avNil}
					}
				}
				if u, ok := v.(*ssa.UnOp); ok && u.Op == token.MUL && isErrorType(u.Type()) {
					if fa, ok := u.X.(*ssa.FieldAddr); ok {
						if _, isAlloc := fa.X.(*ssa.Alloc); isAlloc {
							// parameter spilled to a local: ret.Err
							if st.mem[w.eval(st, fa).key] == nil {
								return &absVal{k: avNil}
							}
						}
					}
				}
				return nil
			},
			get: func(w *walker, st *wstate, rs []*absVal) outcome {
				r := rs[0]
				if r.k != avStruct {
					return outcome{status: "?" + r.String()}
				}
				er := r.fields["ExecReply"]
				if er == nil || er.k != avPtr {
					e := r.fields["Error"]
					msg := "?"
					if e != nil && e.k == avPtr {
						msg = w.load(st, e.key+".Msg", types.Typ[types.String]).String()
					}
					return outcome{status: "error-reply", errStr: msg, isErrRep: true}
				}
				stv := w.load(st, er.key+".Status", types.Typ[types.Int])
				ex := w.load(st, er.key+".ExitStatus", types.Typ[types.Int])
				return outcome{status: statusName(sc, stv), exit: ex.String()}
			},
		})
	}

	// evaluate the complete table per classifier
	allowedAlt := func(o outcome) bool {
		// alternatives that are not classifications of the seeded wait status
		// (no alternative "Normal, not finished": the tables are evaluated for the main pid, whose end must end the run
		// on every path; a report that is dropped would leave the wait loop waiting for a child that is gone)
		if o.status == "StatusRunnerError" && o.errStr != `""` && o.errStr != "" {
			return true // runner fault with explanation (e.g. exit before exec)
		}
		return false
	}
	tables := map[string]map[string]string{}
	for _, cl := range cls {
		tab := map[string]string{}
		tables[cl.key] = tab
		run := func(label string, exited, signaled bool, sig, code int64, want outcome) {
			var outs []outcome
			w := &walker{fn: cl.fn}
			w.Seed = seedChain(classifierSeeds(exited, signaled, sig, code), cl.seeds)
			w.OnReturn = func(w *walker, st *wstate, ret *ssa.Return, rs []*absVal) {
				outs = append(outs, cl.get(w, st, rs))
			}
			w.Run()
			key := cl.key + ":" + label
			pos := p.Pos(cl.fn.Pos())
			if w.Truncated {
				c.Undecided("1/classifier-table", key, pos, "path enumeration truncated")
				return
			}
			found := false
			var bad []string
			seen := map[string]bool{}
			for _, o := range outs {
				if o.status == want.status && o.exit == want.exit && (want.finished == "" || o.finished == want.finished) {
					found = true
					continue
				}
				if allowedAlt(o) {
					continue
				}
				if !seen[o.String()] {
					seen[o.String()] = true
					bad = append(bad, o.String())
				}
			}
			tab[label] = want.status
			sort.Strings(bad)
			switch {
			case len(bad) > 0:
				tab[label] = strings.Join(bad, "|")
				c.Fail("1/classifier-table", key, pos, fmt.Sprintf("%s: classified as %s, reference says %s", label, strings.Join(bad, " | "), want))
			case !found:
				c.Fail("1/classifier-table", key, pos, fmt.Sprintf("%s: no path yields the reference outcome %s (outcomes: %v)", label, want, outs))
			default:
				c.OK("1/classifier-table", key, pos, label+" → "+want.String())
			}
		}
		for sig := int64(1); sig <= 64; sig++ {
			want := outcome{status: refSignalStatus(p, sig), exit: fmt.Sprint(sig)}
			if strings.HasPrefix(cl.key, "ptracer.") {
				want.finished = ""
			}
			run(fmt.Sprintf("signal=%d", sig), false, true, sig, 0, want)
		}
		for _, code := range []int64{0, 1, 2, 127, 255} {
			st := "StatusNonzeroExitStatus"
			if code == 0 {
				st = "StatusNormal"
			}
			want := outcome{status: st, exit: fmt.Sprint(code)}
			if strings.HasPrefix(cl.key, "ptracer.") {
				want.finished = "true"
			}
			run(fmt.Sprintf("exit=%d", code), true, false, 0, code, want)
		}
	}
	c.Expect("1/classifier-table", 3*69)
	c.Extra["classifier_tables"] = tables

	// ---- 2: main process only (ptracer): with pid != main pid, no verdict
	if handle != nil {
		pidParam := handle.Params[1]
		type pidMode struct {
			label            string
			exited, signaled bool
			sig              int64
		}
		modes := []pidMode{{"exited", true, false, 0}}
		for sig := int64(1); sig <= 64; sig++ {
			modes = append(modes, pidMode{fmt.Sprintf("signaled(%d)", sig), false, true, sig})
		}
		for _, mode := range modes {
			var bad []string
			w := &walker{fn: handle}
			w.Seed = seedChain(classifierSeeds(mode.exited, mode.signaled, mode.sig, 3), func(w *walker, st *wstate, v ssa.Value) *absVal {
				if b, ok := v.(*ssa.BinOp); ok && (b.Op == token.EQL || b.Op == token.NEQ) {
					if (b.X == pidParam && isFieldLoad(b.Y)) || (b.Y == pidParam && isFieldLoad(b.X)) {
						return avBool(b.Op == token.NEQ) // a secondary pid
					}
				}
				return nil
			})
			w.OnReturn = func(w *walker, st *wstate, ret *ssa.Return, rs []*absVal) {
				o := outcome{status: statusName(sc, rs[0]), finished: rs[3].String()}
				if o.status != "StatusNormal" || o.finished != "false" {
					bad = append(bad, o.String())
				}
			}
			w.Run()
			c.Cond(len(bad) == 0, "2/main-pid-only", "ptracer."+handle.Name()+":"+mode.label, p.Pos(handle.Pos()),
				"a secondary pid that "+mode.label+" yields no verdict",
				"a secondary pid that "+mode.label+" yields a verdict: "+strings.Join(bad, " | "))
		}
	}
	c.Expect("2/main-pid-only", 66)
	// unshare.Run and the container's wait loop wait for exactly the started pid: the first argument of the
	// classifying Wait4 is the pid value itself (not negated = process group, not a constant)
	for _, fk := range [][2]string{{"runner/unshare", "Runner.Run"}, {"container", "containerServer.waitLoop"}} {
		fn := p.Func(fk[0], fk[1])
		if fn == nil {
			c.Undecided("2/main-pid-only", fk[0]+"."+fk[1]+":Wait4", "-", "function not found")
			continue
		}
		nw := 0
		for _, ci := range callInstrsDeep(fn, 2) {
			n, _ := calleeOf(ci)
			if !strings.HasSuffix(n, ".Wait4") {
				continue
			}
			a := ci.Common().Args[0]
			// the status pointer is nil for reaping-only waits (wait-all), those may use -1
			if isNilConst(ci.Common().Args[1]) {
				continue
			}
			// likewise a wait whose status cell is never read (a reaping loop in a helper)
			if cell, isAlloc := stripConv(ci.Common().Args[1]).(*ssa.Alloc); isAlloc {
				read := false
				for _, r := range *cell.Referrers() {
					switch x := r.(type) {
					case *ssa.DebugRef:
					case *ssa.Store:
						if x.Addr != ssa.Value(cell) {
							read = true
						}
					case ssa.CallInstruction:
						if n2, _ := calleeOf(x); !strings.HasSuffix(n2, ".Wait4") {
							read = true
						}
					default:
						read = true
					}
				}
				if !read {
					continue
				}
			}
			nw++
			// only terminal statuses are classified: the wait does not ask for stop / continue reports (a stopped
			// program is neither exited nor signalled; classifying it, e.g. in a catch-all arm, ends a healthy run)
			if len(ci.Common().Args) >= 3 {
				opt, isC := constInt(ci.Common().Args[2])
				bad := p.Unix("WUNTRACED") | p.Unix("WCONTINUED")
				c.Cond(isC && opt&bad == 0, "2/main-pid-only", fk[0]+"."+fn.Name()+":Wait4-options", p.Pos(ci.Pos()), "the classifying wait reports terminations only",
					fmt.Sprintf("the classifying Wait4 is called with options %s: job-control stops / continues are reported to a classifier that knows only exited and signalled", describe(ci.Common().Args[2])))
			}
			ok := false
			switch v := stripConv(a).(type) {
			case *ssa.Extract:
				ok = true // pid returned by Start / received from the channel
				_ = v
			case *ssa.Parameter:
				ok = true
			case *ssa.UnOp:
				ok = v.Op == token.ARROW || v.Op == token.MUL // received pid / pid held in a local
			}
			c.Cond(ok, "2/main-pid-only", fk[0]+"."+fn.Name()+":Wait4", p.Pos(ci.Pos()),
				"the classified wait status is that of exactly the started pid", "the classifying Wait4 waits on "+describe(a)+" (a process group or any child): another process's status can be reported as the program's")
		}
		c.Cond(nw > 0, "2/main-pid-only", fk[0]+"."+fn.Name()+":Wait4-sites", p.Pos(fn.Pos()), "classifying wait found", "no classifying Wait4 found")
	}

	// ---- 3: host pass-through
	checkC09PassThrough(c, sc)

	// ---- 4/5: Runner Error sites carry an explanation
	checkRunnerErrorSites(c, sc)

	// a tracee killed between a stop and the tracer's next request (ESRCH) is not turned into a verdict of its own:
	// the vanished-tracee rules of C15.2, which include that the error compared with ESRCH is the primitive's errno
	sub := NewCheck("C15", c.Tier, c.P)
	var wsHandle *ssa.Function
	for _, f := range c.P.PkgFuncs("ptracer") {
		sig := f.Signature
		if sig.Recv() != nil && sig.Results().Len() == 4 && sig.Params().Len() == 2 && strings.HasSuffix(sig.Params().At(1).Type().String(), "WaitStatus") {
			wsHandle = f
		}
	}
	if wsHandle == nil {
		c.Undecided("6/vanished-tracee", "ptracer.handle", "-", "cannot resolve the wait-status handler")
	} else {
		checkESRCH(sub, wsHandle)
		for _, o := range sub.Obs {
			c.Obs = append(c.Obs, Obligation{Rule: "C09.6/vanished-tracee", Key: o.Key, Pos: o.Pos, Status: o.Status, Msg: o.Msg})
		}
	}
	c.Expect("6/vanished-tracee", 4)

	// the result reported is the result of THIS run: both receive loops decode into fresh values; one call at a time
	// talks to the container (a second command arriving during a run is taken for the kill)
	checkFreshDecode(c, "7/result-is-fresh")
	importObs(c, "C17", "C17.5/env-mutex", "8/one-call-at-a-time", nil)
	c.Expect("8/one-call-at-a-time", 10)
	// the ends that are reported are the program's: the tracer's requests reach the kernel from the thread that is
	// the tracer (else every request fails with the tolerated ESRCH and the stop is never resumed), and the program
	// cannot end the container init by a signal (the host would report a lost connection instead of the verdict)
	importObs(c, "C17", "C17.3/thread-affinity", "9/tracer-thread", nil)
	c.Expect("9/tracer-thread", 3)
	checkIgnoredSignals(c, "10/init-survives-signals", nil, goExitSignals)
	// "Disallowed Syscall" is reported for the calls the handler refused and for no others: the per-path verdicts
	// of one call are joined by severity (C03.8)
	importObs(c, "C03", "C03.8/combine-join", "11/verdict-join", nil)
	c.Expect("11/verdict-join", 2)
}

func isErrorType(t types.Type) bool {
	return t.String() == "error"
}

func isFieldLoad(v ssa.Value) bool {
	u, ok := v.(*ssa.UnOp)
	if !ok || u.Op != token.MUL {
		return false
	}
	_, ok = u.X.(*ssa.FieldAddr)
	return ok
}

// checkC09PassThrough: container host converts the reply field by field.
func checkC09PassThrough(c *Check, sc *statusConsts) {
	p := c.P
	// anchor: function in package container returning runner.Result with a reply-typed parameter
	var fn *ssa.Function
	for _, f := range p.PkgFuncs("container") {
		sig := f.Signature
		if sig.Recv() == nil && sig.Results().Len() == 1 && sig.Results().At(0).Type().String() == repoModule+"/runner.Result" && sig.Params().Len() >= 1 {
			if st, ok := sig.Params().At(0).Type().Underlying().(*types.Struct); ok {
				for i := 0; i < st.NumFields(); i++ {
					if st.Field(i).Name() == "ExecReply" {
						fn = f
					}
				}
			}
		}
	}
	if fn == nil {
		c.Undecided("3/host-pass-through", "container.convertReplyResult", "-", "cannot resolve the host-side reply converter")
		return
	}
	pos := p.Pos(fn.Pos())
	// gob only transmits exported fields
	for _, tn := range []string{"execReply", "reply", "errorReply"} {
		obj := p.Pkg("container").Types.Scope().Lookup(tn)
		if obj == nil {
			continue
		}
		if st, ok := obj.Type().Underlying().(*types.Struct); ok {
			for i := 0; i < st.NumFields(); i++ {
				c.Cond(st.Field(i).Exported(), "3/host-pass-through", "container."+tn+"."+st.Field(i).Name()+":exported", p.Pos(st.Field(i).Pos()),
					"wire field is exported (gob transmits it)", "unexported wire field would be dropped by gob")
			}
		}
	}
	replyParam := fn.Params[0]
	// walk with err == nil, reply.Error == nil, reply.ExecReply = pointer to a symbolic cell
	var outs []string
	okAll := true
	w := &walker{fn: fn}
	w.Seed = func(w *walker, st *wstate, v ssa.Value) *absVal {
		if pr, ok := v.(*ssa.Parameter); ok {
			if isErrorType(pr.Type()) {
				return &absVal{k: avNil}
			}
			if pr == replyParam {
				return &absVal{k: avStruct, fields: map[string]*absVal{
					"Error": {k: avNil}, "ExecReply": {k: avPtr, key: "X:execReply"}, "BatchErrors": {k: avNil}}}
			}
		}
		return nil
	}
	w.OnInstr = func(w *walker, st *wstate, in ssa.Instruction) {
		// parameter struct spilled into a local
		if s, ok := in.(*ssa.Store); ok {
			if s.Val == replyParam {
				_ = s
			}
		}
	}
	w.OnReturn = func(w *walker, st *wstate, ret *ssa.Return, rs []*absVal) {
		r := rs[0]
		if r.k != avStruct {
			okAll = false
			outs = append(outs, r.String())
			return
		}
		for _, f := range []string{"Status", "ExitStatus", "Time", "Memory"} {
			got := r.fields[f].String()
			want := "«load X:execReply." + f + "»"
			if got != want {
				okAll = false
			}
			outs = append(outs, f+"="+got)
		}
	}
	w.Run()
	c.Cond(okAll && len(outs) > 0, "3/host-pass-through", "container."+fn.Name()+":fields", pos,
		"Status/ExitStatus/Time/Memory copied from the exec reply unchanged",
		"host result is not a field-by-field copy of the exec reply: "+strings.Join(outs, ", "))
	c.Expect("3/host-pass-through", 5)
}

// checkRunnerErrorSites: every path that yields StatusRunnerError also sets a non-empty Error.
func checkRunnerErrorSites(c *Check, sc *statusConsts) {
	p := c.P
	re := sc.byName["StatusRunnerError"]
	n := 0
	for _, rel := range []string{"ptracer", "runner/unshare", "runner/ptrace", "container"} {
		for _, fn := range p.PkgFuncs(rel) {
			// (a) composite literals runner.Result{Status: RunnerError, Error: e}
			// (b) stores to x.Status of the constant followed/preceded by a store to x.Error in the same block region
			for _, b := range fn.Blocks {
				for _, in := range b.Instrs {
					st, ok := in.(*ssa.Store)
					if !ok {
						continue
					}
					fa, ok := st.Addr.(*ssa.FieldAddr)
					if !ok || fieldName(fa.X.Type(), fa.Field) != "Status" {
						continue
					}
					if !strings.HasSuffix(derefType(fa.X.Type()).String(), "runner.Result") {
						continue
					}
					v, ok := constInt(st.Val)
					if !ok || v != re {
						continue
					}
					n++
					key := rel + "." + fn.Name() + ":RunnerError"
					// find the store to the Error field of the same base on the path to the next return
					found, val := errorStoreNear(st, fa.X)
					switch {
					case !found:
						c.Fail("4/runner-error-text", key, p.Pos(st.Pos()), "StatusRunnerError assigned without assigning Error")
					case nonEmptyString(val):
						c.OK("4/runner-error-text", key, p.Pos(st.Pos()), "Error = "+describe(val))
					default:
						c.Fail("4/runner-error-text", key, p.Pos(st.Pos()), "Error may be empty: "+describe(val))
					}
				}
			}
			// (c) named-result form: `status = RunnerError; errStr = ...` handled by walking returns
			if fn.Signature.Results().Len() == 4 && fn.Signature.Results().At(0).Type().String() == repoModule+"/runner.Status" {
				w := &walker{fn: fn}
				seenKey := map[string]bool{}
				w.OnReturn = func(w *walker, st *wstate, ret *ssa.Return, rs []*absVal) {
					if i, ok := rs[0].Int(); ok && i == re {
						s := rs[2].String()
						k := rel + "." + fn.Name() + ":RunnerError:" + s
						if seenKey[k] {
							return
						}
						seenKey[k] = true
						n++
						c.Cond(s != `""`, "4/runner-error-text", k, p.Pos(ret.Pos()), "errStr = "+s, "RunnerError returned with empty explanation")
					}
				}
				w.Run()
			}
		}
	}
	c.Expect("4/runner-error-text", 6)
	_ = constant.MakeBool
}

func derefType(t types.Type) types.Type {
	if p, ok := t.Underlying().(*types.Pointer); ok {
		return p.Elem()
	}
	return t
}

// errorStoreNear looks, in the same block and its single-successor chain, for
// a store to <base>.Error.
func errorStoreNear(st *ssa.Store, base ssa.Value) (bool, ssa.Value) {
	b := st.Block()
	seen := map[*ssa.BasicBlock]bool{}
	for b != nil && !seen[b] {
		seen[b] = true
		for _, in := range b.Instrs {
			if s, ok := in.(*ssa.Store); ok {
				if fa, ok := s.Addr.(*ssa.FieldAddr); ok && fa.X == base && fieldName(fa.X.Type(), fa.Field) == "Error" {
					return true, s.Val
				}
			}
		}
		if len(b.Succs) == 1 {
			b = b.Succs[0]
		} else {
			b = nil
		}
	}
	return false, nil
}

// nonEmptyString: the value is a non-empty constant, the result of an
// Error()/String() call, or of fmt.Sprintf with a non-empty constant format.
func nonEmptyString(v ssa.Value) bool {
	if s, ok := constString(v); ok {
		return s != ""
	}
	if call, ok := v.(*ssa.Call); ok {
		if call.Call.IsInvoke() && (call.Call.Method.Name() == "Error" || call.Call.Method.Name() == "String") {
			return true
		}
		n, _ := calleeOf(call)
		if n == "fmt.Sprintf" || n == "fmt.Sprint" {
			if len(call.Call.Args) > 0 {
				if s, ok := constString(call.Call.Args[0]); ok {
					return s != ""
				}
				// format forwarded from a parameter: every caller in the package must pass a non-empty constant
				if pr, ok := call.Call.Args[0].(*ssa.Parameter); ok {
					return allCallersPassNonEmpty(pr)
				}
			}
			return n == "fmt.Sprint"
		}
		if strings.HasSuffix(n, ").Error") || strings.HasSuffix(n, ").String") {
			return true
		}
	}
	if b, ok := v.(*ssa.BinOp); ok && b.Op == token.ADD {
		return nonEmptyString(b.X) || nonEmptyString(b.Y)
	}
	return false
}

// allCallersPassNonEmpty: every static call of pr's function within its
// package passes a non-empty string constant for parameter pr.
func allCallersPassNonEmpty(pr *ssa.Parameter) bool {
	fn := pr.Parent()
	idx := -1
	for i, q := range fn.Params {
		if q == pr {
			idx = i
		}
	}
	if idx < 0 || fn.Pkg == nil {
		return false
	}
	n := 0
	for _, m := range fn.Pkg.Members {
		_ = m
	}
	var all []*ssa.Function
	for _, m := range fn.Pkg.Members {
		if f, ok := m.(*ssa.Function); ok {
			all = append(all, withClosures(f)...)
		}
		if t, ok := m.(*ssa.Type); ok {
			for _, tt := range []types.Type{t.Type(), types.NewPointer(t.Type())} {
				ms := fn.Prog.MethodSets.MethodSet(tt)
				for i := 0; i < ms.Len(); i++ {
					if f := fn.Prog.MethodValue(ms.At(i)); f != nil && f.Pkg == fn.Pkg {
						all = append(all, withClosures(f)...)
					}
				}
			}
		}
	}
	seen := map[*ssa.Function]bool{}
	for _, f := range all {
		if seen[f] || f.Blocks == nil {
			continue
		}
		seen[f] = true
		for _, ci := range callInstrs(f) {
			if _, callee := calleeOf(ci); callee == fn {
				n++
				args := ci.Common().Args
				if idx >= len(args) {
					return false
				}
				if s, ok := constString(args[idx]); !ok || s == "" {
					return false
				}
			}
		}
	}
	return n > 0
}
