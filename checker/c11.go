package main

// C11 — Cancel/Destroy at any moment end the run promptly with a truthful verdict.

import (
	"fmt"
	"go/token"
	"go/types"
	"sort"
	"strings"

	"golang.org/x/tools/go/ssa"
)

func init() {
	register("C11", "Decides the structural necessary conditions of prompt, truthful cancellation: (1) every runner has a canceller that reaches the kill — the ptrace and namespace runners spawn a goroutine that waits on a context derived from the caller's and then kills the process group; the container host's wait has a ctx.Done arm that sends kill and then receives the result, and the container's started state has a kill arm reaching kill(-1,SIGKILL); (2) truthful verdict — SIGKILL is classified as Time Limit Exceeded by all three classifiers and no status is derived from the context's error; (3) a tracee that vanished under the kill (ESRCH at a ptrace request) is not turned into Runner Error / Disallowed Syscall, and the compared errors are the primitives' own (shared with C15); (4) the kill has a target at every instant: the canceller signals the process group AND the pid itself (the group only exists after the child's setsid, and Start returns before that when no sync word is awaited); (5) Destroy closes the socket BEFORE taking the environment mutex (so an in-flight call is aborted rather than waited for), then kills and reaps the init; every blocking operation of the host methods observes 'done'. Does not decide 'within bounded time' (liveness/timing) nor the container-side launch phase (not interruptible by the context).", checkC11)
}

func checkC11(c *Check) {
	p := c.P
	sigkill := p.Sys("SIGKILL")
	// ---------- 1 + 4: cancellers and their targets ----------
	for _, t := range []struct{ rel, fn string }{{"ptracer", "Tracer.trace"}, {"runner/unshare", "Runner.Run"}} {
		fn := p.Func(t.rel, t.fn)
		if fn == nil {
			c.Undecided("1/canceller", t.rel+"."+t.fn, "-", "function not found")
			continue
		}
		key := t.rel + "." + fn.Name()
		var body *ssa.Function
		var goI *ssa.Go
		for _, b := range fn.Blocks {
			for _, in := range b.Instrs {
				if g, ok := in.(*ssa.Go); ok {
					if cl := spawnedFn(&g.Call); cl != nil && inModule(cl) && len(cl.Blocks) > 0 {
						for _, ci := range callInstrs(cl) {
							if ci.Common().IsInvoke() && ci.Common().Method.Name() == "Done" {
								body, goI = cl, g
							}
						}
					}
				}
			}
		}
		if body == nil {
			c.Fail("1/canceller", key+":watcher", p.Pos(fn.Pos()), "no goroutine waits for the context: cancelling the context does not end the run")
			continue
		}
		// <-ctx.Done() then a kill of the started process
		var recv ssa.Instruction
		var kill ssa.CallInstruction
		var killer *ssa.Function
		for _, b := range body.Blocks {
			for _, in := range b.Instrs {
				if u, ok := in.(*ssa.UnOp); ok && u.Op == token.ARROW {
					recv = in
				}
				if ci, ok := in.(ssa.CallInstruction); ok {
					if _, callee := calleeOf(ci); callee != nil && inModule(callee) && reachesCall(callee, 0, func(c2 ssa.CallInstruction) bool {
						n, _ := calleeOf(c2)
						return strings.HasSuffix(n, ".Kill")
					}) {
						kill = ci
						killer = callee
					}
				}
			}
		}
		ok := recv != nil && kill != nil && before(recv, kill) && len(extraConds(controlDeps(body), kill.Block())) == 0
		c.Cond(ok, "1/canceller", key+":watcher", p.Pos(goI.Pos()), "a goroutine waits for the (derived) context and then kills the program", "the context watcher does not unconditionally kill the program after the context is done")
		// spawned before the wait loop, unconditionally
		okEarly := len(extraCondsEE(controlDeps(fn), goI.Block())) == 0
		for _, ci := range callInstrs(fn) {
			if n, _ := calleeOf(ci); strings.HasSuffix(n, ".Wait4") && !dominatesInstr(goI, ci) {
				okEarly = false
			}
		}
		c.Cond(okEarly, "1/canceller", key+":before-wait", p.Pos(goI.Pos()), "the watcher is started before the first wait", "the watcher is started conditionally or after the wait loop began: a cancellation before that point is not acted upon")
		// the context it waits on derives from the caller's context parameter
		derived := false
		for _, ci := range callInstrs(fn) {
			if n, _ := calleeOf(ci); n == "context.WithCancel" || n == "context.WithTimeout" || n == "context.WithDeadline" {
				if _, isParam := ci.Common().Args[0].(*ssa.Parameter); isParam {
					derived = true
				}
			}
		}
		c.Cond(derived, "1/canceller", key+":derived-from-caller", p.Pos(fn.Pos()), "the watched context derives from the caller's", "the watched context does not derive from the caller's context: the caller's cancellation is lost")
		// rule 4: targets
		if killer != nil {
			grp, self := false, false
			for _, ci := range callInstrs(killer) {
				if n, _ := calleeOf(ci); strings.HasSuffix(n, ".Kill") {
					s, okS := constInt(ci.Common().Args[1])
					if !okS || s != sigkill {
						continue
					}
					a := stripConv(ci.Common().Args[0])
					if u, ok := a.(*ssa.UnOp); ok && u.Op == token.SUB {
						if _, isParam := stripConv(u.X).(*ssa.Parameter); isParam {
							grp = true
						}
					}
					if _, isParam := a.(*ssa.Parameter); isParam {
						self = true
					}
				}
			}
			c.Cond(grp, "4/kill-target", t.rel+"."+killer.Name()+":group", p.Pos(killer.Pos()), "SIGKILL to the whole process group", "the canceller does not signal the program's process group: descendants survive")
			if t.rel == "ptracer" {
				// Start may return before the child's setsid (no sync word awaited when SyncFunc=nil ∧ (Stop ∨ Seccomp∧Ptrace)): the group may not exist yet
				c.Cond(self, "4/kill-target", t.rel+"."+killer.Name()+":pid", p.Pos(killer.Pos()), "SIGKILL also to the pid itself (the group exists only after the child's setsid)",
					"the canceller signals only the process group: when the context is cancelled before the child has called setsid (Start returns right after clone in the ptrace+seccomp configuration) the kill hits a group that does not exist yet, is lost, and the run never ends")
			}
		}
	}
	// E1 cross-check of the premise of rule 4: Start returns without awaiting a child event exactly in the stop/ptrace configurations
	if r, err := buildE1(p); err == nil && r.Parent != nil {
		early := false
		for _, b := range r.Parent.Blocks {
			for _, in := range b.Instrs {
				if _, ok := in.(*ssa.Go); ok {
					g := controlDeps(r.Parent).guardOf(b)
					if strings.Contains(g.String(), "StopBeforeSeccomp") {
						early = true
					}
				}
			}
		}
		c.Cond(early, "4/kill-target", "pkg/forkexec.syncWithChild:early-return-configs", p.Pos(r.Parent.Pos()), "premise confirmed: in the stop-before-seccomp / seccomp+ptrace configurations Start returns without waiting for the child's exec", "premise of the kill-target rule changed: Start no longer returns early in the stop configurations (re-confirm the rule)")
	}
	c.Expect("1/canceller", 6)
	c.Expect("4/kill-target", 4)

	// container: host wait has a ctx arm that sends kill then receives; container started state has the kill arm
	if wd := p.Func("container", "container.waitForDone"); wd != nil {
		ok := false
		for _, b := range wd.Blocks {
			for _, in := range b.Instrs {
				sel, isSel := in.(*ssa.Select)
				if !isSel {
					continue
				}
				for k, st := range sel.States {
					if !strings.Contains(describe(st.Chan), "Done()") {
						continue
					}
					// the arm's block: sendCmd(kill) then recvReply
					arm := fmt.Sprintf("%s#0 == %d", describe(sel), k)
					var send, recv ssa.CallInstruction
					for _, ci := range callInstrs(wd) {
						g := controlDeps(wd).guardOf(ci.Block())
						if v, _, _ := Valid(fImp(g, fLit(arm))); !v || len(Support(g)) == 0 {
							continue
						}
						n, _ := calleeOf(ci)
						if strings.HasSuffix(n, "container).sendCmd") && strings.Contains(describeCmdKind(ci.Common().Args[1]), fmt.Sprint(p.MustConst(repoModule+"/container", "cmdKill"))) {
							send = ci
						}
						if strings.HasSuffix(n, "container).recvReply") {
							recv = ci
						}
					}
					ok = send != nil && recv != nil && before(send, recv)
				}
			}
		}
		c.Cond(ok, "1/canceller", "container.waitForDone:ctx-arm", p.Pos(wd.Pos()), "cancellation sends kill and then collects the result", "the host's wait has no context arm that sends kill and then receives the result: a cancelled Execve keeps waiting for the program")
	}
	if hs := p.Func("container", "containerServer.handleExecveStarted"); hs != nil {
		// on every path on which the started-state select took the "command received" arm, kill(-1, SIGKILL) is
		// issued before the function returns (whatever the shape: inside the arm, or after the select under a flag)
		ok := false
		for _, b := range hs.Blocks {
			for _, in := range b.Instrs {
				sel, isSel := in.(*ssa.Select)
				if !isSel {
					continue
				}
				for k, stt := range sel.States {
					if !strings.HasSuffix(describe(stt.Chan), ".recvCh") {
						continue
					}
					rets, bad := 0, 0
					w := &walker{fn: hs, Inline: -1, MaxVisits: 3}
					w.Seed = func(w *walker, st *wstate, v ssa.Value) *absVal {
						if ex, isE := v.(*ssa.Extract); isE && ex.Tuple == ssa.Value(sel) && ex.Index == 0 {
							return avInt(int64(k))
						}
						return nil
					}
					w.OnInstr = func(w *walker, st *wstate, in2 ssa.Instruction) {
						if ci, isC := in2.(ssa.CallInstruction); isC {
							if n, _ := calleeOf(ci); n == "syscall.Kill" {
								pid, ok1 := constInt(ci.Common().Args[0])
								sg, ok2 := constInt(ci.Common().Args[1])
								if ok1 && pid == -1 && ok2 && sg == sigkill {
									st.note("killed-all")
								}
							}
						}
					}
					w.OnReturn = func(w *walker, st *wstate, ret *ssa.Return, rs []*absVal) {
						if _, passed := st.vals[sel]; !passed {
							return // a return before the started state was reached (handler merged into the launch handler)
						}
						rets++
						if !st.noted("killed-all") {
							bad++
						}
					}
					w.MemoStates = true
					w.Run()
					ok = rets > 0 && bad == 0 && !w.Truncated
				}
			}
		}
		c.Cond(ok, "1/canceller", "container.handleExecveStarted:kill-arm", p.Pos(hs.Pos()), "a kill command received while the program runs kills everything in the container", "the container's started state has no arm that turns a received kill into kill(-1, SIGKILL)")
	}

	// ---------- 2: truthful verdict ----------
	// SIGKILL → TLE in the three classifiers is decided by C09; here: no status derives from ctx.Err()
	nErr := 0
	for _, rel := range []string{"ptracer", "runner/unshare", "runner/ptrace", "container"} {
		for _, fn := range p.PkgFuncs(rel) {
			for _, ci := range callInstrs(fn) {
				if ci.Common().IsInvoke() && ci.Common().Method.Name() == "Err" && strings.Contains(ci.Common().Value.Type().String(), "context.Context") {
					nErr++
					c.Fail("2/truthful-verdict", rel+"."+fn.Name()+":ctx.Err", p.Pos(ci.Pos()), "a runner inspects ctx.Err(): cancellation must surface only through the kill and the wait status (Time Limit Exceeded), not as a separate error path")
				}
			}
		}
	}
	if nErr == 0 {
		c.OK("2/truthful-verdict", "runners:no-ctx.Err-path", "-", "no verdict is derived from the context's error")
	}
	sc := loadStatusConsts(p)
	// "Runner Error" is produced only where an operation of the runner itself failed: every store of the constant
	// into a result's Status depends on the outcome of an error test (err != nil / err == nil of an error value).
	// The one other source on today's tree is the documented "child exited before execve" arm of the ptrace
	// wait-status handler (an exit, not a kill). A verdict of Runner Error reached on a path without a failed
	// operation turns a kill (cancellation) or an ordinary ending into an error of the runner.
	runnerErr := sc.byName["StatusRunnerError"]
	nRE := 0
	for _, rel := range []string{"ptracer", "runner/unshare", "container"} {
		for _, fn := range p.PkgFuncs(rel) {
			var cd *cdInfo
			site := 0
			for _, b := range fn.Blocks {
				for _, in := range b.Instrs {
					var val ssa.Value
					switch x := in.(type) {
					case *ssa.Store:
						fa, ok := x.Addr.(*ssa.FieldAddr)
						if !ok || fieldName(fa.X.Type(), fa.Field) != "Status" {
							continue
						}
						val = x.Val
					case *ssa.Return:
						for i, r := range x.Results {
							if strings.HasSuffix(r.Type().String(), "runner.Status") {
								if v, isC := constInt(x.Results[i]); isC && v == runnerErr {
									val = r
								}
							}
						}
						if val == nil {
							continue
						}
					default:
						continue
					}
					if v, isC := constInt(val); !isC || v != runnerErr {
						continue
					}
					if cd == nil {
						cd = controlDeps(fn)
					}
					site++
					nRE++
					// a failed operation shows as a nil test: of an error value, of recover(), of an error record or a
					// missing part of a reply (pointer)
					dependsOnFailure := func(cd *cdInfo, b *ssa.BasicBlock) (onErr, exitedArm bool) {
						for _, d := range cdChain(cd, b) {
							iff := blockIf(d.b)
							if iff == nil {
								continue
							}
							if bo, ok := iff.Cond.(*ssa.BinOp); ok && (bo.Op == token.NEQ || bo.Op == token.EQL) && isNilConst(bo.Y) {
								// which side of the test this block is on
								nonNilSide := (bo.Op == token.NEQ) == (d.succ == 0)
								switch t := bo.X.Type().Underlying().(type) {
								case *types.Interface:
									// error / recover(): the failure is the non-nil side
									if nonNilSide {
										onErr = true
									}
								case *types.Pointer:
									// an error record in a reply: non-nil side; a missing mandatory part: nil side
									isErrRec := strings.Contains(strings.ToLower(t.Elem().String()), "error")
									if nonNilSide == isErrRec {
										onErr = true
									}
								}
							}
							if a, neg := condLit(iff.Cond); strings.Contains(a, "Exited(") && !neg == (d.succ == 0) {
								exitedArm = true
							}
						}
						return
					}
					onErr, exitedArm := dependsOnFailure(cd, b)
					where := cd.guardOf(b).String()
					if !onErr && !exitedArm && len(extraConds(cd, b)) == 0 && fn.Parent() == nil {
						// a helper that only builds the error result: judged at its call sites
						sites := staticCallSites(fn)
						all := len(sites) > 0
						for _, cs := range sites {
							cfn := cs.Parent()
							ccd := controlDeps(cfn)
							if e1, _ := dependsOnFailure(ccd, cs.Block()); !e1 {
								all = false
								where = "call at " + p.Pos(cs.Pos()) + " under " + ccd.guardOf(cs.Block()).String()
							}
						}
						onErr = all
					}
					key := fmt.Sprintf("%s.%s:runner-error#%d", rel, fn.Name(), site)
					c.Cond(onErr || exitedArm, "2/truthful-verdict", key, p.Pos(in.Pos()), "Runner Error depends on a failed operation (or is the exit-before-exec arm)",
						"Runner Error is produced under "+where+", which involves no failed operation: a killed (cancelled) or normally ended run is reported as an error of the runner")
				}
			}
		}
	}
	c.Expect("2/truthful-verdict", 6)

	// ---------- 3: vanished tracee (shared with C15) ----------
	var handle *ssa.Function
	for _, f := range p.PkgFuncs("ptracer") {
		sig := f.Signature
		if sig.Recv() != nil && sig.Results().Len() == 4 && sig.Params().Len() == 2 && strings.HasSuffix(sig.Params().At(1).Type().String(), "WaitStatus") {
			handle = f
		}
	}
	if handle != nil {
		before := len(c.Obs)
		checkESRCH(c, handle)
		for i := before; i < len(c.Obs); i++ {
			c.Obs[i].Rule = strings.Replace(c.Obs[i].Rule, "2/vanished-tracee", "3/kill-not-a-policy-verdict", 1)
		}
		delete(c.Expects, c.ID+".2/vanished-tracee")
		c.Expect("3/kill-not-a-policy-verdict", 5)
	}

	// ---------- 5: Destroy ----------
	if ds := p.Func("container", "container.Destroy"); ds != nil {
		// the four steps, in Destroy itself or in a helper of the package it calls (flattened program order)
		var cl, lk, kl, wt *evRef
		evs := flattenCalls(ds, 2, func(ci ssa.CallInstruction) bool {
			n, _ := calleeOf(ci)
			return strings.HasSuffix(n, ").Close") || n == "(sync.Mutex).Lock" || n == "(os.Process).Kill" || n == "(os.Process).Wait"
		})
		for i := range evs {
			ci := evs[i].call()
			n, _ := calleeOf(ci)
			a := ""
			if len(ci.Common().Args) > 0 {
				a = describe(ci.Common().Args[0])
			}
			switch {
			case strings.HasSuffix(n, ").Close") && strings.Contains(a, ".socket") && cl == nil:
				cl = &evs[i]
			case n == "(sync.Mutex).Lock" && lk == nil:
				lk = &evs[i]
			case n == "(os.Process).Kill":
				kl = &evs[i]
			case n == "(os.Process).Wait":
				wt = &evs[i]
			}
		}
		ok := cl != nil && lk != nil && kl != nil && wt != nil && evBefore(*cl, *lk) && evBefore(*lk, *kl) && evBefore(*kl, *wt)
		c.Cond(ok, "5/destroy", "container.Destroy:order", p.Pos(ds.Pos()), "socket.Close < mu.Lock < process.Kill < process.Wait", "Destroy does not close the socket before taking the mutex (an in-flight call is then waited for instead of aborted) or does not kill before waiting")
	}
	// every blocking operation of the host methods observes done
	if pk := p.Pkg("container"); pk != nil {
		n := 0
		for _, fn := range p.PkgFuncs("container") {
			if !operatesOn(fn, "container.container") {
				continue
			}
			if fn.Name() == "recvLoop" {
				continue // the receive goroutine: blocks in the socket, ended by closing it
			}
			for _, op := range chanOpsOf(fn) {
				n++
				key := fmt.Sprintf("container.(host)%s:%s(%s)", fn.Name(), op.kind, strings.Join(shortChans(op.chans), ","))
				ok := op.kind == "select" && hasSuffixAny(op.chans, ".done")
				c.Cond(ok, "5/destroy", key, p.Pos(op.instr.Pos()), "observes 'done'", "a blocking channel operation of a host method without the 'done' arm: after the transport is lost (Destroy, container death) the call hangs instead of failing promptly")
			}
		}
	}
	// 'done' is closed only together with a non-nil transport error: the function that closes it stores its error
	// parameter, and every caller passes a value that is non-nil on that path (the call depends on `err != nil` of
	// the value passed). Closing 'done' with a nil error makes the in-flight acknowledgement-style calls (Ping,
	// Reset, Delete) return success for an environment that was destroyed under them.
	for _, side := range []string{"container", "containerServer"} {
		for _, fn := range p.PkgFuncs("container") {
			if !operatesOn(fn, "container."+side) {
				continue
			}
			closes := false
			for _, af := range append([]*ssa.Function{fn}, fn.AnonFuncs...) {
				for _, ci := range callInstrs(af) {
					if b, ok := ci.Common().Value.(*ssa.Builtin); ok && b.Name() == "close" && strings.HasSuffix(describe(ci.Common().Args[0]), ".done") {
						closes = true
					}
				}
			}
			if !closes || len(fn.Params) != 2 || fn.Params[1].Type().String() != "error" {
				continue
			}
			// the error is recorded before (and whenever) 'done' is closed: a store of the error parameter into the
			// receiver's error field dominates the close
			for _, af := range append([]*ssa.Function{fn}, fn.AnonFuncs...) {
				for _, ci := range callInstrs(af) {
					b, ok := ci.Common().Value.(*ssa.Builtin)
					if !ok || b.Name() != "close" || !strings.HasSuffix(describe(ci.Common().Args[0]), ".done") {
						continue
					}
					stored := false
					for _, bb := range af.Blocks {
						for _, in := range bb.Instrs {
							st, ok := in.(*ssa.Store)
							if !ok || st.Val.Type().String() != "error" {
								continue
							}
							if _, isField := st.Addr.(*ssa.FieldAddr); !isField {
								continue
							}
							isParam := st.Val == ssa.Value(fn.Params[1])
							if u, ok := st.Val.(*ssa.UnOp); ok {
								if fv, ok := u.X.(*ssa.FreeVar); ok {
									if site, ok := closureSiteOf(fv).(*ssa.Alloc); ok && site != nil && site.Referrers() != nil {
										for _, r := range *site.Referrers() {
											if s2, ok := r.(*ssa.Store); ok && s2.Val == ssa.Value(fn.Params[1]) {
												isParam = true
											}
										}
									}
								}
							}
							if fv, ok := st.Val.(*ssa.FreeVar); ok {
								if closureSiteOf(fv) == ssa.Value(fn.Params[1]) {
									isParam = true
								}
							}
							if isParam && dominatesInstr(st, ci) {
								stored = true
							}
						}
					}
					c.Cond(stored, "5/destroy", fmt.Sprintf("container.(%s).%s:records-error", side, fn.Name()), p.Pos(ci.Pos()),
						"the error is recorded on every path that closes 'done'", "'done' is closed on a path on which the error was not recorded: whoever is woken by the closed channel reads a nil error and takes the lost connection for success (a gated launch for the go-ahead)")
				}
			}
			for i, cs := range staticCallSites(fn) {
				arg := cs.Common().Args[1]
				cfn := cs.Parent()
				ccd := controlDeps(cfn)
				g := ccd.guardOf(cs.Block())
				nonNil := false
				// dominance, not control dependence: in a `for { ...; if err != nil { report; return } }` loop the error
				// arm is the only way out and therefore post-dominates the loop
				for _, db := range cfn.Blocks {
					iff := blockIf(db)
					if iff == nil {
						continue
					}
					if bo, ok := iff.Cond.(*ssa.BinOp); ok && isNilConst(bo.Y) && bo.X == arg {
						idx := 0
						if bo.Op == token.EQL {
							idx = 1
						} else if bo.Op != token.NEQ {
							continue
						}
						if sb := db.Succs[idx]; len(sb.Preds) == 1 && sb.Dominates(cs.Block()) {
							nonNil = true
						}
					}
				}
				if _, isMI := arg.(*ssa.MakeInterface); isMI {
					nonNil = true // a concrete error value
				}
				if call, ok := arg.(*ssa.Call); ok {
					if n, _ := calleeOf(call); n == "fmt.Errorf" || n == "errors.New" {
						nonNil = true
					}
				}
				c.Cond(nonNil, "5/destroy", fmt.Sprintf("container.(%s).%s:caller#%d(%s)", side, fn.Name(), i+1, cfn.Name()), p.Pos(cs.Pos()),
					"'done' is closed with an error that is non-nil on this path", "'done' can be closed here with a nil error ("+describe(arg)+" under "+g.String()+"): calls in flight then report success although the environment is gone")
			}
		}
	}
	checkDestroyKillsAndReaps(c, "5/destroy")
	c.Expect("5/destroy", 12)

	// a cancelled run comes back: the container's handler and its wait goroutine cannot block on each other (C10.9)
	importObs(c, "C10", "C10.9/no-circular-wait", "6/cancel-returns", nil)
	c.Expect("6/cancel-returns", 2)

	checkDeadlinesDisarmed(c, "7/deadlines-disarmed")
	checkDestroyClosesSocket(c, "8/destroy-closes-socket")
}

// describeCmdKind renders the constant Cmd field of a cmd literal passed by value.
func describeCmdKind(v ssa.Value) string {
	// the literal is built in an alloc and loaded: find the store to its Cmd field
	if u, ok := v.(*ssa.UnOp); ok && u.Op == token.MUL {
		if a, ok := u.X.(*ssa.Alloc); ok {
			if refs := a.Referrers(); refs != nil {
				for _, r := range *refs {
					if fa, ok := r.(*ssa.FieldAddr); ok && fieldName(fa.X.Type(), fa.Field) == "Cmd" {
						for _, u2 := range *fa.Referrers() {
							if st, ok := u2.(*ssa.Store); ok {
								return describe(st.Val)
							}
						}
					}
				}
			}
		}
	}
	return describe(v)
}

// checkDeadlinesDisarmed: a deadline on the control socket is absolute and sticky — once it has passed every later
// read or write fails at once, and the loops treat that as a lost connection. A host method that arms a deadline
// disarms every direction it armed before it returns (deferred).
func checkDeadlinesDisarmed(c *Check, rule string) {
	p := c.P
	kindsOf := func(name string) []string {
		switch {
		case strings.HasSuffix(name, ".SetDeadline"):
			return []string{"read", "write"}
		case strings.HasSuffix(name, ".SetReadDeadline"):
			return []string{"read"}
		case strings.HasSuffix(name, ".SetWriteDeadline"):
			return []string{"write"}
		}
		return nil
	}
	n := 0
	for _, fn := range p.PkgFuncs("container") {
		armed, cleared := map[string]bool{}, map[string]bool{}
		var armPos string
		for _, f := range withClosures(fn) {
			for _, ci := range callInstrs(f) {
				name, _ := calleeOf(ci)
				ks := kindsOf(name)
				if ks == nil {
					continue
				}
				args := ci.Common().Args
				t := args[len(args)-1]
				zero := false
				if cst, ok := t.(*ssa.Const); ok && cst.Value == nil {
					zero = true
				}
				_, isDefer := ci.(*ssa.Defer)
				for _, k := range ks {
					if zero {
						// counts when it is deferred in the method itself, or made in a deferred closure
						if isDefer || f != fn {
							cleared[k] = true
						}
					} else {
						armed[k] = true
						armPos = p.Pos(ci.Pos())
					}
				}
			}
		}
		if len(armed) == 0 || fn.Parent() != nil {
			continue
		}
		n++
		var missing []string
		for k := range armed {
			if !cleared[k] {
				missing = append(missing, k)
			}
		}
		sort.Strings(missing)
		c.Cond(len(missing) == 0, rule, "container."+fn.Name()+":deadline", armPos, "every deadline armed is disarmed before the method returns",
			"the "+strings.Join(missing, " and ")+" deadline armed here is still set when "+fn.Name()+" returns: once it has passed, the next command (the kill of a cancelled run included) fails with a timeout, the environment is torn down and the run is reported as a runner error")
	}
	if n == 0 {
		c.Undecided(rule, "container:deadline", "-", "no method arms a deadline")
	}
	c.Expect(rule, 1)
}

// checkDestroyClosesSocket: Destroy aborts the call in flight by closing the socket — both directions, by itself.
// The close it makes must reach the connection's own Close (not a shutdown of one direction that relies on the
// container init to answer).
func checkDestroyClosesSocket(c *Check, rule string) {
	p := c.P
	d := p.Func("container", "container.Destroy")
	if d == nil {
		c.Undecided(rule, "container.Destroy", "-", "function not found")
		return
	}
	var closeCall ssa.CallInstruction
	for _, ci := range callInstrs(d) {
		name, _ := calleeOf(ci)
		if strings.HasSuffix(name, ".Close") && len(ci.Common().Args) > 0 && strings.Contains(describe(ci.Common().Args[0]), "socket") {
			closeCall = ci
			break
		}
	}
	if closeCall == nil {
		c.Fail(rule, "container.Destroy:socket-close", p.Pos(d.Pos()), "Destroy does not close the control socket: a call in flight is not aborted")
		c.Expect(rule, 1)
		return
	}
	isConnClose := func(ci ssa.CallInstruction) bool {
		n, _ := calleeOf(ci)
		return n == "(net.conn).Close" || n == "(net.UnixConn).Close" || n == "syscall.Close" || n == "(os.File).Close"
	}
	name, callee := calleeOf(closeCall)
	ok := isConnClose(closeCall)
	if !ok && callee != nil && inModule(callee) {
		// a wrapper of the module: every path through it must reach the connection's Close
		skips, _ := pathQuery{fn: callee, target: isReturn, stop: func(in ssa.Instruction) bool {
			ci, ok := in.(ssa.CallInstruction)
			return ok && (isConnClose(ci) || instrReaches(in, 2, isConnClose))
		}}.find()
		ok = !skips
	}
	c.Cond(ok, rule, "container.Destroy:socket-close", p.Pos(closeCall.Pos()), "Destroy closes the connection itself",
		"the close Destroy makes resolves to "+name+", which does not close the connection on every path (a half-close leaves the receive loop waiting for the container init: with the init stopped or busy the call in flight never returns and Destroy never reaches the kill)")
	c.Expect(rule, 1)
}
