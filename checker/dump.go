package main

import (
	"fmt"
	"go/ast"
	"go/types"
	"os"
	"sort"
	"strings"

	"golang.org/x/tools/go/ssa"
)

// cmdDump: debugging aids (not used by any registered check).
var extraDumps = map[string]func(p *Prog){}

func cmdDump(args []string) int {
	if f, ok := extraDumps[args[0]]; ok {
		p, err := Load(RepoDir(), "amd64")
		if err != nil {
			fmt.Fprintln(os.Stderr, err)
			return 2
		}
		f(p)
		return 0
	}
	if len(args) < 3 {
		fmt.Fprintln(os.Stderr, "dump fn|guards|desc <relpkg> <func> [arch]")
		return 2
	}
	arch := "amd64"
	if len(args) > 3 {
		arch = args[3]
	}
	p, err := Load(RepoDir(), arch)
	if err != nil {
		fmt.Fprintln(os.Stderr, err)
		return 2
	}
	fn := p.Func(args[1], args[2])
	if fn == nil {
		fmt.Fprintln(os.Stderr, "function not found")
		return 2
	}
	switch args[0] {
	case "fn":
		for _, f := range withClosures(fn) {
			f.WriteTo(os.Stdout)
		}
	case "guards":
		ci := controlDeps(fn)
		for _, b := range fn.Blocks {
			fmt.Printf("block %d (%s): guard=%s\n", b.Index, b.Comment, ci.guardOf(b))
		}
	case "desc":
		for _, b := range fn.Blocks {
			for _, in := range b.Instrs {
				if v, ok := in.(ssa.Value); ok {
					fmt.Printf("b%d %s = %s\n", b.Index, v.Name(), describe(v))
				} else {
					fmt.Printf("b%d %s\n", b.Index, in)
				}
			}
		}
	}
	return 0
}

func init() {
	extraDumps["e1"] = func(p *Prog) {
		r, err := buildE1(p)
		if err != nil {
			fmt.Println("ERR", err)
			return
		}
		fmt.Println("child:", r.Child, "parent:", r.Parent, "exitfns:", len(r.ExitFns), "roles:", r.ParamOf)
		var fb []int
		for b := range r.failBlk {
			fb = append(fb, b.Index)
		}
		fmt.Println("failure blocks:", len(fb))
		for _, l := range r.eventList() {
			fmt.Println(" ", l)
		}
		fmt.Println("atoms:", r.Atoms)
	}
}

func init() {
	extraDumps["e1cd"] = func(p *Prog) {
		r, _ := buildE1(p)
		for _, b := range r.Child.Blocks[:30] {
			_, isF := r.failBlk[b]
			var ds []string
			for _, d := range r.cd.cd[b] {
				ds = append(ds, fmt.Sprintf("b%d/%d", d.b.Index, d.succ))
			}
			var ss []int
			for _, s := range b.Succs {
				ss = append(ss, s.Index)
			}
			fmt.Printf("b%d fail=%v succs=%v cd=%v\n", b.Index, isF, ss, ds)
		}
	}
}

func init() {
	extraDumps["e2"] = func(p *Prog) {
		e := buildE2(p)
		fmt.Println("problems:", e.problems)
		for _, m := range []*cfsm{e.cont, e.host} {
			fmt.Println("==", m.name, len(m.nodes), "nodes")
			for i, l := range m.nodes {
				for _, t := range m.trans[i] {
					fmt.Printf("  %d[%s] --%s%s--> %d[%s]  %s\n", i, l, t.kind, t.msg, t.to, m.nodes[t.to], t.pos)
				}
			}
		}
	}
}

// dumpRenames: debugging aid for anchors.go.
func dumpRenames() {
	p, _, err := loadOnce(RepoDir(), "amd64", nil)
	if err != nil {
		fmt.Println(err)
		return
	}
	bl, _ := loadBaseline()
	base := bl.Arch["amd64"]
	alias, log, missing := resolveRenames(p.Pkgs, base)
	for _, l := range log {
		fmt.Println("RENAMED", l)
	}
	fmt.Println("MISSING", missing)
	cur := describeEntities(p.Pkgs, alias, func(k string) bool { _, ok := base[k]; return ok })
	for k, e := range cur {
		if _, ok := base[k]; !ok {
			fmt.Println("FRESH", k, e.Sig, e.Feats)
		}
	}
	for _, m := range missing {
		fmt.Println("BASE", m, base[m].Sig, base[m].Feats)
	}
}

func init() { extraDumps["renames"] = func(p *Prog) { dumpRenames() } }

// devRename is a maintenance helper used to produce behaviour-preserving
// rename patches for the checker's self-test (neutral/*.patch): it rewrites, in
// place, the files of the tree at GSVERIF_REPO. Specs:
//
//	var:<pkgrel>::<[Recv.]Func>:<old>=<new>   parameters / receivers / locals of one function
func devRename(specs []string) int {
	p, _, err := loadOnce(RepoDir(), "amd64", nil)
	if err != nil {
		fmt.Println(err)
		return 2
	}
	type edit struct {
		off, n int
		s      string
	}
	edits := map[string][]edit{}
	for _, sp := range specs {
		kindRest := strings.SplitN(sp, ":", 2)
		if len(kindRest) != 2 || kindRest[0] != "var" {
			fmt.Println("bad spec", sp)
			return 2
		}
		i := strings.LastIndex(kindRest[1], ":")
		fnKey, on := kindRest[1][:i], strings.SplitN(kindRest[1][i+1:], "=", 2)
		pkgFn := strings.SplitN(fnKey, "::", 2)
		pk := p.Pkg(pkgFn[0])
		if pk == nil {
			fmt.Println("no package", pkgFn[0])
			return 2
		}
		found := false
		for _, file := range pk.Syntax {
			for _, d := range file.Decls {
				fd, ok := d.(*ast.FuncDecl)
				if !ok {
					continue
				}
				name := fd.Name.Name
				if fd.Recv != nil && len(fd.Recv.List) > 0 {
					t := fd.Recv.List[0].Type
					if st, ok := t.(*ast.StarExpr); ok {
						t = st.X
					}
					if id, ok := t.(*ast.Ident); ok {
						name = id.Name + "." + name
					}
				}
				if name != pkgFn[1] {
					continue
				}
				objs := map[types.Object]bool{}
				ast.Inspect(fd, func(n ast.Node) bool {
					if id, ok := n.(*ast.Ident); ok && id.Name == on[0] {
						if o := pk.TypesInfo.Defs[id]; o != nil {
							if _, isVar := o.(*types.Var); isVar {
								objs[o] = true
							}
						}
					}
					return true
				})
				ast.Inspect(fd, func(n ast.Node) bool {
					if id, ok := n.(*ast.Ident); ok && id.Name == on[0] {
						o := pk.TypesInfo.Defs[id]
						if o == nil {
							o = pk.TypesInfo.Uses[id]
						}
						if objs[o] {
							pos := p.Fset.Position(id.Pos())
							edits[pos.Filename] = append(edits[pos.Filename], edit{pos.Offset, len(on[0]), on[1]})
							found = true
						}
					}
					return true
				})
			}
		}
		if !found {
			fmt.Println("nothing renamed for", sp)
			return 2
		}
	}
	for fn, es := range edits {
		src, err := os.ReadFile(fn)
		if err != nil {
			fmt.Println(err)
			return 2
		}
		sort.Slice(es, func(i, j int) bool { return es[i].off > es[j].off })
		last := -1
		for _, e := range es {
			if e.off == last {
				continue
			}
			last = e.off
			src = append(src[:e.off:e.off], append([]byte(e.s), src[e.off+e.n:]...)...)
		}
		os.WriteFile(fn, src, 0o644)
	}
	return 0
}
