package main

import (
	"fmt"
	"os"

	"golang.org/x/tools/go/ssa"
)

// cmdDump: debugging aids (not used by any registered check).
func cmdDump(args []string) int {
	if len(args) < 3 {
		fmt.Fprintln(os.Stderr, "dump fn|guards|desc <relpkg> <func> [arch]")
		return 2
	}
	arch := "amd64"
	if len(args) > 3 {
		arch = args[3]
	}
	p, err := Load(RepoDir(), arch)
	if err != nil {
		fmt.Fprintln(os.Stderr, err)
		return 2
	}
	fn := p.Func(args[1], args[2])
	if fn == nil {
		fmt.Fprintln(os.Stderr, "function not found")
		return 2
	}
	switch args[0] {
	case "fn":
		for _, f := range withClosures(fn) {
			f.WriteTo(os.Stdout)
		}
	case "guards":
		ci := controlDeps(fn)
		for _, b := range fn.Blocks {
			fmt.Printf("block %d (%s): guard=%s\n", b.Index, b.Comment, ci.guardOf(b))
		}
	case "desc":
		for _, b := range fn.Blocks {
			for _, in := range b.Instrs {
				if v, ok := in.(ssa.Value); ok {
					fmt.Printf("b%d %s = %s\n", b.Index, v.Name(), describe(v))
				} else {
					fmt.Printf("b%d %s\n", b.Index, in)
				}
			}
		}
	}
	return 0
}
