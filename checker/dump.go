package main

import (
	"fmt"
	"os"

	"golang.org/x/tools/go/ssa"
)

// cmdDump: debugging aids (not used by any registered check).
var extraDumps = map[string]func(p *Prog){}

func cmdDump(args []string) int {
	if f, ok := extraDumps[args[0]]; ok {
		p, err := Load(RepoDir(), "amd64")
		if err != nil {
			fmt.Fprintln(os.Stderr, err)
			return 2
		}
		f(p)
		return 0
	}
	if len(args) < 3 {
		fmt.Fprintln(os.Stderr, "dump fn|guards|desc <relpkg> <func> [arch]")
		return 2
	}
	arch := "amd64"
	if len(args) > 3 {
		arch = args[3]
	}
	p, err := Load(RepoDir(), arch)
	if err != nil {
		fmt.Fprintln(os.Stderr, err)
		return 2
	}
	fn := p.Func(args[1], args[2])
	if fn == nil {
		fmt.Fprintln(os.Stderr, "function not found")
		return 2
	}
	switch args[0] {
	case "fn":
		for _, f := range withClosures(fn) {
			f.WriteTo(os.Stdout)
		}
	case "guards":
		ci := controlDeps(fn)
		for _, b := range fn.Blocks {
			fmt.Printf("block %d (%s): guard=%s\n", b.Index, b.Comment, ci.guardOf(b))
		}
	case "desc":
		for _, b := range fn.Blocks {
			for _, in := range b.Instrs {
				if v, ok := in.(ssa.Value); ok {
					fmt.Printf("b%d %s = %s\n", b.Index, v.Name(), describe(v))
				} else {
					fmt.Printf("b%d %s\n", b.Index, in)
				}
			}
		}
	}
	return 0
}

func init() {
	extraDumps["e1"] = func(p *Prog) {
		r, err := buildE1(p)
		if err != nil {
			fmt.Println("ERR", err)
			return
		}
		fmt.Println("child:", r.Child, "parent:", r.Parent, "exitfns:", len(r.ExitFns), "roles:", r.ParamOf)
		var fb []int
		for b := range r.failBlk {
			fb = append(fb, b.Index)
		}
		fmt.Println("failure blocks:", len(fb))
		for _, l := range r.eventList() {
			fmt.Println(" ", l)
		}
		fmt.Println("atoms:", r.Atoms)
	}
}

func init() {
	extraDumps["e1cd"] = func(p *Prog) {
		r, _ := buildE1(p)
		for _, b := range r.Child.Blocks[:30] {
			_, isF := r.failBlk[b]
			var ds []string
			for _, d := range r.cd.cd[b] {
				ds = append(ds, fmt.Sprintf("b%d/%d", d.b.Index, d.succ))
			}
			var ss []int
			for _, s := range b.Succs {
				ss = append(ss, s.Index)
			}
			fmt.Printf("b%d fail=%v succs=%v cd=%v\n", b.Index, isF, ss, ds)
		}
	}
}

func init() {
	extraDumps["e2"] = func(p *Prog) {
		e := buildE2(p)
		fmt.Println("problems:", e.problems)
		for _, m := range []*cfsm{e.cont, e.host} {
			fmt.Println("==", m.name, len(m.nodes), "nodes")
			for i, l := range m.nodes {
				for _, t := range m.trans[i] {
					fmt.Printf("  %d[%s] --%s%s--> %d[%s]  %s\n", i, l, t.kind, t.msg, t.to, m.nodes[t.to], t.pos)
				}
			}
		}
	}
}
