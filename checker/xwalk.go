package main

// Interprocedural variant of the spec walker (absint.go): explores every
// path of a root function, inlining selected module callees (frames), with
// the same abstract domain. A client decides per call whether to inline,
// to model the call (possibly forking into several outcomes) or to leave
// its result symbolic. Used by E2 to extract the communicating automata of
// the container protocol.

import (
	"fmt"
	"go/constant"
	"sort"
	"strings"

	"golang.org/x/tools/go/ssa"
)

type xframe struct {
	fn    *ssa.Function
	block *ssa.BasicBlock
	idx   int
	prev  *ssa.BasicBlock
	call  *ssa.Call // call instruction in the caller awaiting this frame's result (nil for the root)
}

type xstate struct {
	*wstate
	frames []xframe
	user   map[string]any
	steps  int
}

func (s *xstate) clone() *xstate {
	n := &xstate{wstate: s.wstate.clone(), user: map[string]any{}, steps: s.steps}
	n.frames = append([]xframe(nil), s.frames...)
	for k, v := range s.user {
		n.user[k] = v
	}
	return n
}

// xoutcome is one way a modelled call can turn out.
type xoutcome struct {
	result *absVal          // value of the call (tuple as avStruct with fields "0","1",…)
	apply  func(st *xstate) // side effects on the state (e.g. automaton transition)
	inline *ssa.Function    // if non-nil: run this function (closure) with args instead of binding result
	args   []*absVal
	then   func(st *xstate, ret *absVal) []xoutcome // continuation after an inlined call: outcomes given its return value
	bind   map[ssa.Value]*absVal                    // free-variable bindings for an inlined closure
}

type xwalker struct {
	w *walker
	// Call is consulted for every call instruction. Return (nil, false) for the default (symbolic result);
	// (outcomes, true) to model it; to inline a static callee return a single outcome with inline set.
	Call func(x *xwalker, st *xstate, call *ssa.Call) ([]xoutcome, bool)
	// Select is consulted for blocking selects: returns the alternatives (each binds the select's tuple value).
	Select func(x *xwalker, st *xstate, sel *ssa.Select) []xoutcome
	// OnReturn is called when the root frame returns.
	OnReturn func(x *xwalker, st *xstate, results []*absVal)
	// OnPanic is called at a panic in any frame.
	OnPanic   func(x *xwalker, st *xstate)
	MaxSteps  int
	MaxPaths  int
	paths     int
	Truncated bool
	MaxVisits int
	Memo      map[string]bool
	// Repeated: branch atoms that occur in more than one If of the explored code; only those decisions are remembered
	// (a condition tested once cannot be contradicted later). nil = remember all.
	Repeated map[string]bool
}

func newXWalker(seed func(w *walker, st *wstate, v ssa.Value) *absVal) *xwalker {
	return &xwalker{w: &walker{Seed: seed}, MaxSteps: 20000, MaxPaths: 20000, MaxVisits: 2}
}

func tupleOf(vs ...*absVal) *absVal {
	f := map[string]*absVal{}
	for i, v := range vs {
		f[fmt.Sprint(i)] = v
	}
	return &absVal{k: avStruct, fields: f}
}

func (x *xwalker) Run(root *ssa.Function, params map[*ssa.Parameter]*absVal, user map[string]any) {
	st := &xstate{wstate: &wstate{vals: map[ssa.Value]*absVal{}, mem: map[string]*absVal{}, allocd: map[string]bool{}, visits: map[*ssa.BasicBlock]int{}}, user: map[string]any{}}
	for k, v := range user {
		st.user[k] = v
	}
	for p, v := range params {
		st.vals[p] = v
	}
	st.frames = []xframe{{fn: root, block: root.Blocks[0]}}
	x.run(st)
}

func (x *xwalker) eval(st *xstate, v ssa.Value) *absVal { return x.w.eval(st.wstate, v) }

// run executes from the top frame until the path ends, forking as needed.
func (x *xwalker) run(st *xstate) {
	for {
		if x.paths >= x.MaxPaths || st.steps > x.MaxSteps {
			x.Truncated = true
			return
		}
		fr := &st.frames[len(st.frames)-1]
		b := fr.block
		if fr.idx == 0 {
			key := b
			if st.visits[key] >= x.MaxVisits {
				return // loop bound reached on this path
			}
			st.visits[key]++
			st.trail = append(st.trail, b)
			if x.Memo != nil {
				k := x.StateKey(st)
				if x.Memo[k] {
					return // an identical abstract state was already explored from this point
				}
				x.Memo[k] = true
			}
		}
		if fr.idx >= len(b.Instrs) {
			return
		}
		in := b.Instrs[fr.idx]
		st.steps++
		switch t := in.(type) {
		case *ssa.If:
			c := x.eval(st, t.Cond)
			if bv, ok := c.Bool(); ok {
				k := 1
				if bv {
					k = 0
				}
				fr.prev, fr.block, fr.idx = b, b.Succs[k], 0
				continue
			}
			// a symbolic condition decided earlier on this path is decided the same way again
			atom, neg := decisionKey(t.Cond)
			if dv, ok := st.user["dec:"+atom].(bool); ok {
				k := 1
				if dv != neg {
					k = 0
				}
				fr.prev, fr.block, fr.idx = b, b.Succs[k], 0
				continue
			}
			s2 := st.clone()
			if x.Repeated == nil || x.Repeated[atom] {
				st.user["dec:"+atom] = !neg // true edge: cond holds ⇒ atom == !neg
				s2.user["dec:"+atom] = neg
			}
			fr.prev, fr.block, fr.idx = b, b.Succs[0], 0
			f2 := &s2.frames[len(s2.frames)-1]
			f2.prev, f2.block, f2.idx = b, b.Succs[1], 0
			x.run(s2)
			continue
		case *ssa.Jump:
			fr.prev, fr.block, fr.idx = b, b.Succs[0], 0
			continue
		case *ssa.Return:
			var rs []*absVal
			for _, r := range t.Results {
				rs = append(rs, x.eval(st, r))
			}
			if len(st.frames) == 1 {
				x.paths++
				if x.OnReturn != nil {
					st.user["@ret"] = t
					x.OnReturn(x, st, rs)
				}
				return
			}
			callI := fr.call
			cont, _ := st.user["@cont"].([]func(st *xstate, ret *absVal) []xoutcome)
			st.frames = st.frames[:len(st.frames)-1]
			var ret *absVal
			if len(rs) == 1 {
				ret = rs[0]
			} else {
				ret = tupleOf(rs...)
			}
			// continuation registered by the outcome that inlined this frame?
			if len(cont) > 0 && cont[len(cont)-1] != nil {
				k := cont[len(cont)-1]
				st.user["@cont"] = cont[:len(cont)-1]
				outs := k(st, ret)
				x.applyOutcomes(st, callI, outs)
				return
			}
			if len(cont) > 0 {
				st.user["@cont"] = cont[:len(cont)-1]
			}
			if callI != nil {
				st.vals[callI] = ret
			}
			continue
		case *ssa.Panic:
			x.paths++
			if x.OnPanic != nil {
				st.user["@panic"] = t
				x.OnPanic(x, st)
			}
			return
		case *ssa.Select:
			fr.idx++
			if x.Select != nil && t.Blocking {
				outs := x.Select(x, st, t)
				x.applyOutcomesV(st, t, outs)
				return
			}
			st.vals[t] = avSymOf(t)
			continue
		case *ssa.Call:
			fr.idx++
			if x.Call != nil {
				if outs, ok := x.Call(x, st, t); ok {
					x.applyOutcomes(st, t, outs)
					return
				}
			}
			// default: symbolic (seeds may still apply)
			x.w.transfer(st.wstate, t, fr.prev)
			if x.w.OnInstr != nil {
				x.w.OnInstr(x.w, st.wstate, in)
			}
			continue
		case *ssa.Extract:
			fr.idx++
			if x.w.Seed != nil {
				if a := x.w.Seed(x.w, st.wstate, t); a != nil {
					st.vals[t] = a
					if x.w.OnInstr != nil {
						x.w.OnInstr(x.w, st.wstate, in)
					}
					continue
				}
			}
			tv := x.eval(st, t.Tuple)
			if tv.k == avStruct {
				if f, ok := tv.fields[fmt.Sprint(t.Index)]; ok && f != nil {
					st.vals[t] = f
					continue
				}
			}
			x.w.transfer(st.wstate, t, fr.prev)
			continue
		case *ssa.RunDefers, *ssa.Go, *ssa.Defer, *ssa.Send, *ssa.MapUpdate, *ssa.DebugRef:
			fr.idx++
			if d, ok := in.(*ssa.Defer); ok {
				st.defers = append(st.defers, d)
			}
			if x.w.OnInstr != nil {
				x.w.OnInstr(x.w, st.wstate, in)
			}
			continue
		default:
			fr.idx++
			x.w.transfer(st.wstate, in, fr.prev)
			if x.w.OnInstr != nil {
				x.w.OnInstr(x.w, st.wstate, in)
			}
			continue
		}
	}
}

func (x *xwalker) applyOutcomes(st *xstate, call *ssa.Call, outs []xoutcome) {
	var v ssa.Value
	if call != nil {
		v = call
	}
	x.applyOutcomesV(st, v, outs)
}

// applyOutcomesV forks the state per outcome and continues each.
func (x *xwalker) applyOutcomesV(st *xstate, v ssa.Value, outs []xoutcome) {
	for i := range outs {
		o := outs[i]
		s := st
		if i < len(outs)-1 {
			s = st.clone()
		}
		if o.apply != nil {
			o.apply(s)
		}
		if o.inline != nil {
			fn := o.inline
			if fn.Blocks == nil {
				continue
			}
			for j, p := range fn.Params {
				if j < len(o.args) && o.args[j] != nil {
					s.vals[p] = o.args[j]
				} else {
					delete(s.vals, p)
				}
			}
			for fv, val := range o.bind {
				s.vals[fv] = val
			}
			// fresh visit counters for the callee's blocks
			for _, b := range fn.Blocks {
				delete(s.visits, b)
			}
			cont, _ := s.user["@cont"].([]func(st *xstate, ret *absVal) []xoutcome)
			s.user["@cont"] = append(append([]func(st *xstate, ret *absVal) []xoutcome{}, cont...), o.then)
			var callI *ssa.Call
			if c, ok := v.(*ssa.Call); ok {
				callI = c
			}
			s.frames = append(s.frames, xframe{fn: fn, block: fn.Blocks[0], call: callI})
			x.run(s)
			continue
		}
		if v != nil && o.result != nil {
			s.vals[v] = o.result
		} else if v != nil {
			s.vals[v] = avSymOf(v)
		}
		x.run(s)
	}
}

// inlineStatic builds the outcome that inlines a static call.
func (x *xwalker) inlineStatic(st *xstate, call *ssa.Call, fn *ssa.Function) []xoutcome {
	var args []*absVal
	for _, a := range call.Call.Args {
		args = append(args, x.eval(st, a))
	}
	return []xoutcome{{inline: fn, args: args}}
}

func avStr(s string) *absVal { return avC(constant.MakeString(s)) }

// FramesKey renders the control position of every frame.
func (x *xwalker) FramesKey(st *xstate) string {
	var sb strings.Builder
	for _, f := range st.frames {
		fmt.Fprintf(&sb, "%s:%d.%d/", f.fn.Name(), f.block.Index, f.idx)
	}
	return sb.String()
}

// Fingerprint renders the decided part of the abstract state (constants, nil-ness, pointers); symbolic values are
// not distinguished: every condition on them forks both ways, so two states with equal fingerprints have equal futures.
func Fingerprint(st *xstate) string {
	var ks []string
	for v, a := range st.vals {
		if s, ok := fpVal(a); ok {
			name := v.Name()
			if in, isI := v.(ssa.Instruction); isI && in.Parent() != nil {
				name = in.Parent().Name() + "." + name
			} else if pr, isP := v.(*ssa.Parameter); isP {
				name = pr.Parent().Name() + "." + name
			} else if fv, isF := v.(*ssa.FreeVar); isF {
				name = fv.Parent().Name() + "." + name
			}
			ks = append(ks, name+"="+s)
		}
	}
	for k, a := range st.mem {
		if s, ok := fpVal(a); ok {
			ks = append(ks, "m:"+k+"="+s)
		}
	}
	for k := range st.esc {
		ks = append(ks, "e:"+k)
	}
	sort.Strings(ks)
	return strings.Join(ks, ";") + "||" + decisionsOf(st)
}

func fpVal(a *absVal) (string, bool) {
	if a == nil {
		return "", false
	}
	switch a.k {
	case avConst:
		return a.c.ExactString(), true
	case avNil:
		return "nil", true
	case avPtr:
		return "&" + a.key, true
	case avStruct:
		var ks []string
		for f, fv := range a.fields {
			if s, ok := fpVal(fv); ok {
				ks = append(ks, f+":"+s)
			}
		}
		if len(ks) == 0 {
			return "", false
		}
		sort.Strings(ks)
		return "{" + strings.Join(ks, ",") + "}", true
	}
	if a.tag != "" {
		return "«" + a.tag + "»", true
	}
	return "", false
}

func (x *xwalker) StateKey(st *xstate) string {
	n, _ := st.user["node"].(int)
	return fmt.Sprintf("%s|%d|%s", x.FramesKey(st), n, Fingerprint(st))
}

func decisionsOf(st *xstate) string {
	var ks []string
	for k, v := range st.user {
		if strings.HasPrefix(k, "dec:") {
			ks = append(ks, fmt.Sprintf("%s=%v", k[4:], v))
		}
	}
	sort.Strings(ks)
	return strings.Join(ks, ";")
}
