package main

// E0: loader and program facts. Loads /repo's current working tree with
// go/packages (type-checked syntax for every package of the module), builds
// go/ssa with generics instantiated, and exposes lookups by resolved object.

import (
	"fmt"
	"go/ast"
	"go/constant"
	"go/parser"
	"go/token"
	"go/types"
	"os"
	"sort"
	"strings"

	"golang.org/x/tools/go/callgraph"
	"golang.org/x/tools/go/callgraph/cha"
	"golang.org/x/tools/go/callgraph/vta"
	"golang.org/x/tools/go/packages"
	"golang.org/x/tools/go/ssa"
	"golang.org/x/tools/go/ssa/ssautil"
)

const repoModule = "github.com/criyle/go-sandbox"

type pkgT = packages.Package

// Prog is the loaded program.
type Prog struct {
	Dir    string
	Arch   string
	Fset   *token.FileSet
	Pkgs   []*packages.Package // module packages only
	All    map[string]*packages.Package
	SSA    *ssa.Program
	cg     *callgraph.Graph
	nfuncs int
	// Renamed lists declarations that were re-identified under a new name (see anchors.go);
	// MissingDecls lists baseline declarations that exist under no name.
	Renamed      []string
	MissingDecls []string
	// Merged: baseline functions that were inlined into their only caller ("pkgrel::Name" → "pkgrel::Caller").
	Merged map[string]string
}

// RepoDir returns the directory of the repository under analysis.
func RepoDir() string {
	if d := os.Getenv("GSVERIF_REPO"); d != "" {
		return d
	}
	return "/repo"
}

// Load loads ./... of dir for linux/goarch. Declarations renamed since the
// baseline are re-identified and read under their baseline names (anchors.go).
func Load(dir, goarch string) (*Prog, error) {
	p, pkgs, err := loadOnce(dir, goarch, nil)
	if err != nil {
		return nil, err
	}
	bl, err := loadBaseline()
	if err != nil {
		return nil, fmt.Errorf("anchors_baseline.json: %w", err)
	}
	if base := bl.Arch[goarch]; len(base) > 0 {
		alias, log, missing := resolveRenames(p.Pkgs, base)
		if len(alias) > 0 {
			plan := renamePlan(p.Fset, p.Pkgs, alias)
			p2, pkgs2, err2 := loadOnce(dir, goarch, plan)
			if err2 != nil {
				// reading the tree under baseline names does not type-check (a name clash): keep the plain load
				p.MissingDecls = append(missing, "renaming back failed: "+err2.Error())
			} else {
				p, pkgs = p2, pkgs2
				p.Renamed = log
				_, _, missing2 := resolveRenames(p.Pkgs, base)
				p.MissingDecls = missing2
			}
		} else {
			p.MissingDecls = missing
		}
		p.Merged = mergedInto(p.Pkgs, base, nil, p.MissingDecls)
		for k, v := range p.Merged {
			p.Renamed = append(p.Renamed, fmt.Sprintf("func %s: inlined into its only caller %s, which is analysed in its place", k, v))
		}
		sort.Strings(p.Renamed)
	}
	prog, _ := ssautil.AllPackages(pkgs, ssa.InstantiateGenerics)
	prog.Build()
	p.SSA = prog
	// canonical comparisons in every function of the module (canon.go)
	for fn := range ssautil.AllFunctions(prog) {
		if fn.Pkg != nil && strings.HasPrefix(fn.Pkg.Pkg.Path(), repoModule) && fn.Parent() == nil {
			canonicalise(fn)
		}
	}
	return p, nil
}

func loadOnce(dir, goarch string, plan map[string]map[int]string) (*Prog, []*packages.Package, error) {
	env := append(os.Environ(),
		"GOOS=linux", "GOARCH="+goarch, "CGO_ENABLED=0",
		"GOFLAGS=-mod=mod", "GOPROXY=off", "GOSUMDB=off", "GOTOOLCHAIN=local", "GOWORK=off")
	cfg := &packages.Config{
		Mode:  packages.LoadAllSyntax,
		Dir:   dir,
		Env:   env,
		Tests: false,
	}
	if plan != nil {
		cfg.ParseFile = func(fset *token.FileSet, filename string, src []byte) (*ast.File, error) {
			f, err := parser.ParseFile(fset, filename, src, parser.AllErrors|parser.ParseComments)
			if fp := plan[filename]; fp != nil && f != nil {
				ast.Inspect(f, func(n ast.Node) bool {
					if id, ok := n.(*ast.Ident); ok {
						if nn, ok := fp[fset.Position(id.Pos()).Offset]; ok {
							id.Name = nn
						}
					}
					return true
				})
			}
			return f, err
		}
	}
	pkgs, err := packages.Load(cfg, "./...")
	if err != nil {
		return nil, nil, fmt.Errorf("packages.Load: %w", err)
	}
	p := &Prog{Dir: dir, Arch: goarch, All: map[string]*packages.Package{}}
	var errs []string
	packages.Visit(pkgs, nil, func(pk *packages.Package) {
		p.All[pk.PkgPath] = pk
		if strings.HasPrefix(pk.PkgPath, repoModule) {
			for _, e := range pk.Errors {
				errs = append(errs, e.Error())
			}
		}
	})
	if len(errs) > 0 {
		sort.Strings(errs)
		return nil, nil, fmt.Errorf("load/type errors in module packages: %s", strings.Join(errs, "; "))
	}
	for _, pk := range pkgs {
		if strings.HasPrefix(pk.PkgPath, repoModule) {
			p.Pkgs = append(p.Pkgs, pk)
			p.Fset = pk.Fset
		}
	}
	sort.Slice(p.Pkgs, func(i, j int) bool { return p.Pkgs[i].PkgPath < p.Pkgs[j].PkgPath })
	if len(p.Pkgs) < 10 {
		return nil, nil, fmt.Errorf("only %d module packages loaded for GOARCH=%s (expected >= 10)", len(p.Pkgs), goarch)
	}
	return p, pkgs, nil
}

// Pkg returns the module package whose import path is repoModule+"/"+rel
// ("" for the root).
func (p *Prog) Pkg(rel string) *packages.Package {
	path := repoModule
	if rel != "" {
		path += "/" + rel
	}
	return p.All[path]
}

// SSAPkg returns the ssa package for rel.
func (p *Prog) SSAPkg(rel string) *ssa.Package {
	pk := p.Pkg(rel)
	if pk == nil || pk.Types == nil {
		return nil
	}
	return p.SSA.Package(pk.Types)
}

// Func looks up a function or method: rel is the package path relative to
// the module, name is "Func", "T.Method" or "(*T).Method" (pointer-ness is
// ignored: the method set of *T is searched).
func (p *Prog) Func(rel, name string) *ssa.Function {
	f := p.funcByName(rel, name)
	if f == nil && p.Merged != nil {
		n := strings.NewReplacer("(", "", ")", "", "*", "").Replace(name)
		if to, ok := p.Merged[rel+"::"+n]; ok {
			if i := strings.Index(to, "::"); i >= 0 {
				return p.funcByName(to[:i], to[i+2:])
			}
		}
	}
	return f
}

func (p *Prog) funcByName(rel, name string) *ssa.Function {
	sp := p.SSAPkg(rel)
	if sp == nil {
		return nil
	}
	name = strings.NewReplacer("(", "", ")", "", "*", "").Replace(name)
	if i := strings.Index(name, "."); i >= 0 {
		tn, mn := name[:i], name[i+1:]
		obj := sp.Pkg.Scope().Lookup(tn)
		if obj == nil {
			return nil
		}
		named, ok := obj.Type().(*types.Named)
		if !ok {
			return nil
		}
		var wrapper *ssa.Function
		for _, t := range []types.Type{types.NewPointer(named), named} {
			ms := p.SSA.MethodSets.MethodSet(t)
			for i := 0; i < ms.Len(); i++ {
				if ms.At(i).Obj().Name() == mn {
					if f := p.SSA.MethodValue(ms.At(i)); f != nil {
						if f.Synthetic == "" {
							return f
						}
						wrapper = f
					}
				}
			}
		}
		return wrapper
	}
	return sp.Func(name)
}

// AllFuncs returns all source functions (incl. anonymous) of module packages.
func (p *Prog) AllFuncs() []*ssa.Function {
	var out []*ssa.Function
	for fn := range ssautil.AllFunctions(p.SSA) {
		if fn.Pkg == nil || fn.Synthetic != "" {
			continue
		}
		if strings.HasPrefix(fn.Pkg.Pkg.Path(), repoModule) && fn.Blocks != nil {
			out = append(out, fn)
		}
	}
	sort.Slice(out, func(i, j int) bool { return out[i].String() < out[j].String() })
	p.nfuncs = len(out)
	return out
}

// PkgFuncs returns source functions (incl. closures) of one module package.
func (p *Prog) PkgFuncs(rel string) []*ssa.Function {
	path := repoModule
	if rel != "" {
		path += "/" + rel
	}
	var out []*ssa.Function
	for _, f := range p.AllFuncs() {
		if f.Pkg.Pkg.Path() == path {
			out = append(out, f)
		}
	}
	return out
}

// CallGraph returns the VTA call graph (built lazily).
func (p *Prog) CallGraph() *callgraph.Graph {
	if p.cg == nil {
		fns := ssautil.AllFunctions(p.SSA)
		p.cg = vta.CallGraph(fns, cha.CallGraph(p.SSA))
	}
	return p.cg
}

// Pos renders a position relative to the repository root.
func (p *Prog) Pos(pos token.Pos) string {
	if !pos.IsValid() {
		return "-"
	}
	ps := p.Fset.Position(pos)
	f := strings.TrimPrefix(ps.Filename, p.Dir+"/")
	return fmt.Sprintf("%s:%d", f, ps.Line)
}

// ConstOf returns the constant value of a package-level constant.
func (p *Prog) ConstOf(pkgPath, name string) constant.Value {
	pk := p.All[pkgPath]
	if pk == nil {
		return nil
	}
	if c, ok := pk.Types.Scope().Lookup(name).(*types.Const); ok {
		return c.Val()
	}
	return nil
}

// ConstInt returns a package-level integer constant (ok=false if missing).
func (p *Prog) ConstInt(pkgPath, name string) (int64, bool) {
	v := p.ConstOf(pkgPath, name)
	if v == nil {
		return 0, false
	}
	if i, ok := constant.Int64Val(constant.ToInt(v)); ok {
		return i, true
	}
	if u, ok := constant.Uint64Val(constant.ToInt(v)); ok {
		return int64(u), true
	}
	return 0, false
}

// MustConst returns an integer constant of syscall / x/sys/unix, panicking
// (=> UNDECIDED) if absent.
func (p *Prog) MustConst(pkgPath, name string) int64 {
	v, ok := p.ConstInt(pkgPath, name)
	if !ok {
		panic(fmt.Sprintf("constant %s.%s not found", pkgPath, name))
	}
	return v
}

func (p *Prog) Sys(name string) int64 { return p.MustConst("syscall", name) }
func (p *Prog) Unix(name string) int64 {
	return p.MustConst("golang.org/x/sys/unix", name)
}

// SyscallNames builds number -> name for SYS_* of syscall and x/sys/unix.
func (p *Prog) SyscallNames() map[int64]string {
	out := map[int64]string{}
	for _, path := range []string{"golang.org/x/sys/unix", "syscall"} {
		pk := p.All[path]
		if pk == nil {
			continue
		}
		sc := pk.Types.Scope()
		for _, n := range sc.Names() {
			if !strings.HasPrefix(n, "SYS_") {
				continue
			}
			if c, ok := sc.Lookup(n).(*types.Const); ok {
				if i, ok := constant.Int64Val(constant.ToInt(c.Val())); ok {
					nm := strings.ToLower(strings.TrimPrefix(n, "SYS_"))
					if old, dup := out[i]; !dup || len(nm) < len(old) {
						out[i] = nm
					}
				}
			}
		}
	}
	return out
}

// FileOf returns the syntax file containing pos.
func (p *Prog) FileOf(pk *packages.Package, pos token.Pos) *ast.File {
	for _, f := range pk.Syntax {
		if f.Pos() <= pos && pos <= f.End() {
			return f
		}
	}
	return nil
}

// FuncDecl returns the syntax of a named function/method in a package.
func (p *Prog) FuncDecl(rel, name string) (*ast.FuncDecl, *packages.Package) {
	pk := p.Pkg(rel)
	if pk == nil {
		return nil, nil
	}
	name = strings.NewReplacer("(", "", ")", "", "*", "").Replace(name)
	recv, fn := "", name
	if i := strings.Index(name, "."); i >= 0 {
		recv, fn = name[:i], name[i+1:]
	}
	for _, f := range pk.Syntax {
		for _, d := range f.Decls {
			fd, ok := d.(*ast.FuncDecl)
			if !ok || fd.Name.Name != fn {
				continue
			}
			if recv == "" && fd.Recv == nil {
				return fd, pk
			}
			if recv != "" && fd.Recv != nil && len(fd.Recv.List) == 1 {
				t := fd.Recv.List[0].Type
				if s, ok := t.(*ast.StarExpr); ok {
					t = s.X
				}
				if id, ok := t.(*ast.Ident); ok && id.Name == recv {
					return fd, pk
				}
			}
		}
	}
	return nil, nil
}

func (p *Prog) sizes() types.Sizes {
	if s := types.SizesFor("gc", p.Arch); s != nil {
		return s
	}
	return types.SizesFor("gc", "amd64")
}
