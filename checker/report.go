package main

// Obligation bookkeeping, evidence files, VIOLATION / KNOWN-FINDING output.

import (
	"encoding/json"
	"fmt"
	"os"
	"path/filepath"
	"sort"
	"strings"
	"time"
)

func verifDir() string {
	if d := os.Getenv("GSVERIF_HOME"); d != "" {
		return d
	}
	return "/verif"
}

// Obligation is one rule instance evaluated on the current tree.
type Obligation struct {
	Rule   string `json:"rule"`   // rule id, e.g. "C09.1/classifier-table"
	Key    string `json:"key"`    // construct key: package.function + callee/field/constant (never a line)
	Pos    string `json:"pos"`    // file:line, informational only
	Status string `json:"status"` // ok | fail | undecided | advisory
	Msg    string `json:"msg"`
	Detail any    `json:"detail,omitempty"`
}

// Check accumulates obligations for one property.
type Check struct {
	ID       string
	Tier     string
	Seed     int
	P        *Prog
	Obs      []Obligation
	Expects  map[string]int // rule -> minimum instance count
	Explain  string
	Assume   []string
	Extra    map[string]any
	start    time.Time
	Controls []string // positive controls that fired
}

func NewCheck(id, tier string, p *Prog) *Check {
	return &Check{ID: id, Tier: tier, P: p, Expects: map[string]int{}, Extra: map[string]any{}, start: time.Now()}
}

func (c *Check) add(rule, key, pos, status, msg string, detail any) {
	c.Obs = append(c.Obs, Obligation{Rule: c.ID + "." + rule, Key: key, Pos: pos, Status: status, Msg: msg, Detail: detail})
}

// OK records a discharged obligation.
func (c *Check) OK(rule, key, pos, msg string) { c.add(rule, key, pos, "ok", msg, nil) }

// Fail records a violated obligation.
func (c *Check) Fail(rule, key, pos, msg string) { c.add(rule, key, pos, "fail", msg, nil) }

// FailD records a violated obligation with a detail record for the replay file.
func (c *Check) FailD(rule, key, pos, msg string, d any) { c.add(rule, key, pos, "fail", msg, d) }

// Undecided records an obligation the analyser could not decide (counts as failure).
func (c *Check) Undecided(rule, key, pos, msg string) { c.add(rule, key, pos, "undecided", msg, nil) }

// Advisory records a non-armed observation.
func (c *Check) Advisory(rule, key, pos, msg string) { c.add(rule, key, pos, "advisory", msg, nil) }

// Cond records ok/fail depending on cond.
func (c *Check) Cond(cond bool, rule, key, pos, okMsg, failMsg string) bool {
	if cond {
		c.OK(rule, key, pos, okMsg)
	} else {
		c.Fail(rule, key, pos, failMsg)
	}
	return cond
}

// Expect asserts a minimum number of instances for a rule (anti-vacuity).
func (c *Check) Expect(rule string, min int) { c.Expects[c.ID+"."+rule] = min }

// KnownFinding is one entry of known_findings.json.
type KnownFinding struct {
	Property string `json:"property"`
	Rule     string `json:"rule"`
	Key      string `json:"key"`
	What     string `json:"what"`
	Status   string `json:"status"` // "known" (suppresses, prints KNOWN-FINDING) or "fixed" (suppresses nothing)
	Commit   string `json:"commit,omitempty"`
	Repro    string `json:"repro,omitempty"`
}

type knownFile struct {
	Findings []KnownFinding `json:"findings"`
	Fixed    []string       `json:"fixed,omitempty"`
}

func loadKnown() []KnownFinding {
	b, err := os.ReadFile(filepath.Join(verifDir(), "known_findings.json"))
	if err != nil {
		return nil
	}
	var kf knownFile
	if err := json.Unmarshal(b, &kf); err != nil {
		fmt.Fprintf(os.Stderr, "known_findings.json: %v\n", err)
		os.Exit(2)
	}
	return kf.Findings
}

// Finish prints the summary, writes evidence and replay files and returns the exit status.
func (c *Check) Finish() int {
	known := loadKnown()
	if c.P != nil && len(c.P.Renamed) > 0 {
		c.Extra["renamed_declarations"] = c.P.Renamed
		for _, r := range c.P.Renamed {
			fmt.Println("RENAMED " + r)
		}
	}
	if c.P != nil && len(c.P.MissingDecls) > 0 {
		c.Extra["baseline_declarations_not_found"] = c.P.MissingDecls
	}
	counts := map[string]int{}
	for _, o := range c.Obs {
		if o.Status != "advisory" {
			counts[o.Rule]++
		}
	}
	// anti-vacuity
	var rules []string
	for r := range c.Expects {
		rules = append(rules, r)
	}
	sort.Strings(rules)
	for _, r := range rules {
		if counts[r] < c.Expects[r] {
			c.Obs = append(c.Obs, Obligation{Rule: r, Key: "instance-count", Pos: "-", Status: "undecided",
				Msg: fmt.Sprintf("rule matched %d instances, expected at least %d (anchor moved or rule vacuous)", counts[r], c.Expects[r])})
		}
	}
	sort.SliceStable(c.Obs, func(i, j int) bool {
		if c.Obs[i].Rule != c.Obs[j].Rule {
			return c.Obs[i].Rule < c.Obs[j].Rule
		}
		return c.Obs[i].Key < c.Obs[j].Key
	})

	replayDir := filepath.Join(verifDir(), "evidence", "replay")
	os.MkdirAll(replayDir, 0o755)
	// remove stale replay files of this property
	if ents, err := os.ReadDir(replayDir); err == nil {
		for _, e := range ents {
			if strings.HasPrefix(e.Name(), c.ID+"-") {
				os.Remove(filepath.Join(replayDir, e.Name()))
			}
		}
	}

	nOK, nFail, nKnown, nAdv := 0, 0, 0, 0
	perRule := map[string][2]int{}
	var violLines []string
	var knownLines []string
	seenKnown := map[string]bool{}
	for i := range c.Obs {
		o := &c.Obs[i]
		pr := perRule[o.Rule]
		switch o.Status {
		case "ok":
			nOK++
			pr[0]++
		case "advisory":
			nAdv++
		case "fail", "undecided":
			if kf := matchKnown(known, c.ID, o); kf != nil && o.Status == "fail" {
				o.Status = "known-finding"
				nKnown++
				k := kf.Rule + "@" + kf.Key
				if !seenKnown[k] {
					seenKnown[k] = true
					knownLines = append(knownLines, fmt.Sprintf("KNOWN-FINDING: property=%s %s@%s: %s", c.ID, kf.Rule, kf.Key, kf.What))
				}
				pr[1]++
				break
			}
			nFail++
			pr[1]++
			name := fmt.Sprintf("%s-%03d.json", c.ID, nFail)
			path := filepath.Join(replayDir, name)
			rec := map[string]any{
				"property": c.ID, "rule": o.Rule, "key": o.Key, "pos": o.Pos, "status": o.Status,
				"message": o.Msg, "detail": o.Detail, "tier": c.Tier, "goarch": archOf(c.P),
				"replay": fmt.Sprintf("bin/gsverif check %s --tier %s --only '%s'", c.ID, c.Tier, o.Rule),
			}
			b, _ := json.MarshalIndent(rec, "", " ")
			os.WriteFile(path, b, 0o644)
			fmt.Printf("FAILED %s %s @ %s (%s): %s\n", o.Rule, o.Key, o.Pos, o.Status, o.Msg)
			violLines = append(violLines, fmt.Sprintf("VIOLATION property=%s replay=%s", c.ID, path))
		}
		perRule[o.Rule] = pr
	}
	var rr []string
	for r := range perRule {
		rr = append(rr, r)
	}
	sort.Strings(rr)
	for _, r := range rr {
		fmt.Printf("rule %-44s instances=%d failed=%d\n", r, perRule[r][0]+perRule[r][1], perRule[r][1])
	}
	for _, l := range knownLines {
		fmt.Println(l)
	}
	for _, l := range violLines {
		fmt.Println(l)
	}
	c.writeEvidence(nOK, nFail, nKnown, nAdv, perRule)
	fmt.Printf("SUMMARY property=%s tier=%s obligations=%d discharged=%d known=%d failed=%d advisory=%d wall=%.1fs\n",
		c.ID, c.Tier, nOK+nFail+nKnown, nOK, nKnown, nFail, nAdv, time.Since(c.start).Seconds())
	if nFail > 0 {
		return 1
	}
	return 0
}

func archOf(p *Prog) string {
	if p == nil {
		return ""
	}
	return p.Arch
}

func matchKnown(known []KnownFinding, id string, o *Obligation) *KnownFinding {
	for i := range known {
		k := &known[i]
		if k.Status != "known" || k.Property != id {
			continue
		}
		key := o.Key
		// obligations re-evaluated on a secondary architecture carry a " [arch]" suffix: same construct, same finding
		if i := strings.LastIndex(key, " ["); i >= 0 && strings.HasSuffix(key, "]") {
			key = key[:i]
		}
		if k.Rule == o.Rule && (k.Key == o.Key || k.Key == key) {
			return k
		}
	}
	return nil
}

func (c *Check) writeEvidence(nOK, nFail, nKnown, nAdv int, perRule map[string][2]int) {
	type sample struct {
		Rule   string `json:"rule"`
		Key    string `json:"key"`
		Pos    string `json:"pos"`
		Status string `json:"status"`
		Msg    string `json:"msg"`
	}
	var samples []sample
	seen := map[string]int{}
	for _, o := range c.Obs {
		lim := 3
		if o.Status != "ok" {
			lim = 50
		}
		if seen[o.Rule+o.Status] >= lim {
			continue
		}
		seen[o.Rule+o.Status]++
		samples = append(samples, sample{o.Rule, o.Key, o.Pos, o.Status, o.Msg})
	}
	rules := map[string]any{}
	for r, v := range perRule {
		rules[r] = map[string]int{"instances": v[0] + v[1], "not_discharged": v[1]}
	}
	npk, nfn := 0, 0
	if c.P != nil {
		npk = len(c.P.Pkgs)
		if c.P.nfuncs == 0 {
			c.P.AllFuncs()
		}
		nfn = c.P.nfuncs
	}
	cov := map[string]any{
		"explanation":      c.Explain,
		"obligations":      nOK + nFail + nKnown,
		"discharged":       nOK,
		"known_findings":   nKnown,
		"advisories":       nAdv,
		"rules":            rules,
		"samples":          samples,
		"packages_loaded":  npk,
		"functions_in_ssa": nfn,
		"goarch":           archOf(c.P),
		"checker_cmd":      fmt.Sprintf("bin/gsverif check %s --tier %s", c.ID, c.Tier),
		"anti_vacuity":     "every rule has a floor on the number of constructs it must match (listed under rule_floors); a rule below its floor is reported undecided (failure). The seeded-change corpus (/verif/seeded, DESIGN.md 8.6) is the positive test and is run by tools/seed_matrix.sh, not on every check run.",
		"rule_floors":      c.Expects,
		"trusted_base": []string{"go/types and go/ssa of golang.org/x/tools v0.29.0", "VTA call graph (x/tools)",
			"reference tables compiled into the checker (Linux ABI, README status table)", "the Linux kernel honours each syscall"},
		"exhaustive": true,
	}
	for k, v := range c.Extra {
		cov[k] = v
	}
	ev := map[string]any{
		"property_id": c.ID,
		"tier":        c.Tier,
		"seed":        c.Seed,
		"level":       "other",
		"coverage":    cov,
		"assumptions": append([]string{"analysis is of the source as type-checked for GOOS=linux GOARCH=" + archOf(c.P)}, c.Assume...),
		"wall_s":      time.Since(c.start).Seconds(),
		"violations":  nFail,
	}
	b, _ := json.MarshalIndent(ev, "", " ")
	os.MkdirAll(filepath.Join(verifDir(), "evidence"), 0o755)
	os.WriteFile(filepath.Join(verifDir(), "evidence", c.ID+".json"), b, 0o644)
}

// evalStack: the checks currently being evaluated (outermost first); droppedImports counts imports skipped because
// their source was on the stack.
var evalStack []string
var droppedImports int

// importsOff > 0 while a check runs as a source of shared rules.
var importsOff int

// runRegistered evaluates check id into c, keeping the evaluation stack; as a shared-rule source a panic becomes an
// undecided obligation of the source.
func runRegistered(id string, c *Check, asSource bool) {
	evalStack = append(evalStack, id)
	defer func() { evalStack = evalStack[:len(evalStack)-1] }()
	if asSource {
		defer func() {
			if r := recover(); r != nil {
				c.Undecided("E0/panic", "analyser", "-", fmt.Sprintf("analyser panic in shared rule source %s: %v", id, r))
			}
		}()
	}
	registry[id](c)
	for _, h := range postHooks[id] {
		h(c)
	}
}

// subCheckCache holds the obligations of checks evaluated as a source of shared rules (per loaded program).
var subCheckCache = map[string][]Obligation{}

// importObs evaluates check `from` on the same program (once per program) and copies the obligations of rule
// `fromRule` (full name, e.g. "C19.2/truncation-rejected") that satisfy keep (nil = all) into c under rule `as`
// (short name). A rule shared between properties is a necessary condition of each of them; it is evaluated by the
// same code and reported under each property that needs it. Returns the number of obligations imported.
func importObs(c *Check, from, fromRule, as string, keep func(o Obligation) bool) int {
	// A check evaluated as a source supplies only ITS OWN rules (every import names a rule the source decides
	// itself), so its own imports are switched off while it runs: no cycles, and every source is evaluated once
	// per program and cached.
	if importsOff > 0 {
		return 0
	}
	ck := fmt.Sprintf("%p|%s|%s", c.P, from, c.Tier)
	obs, ok := subCheckCache[ck]
	if !ok {
		sub := NewCheck(from, c.Tier, c.P)
		saved := walkerTruncations
		importsOff++
		runRegistered(from, sub, true)
		importsOff--
		walkerTruncations = saved
		obs = sub.Obs
		subCheckCache[ck] = obs
	}
	n := 0
	for _, o := range obs {
		if o.Rule != fromRule && !(strings.HasPrefix(o.Rule, from+".E0/")) {
			continue
		}
		if o.Rule == fromRule && keep != nil && !keep(o) {
			continue
		}
		n++
		c.Obs = append(c.Obs, Obligation{Rule: c.ID + "." + as, Key: o.Key, Pos: o.Pos, Status: o.Status, Msg: o.Msg, Detail: o.Detail})
	}
	return n
}
