package main

// C17 — concurrent sandboxes in one process are independent.

import (
	"fmt"
	"go/types"
	"sort"
	"strings"

	"golang.org/x/tools/go/ssa"
)

func init() {
	register("C17", "Decides the lock, ownership and addressing discipline that makes interleavings harmless: (1) fork-lock pairing across functions — the launch code takes syscall.ForkLock before the clone on every path and never releases it, Start calls it once and releases the lock unconditionally before the first blocking step; host Open holds the read lock from before the reply is awaited until every received descriptor is close-on-exec; every descriptor the library creates outside that lock is born close-on-exec (SOCK_CLOEXEC / O_CLOEXEC / MFD_CLOEXEC constants); (2) no shared mutable package state — every store to a package-level variable of the library outside initialisers is a violation unless allow-listed with a reason; (3) tracer thread affinity — Trace locks the OS thread before Start and defers the unlock; (4) waits are specific — in the ptrace and namespace runners no Wait4 has the constant −1 as pid (every wait names the started pid or its process group), only the container init, sole owner of its pid namespace, waits on −1; (5) per-environment serialisation — every exported host method takes the environment's mutex before it touches the socket, its deadline, or the command/reply channels, and the unlocked helpers are called only from such methods. Does not decide scheduler interleavings as such.", checkC17)
}

func checkC17(c *Check) {
	p := c.P
	// ---------- 1: fork lock ----------
	if r, err := buildE1(p); err != nil {
		c.Undecided("1/fork-lock", "forkexec.launch", "-", err.Error())
	} else {
		child, start := r.Child, r.Start
		var lock, clone ssa.CallInstruction
		nUnlock := 0
		for _, ci := range callInstrs(child) {
			n, _ := calleeOf(ci)
			if n == "(sync.RWMutex).Lock" && strings.Contains(describe(ci.Common().Args[0]), "ForkLock") {
				lock = ci
			}
			if (n == "(sync.RWMutex).Unlock") && strings.Contains(describe(ci.Common().Args[0]), "ForkLock") {
				nUnlock++
			}
			if strings.HasSuffix(n, "/vfork.RawVforkSyscall") && clone == nil {
				clone = ci
			}
		}
		okLock := lock != nil && clone != nil && len(extraConds(controlDeps(child), lock.Block())) == 0
		if okLock {
			for _, ci := range callInstrs(child) {
				if n, _ := calleeOf(ci); strings.HasSuffix(n, "/vfork.RawVforkSyscall") && !dominatesInstr(lock, ci) {
					okLock = false
				}
			}
		}
		c.Cond(okLock, "1/fork-lock", "pkg/forkexec."+child.Name()+":lock-before-clone", p.Pos(child.Pos()), "ForkLock is taken unconditionally before every clone", "the clone can be issued without holding syscall.ForkLock: descriptors created concurrently without close-on-exec leak into the child")
		c.Cond(nUnlock == 0, "1/fork-lock", "pkg/forkexec."+child.Name()+":no-unlock-in-child-code", p.Pos(child.Pos()), "the lock is not released in the code shared with the child", "ForkLock is released inside the function that also runs in the child")
		var callChild, unlock, callParent ssa.CallInstruction
		nCalls := 0
		for _, ci := range callInstrs(start) {
			n, callee := calleeOf(ci)
			if callee == child {
				callChild = ci
				nCalls++
			}
			if callee == r.Parent {
				callParent = ci
			}
			if n == "(sync.RWMutex).Unlock" && strings.Contains(describe(ci.Common().Args[0]), "ForkLock") {
				unlock = ci
			}
		}
		ok := callChild != nil && unlock != nil && callParent != nil && nCalls == 1 && before(callChild, unlock) && before(unlock, callParent) &&
			len(extraCondsEE(controlDeps(start), unlock.Block())) == 0 && unlock.Block() == callChild.Block()
		c.Cond(ok, "1/fork-lock", "pkg/forkexec.Start:unlock-after-clone", p.Pos(start.Pos()), "the lock is released exactly once, right after the clone returned and before the parent blocks", "ForkLock is not released unconditionally between the clone and the first blocking step (deadlock of all launches, or release before the clone)")
	}
	if op := p.Func("container", "container.Open"); op != nil {
		var rlock, runlock, send, mark ssa.CallInstruction
		for _, ci := range callInstrs(op) {
			n, _ := calleeOf(ci)
			switch {
			case n == "(sync.RWMutex).RLock" && strings.Contains(describe(ci.Common().Args[0]), "ForkLock"):
				rlock = ci
			case n == "(sync.RWMutex).RUnlock" && strings.Contains(describe(ci.Common().Args[0]), "ForkLock"):
				runlock = ci
			case strings.HasSuffix(n, "container).sendCmd"):
				send = ci
			case n == "syscall.CloseOnExec":
				mark = ci
			}
		}
		_, isDefer := runlock.(*ssa.Defer)
		ok := rlock != nil && runlock != nil && send != nil && mark != nil && isDefer && dominatesInstr(rlock, send) && dominatesInstr(rlock, mark)
		c.Cond(ok, "1/fork-lock", "container.(host)Open:read-lock", p.Pos(op.Pos()), "descriptors are received and marked close-on-exec under ForkLock.RLock", "host Open does not hold ForkLock.RLock from the request until the received descriptors are close-on-exec: a concurrent launch inherits them")
	}
	checkCloexecBirth(c)
	c.Expect("1/fork-lock", 8)

	// ---------- 2: no shared mutable package state ----------
	checkNoSharedState(c, "2/no-shared-state", func(path string) bool { return !strings.Contains(path, "/cmd/") }, 15)
	checkNoSharedBacking(c, "9/no-shared-backing")
	// package-level mutable containers handed out: a returned value that aliases a package-level slice/map (covered for the filter export in C01)

	// ---------- 3: tracer thread affinity ----------
	if tr := p.Func("ptracer", "Tracer.Trace"); tr != nil {
		var lockT, start ssa.CallInstruction
		deferUnlock := false
		for _, ci := range callInstrs(tr) {
			n, _ := calleeOf(ci)
			switch {
			case n == "runtime.LockOSThread":
				lockT = ci
			case n == "runtime.UnlockOSThread":
				_, deferUnlock = ci.(*ssa.Defer)
			case ci.Common().IsInvoke() && ci.Common().Method.Name() == "Start":
				start = ci
			}
		}
		ok := lockT != nil && start != nil && deferUnlock && dominatesInstr(lockT, start) && len(extraConds(controlDeps(tr), lockT.Block())) == 0
		c.Cond(ok, "3/thread-affinity", "ptracer.Trace", p.Pos(tr.Pos()), "the OS thread is locked before the tracee is started and unlocked on return", "Trace does not lock the OS thread before starting the tracee (ptrace requests would be issued from a thread that is not the tracer)")
		// the lock is paired on EVERY path: no return is reachable after the lock without the unlock having been
		// registered (deferred) or called. A goroutine that ends while still locked makes the Go runtime terminate
		// its OS thread, and every child created from that thread with a parent-death signal (all container inits
		// forked there) is killed.
		if lockT != nil {
			isUnlock := func(in ssa.Instruction) bool {
				if ci, ok := in.(ssa.CallInstruction); ok {
					n, _ := calleeOf(ci)
					return n == "runtime.UnlockOSThread"
				}
				return false
			}
			leaks, trail := pathQuery{fn: tr, from: lockT, target: isReturnOrPanic, stop: isUnlock}.find()
			c.Cond(!leaks, "3/thread-affinity", "ptracer.Trace:unlock-on-every-path", p.Pos(lockT.Pos()), "every path after LockOSThread has registered or made the unlock",
				"Trace can return with its OS thread still locked ("+p.trail(trail)+"): when the goroutine ends the runtime destroys the thread, which kills every container init forked from it (parent-death signal)")
		}
		// nobody else undoes the pin: LockOSThread nests by count, so an UnlockOSThread without its own LockOSThread
		// (anywhere below Trace: the launch, the sync handshake, a handler) cancels the tracer's lock, the goroutine
		// migrates, and every later ptrace request fails with ESRCH — the error the tracer deliberately swallows
		nUnl, badUnl, badPos := 0, "", ""
		for _, fn := range p.AllFuncs() {
			if !inModule(fn) || fn.Pkg == nil || strings.HasSuffix(fn.Pkg.Pkg.Path(), "_test") {
				continue
			}
			var locks, unlocks []ssa.CallInstruction
			for _, ci := range callInstrs(fn) {
				switch n, _ := calleeOf(ci); n {
				case "runtime.LockOSThread":
					locks = append(locks, ci)
				case "runtime.UnlockOSThread":
					unlocks = append(unlocks, ci)
				}
			}
			for _, u := range unlocks {
				nUnl++
				paired := false
				for _, l := range locks {
					if dominatesInstr(l, u) {
						paired = true
					}
				}
				if (!paired || len(unlocks) > len(locks)) && badUnl == "" {
					badUnl, badPos = funcName(fn), p.Pos(u.Pos())
				}
			}
		}
		if badPos == "" {
			badPos = p.Pos(tr.Pos())
		}
		c.Cond(badUnl == "" && nUnl > 0, "3/thread-affinity", "module:unpaired-unlock", badPos, fmt.Sprintf("all %d UnlockOSThread calls undo a LockOSThread of the same function", nUnl),
			"runtime.UnlockOSThread in "+badUnl+" has no LockOSThread of its own before it: it cancels the lock of a caller (the tracer's thread pin), after which ptrace requests are issued from the wrong thread")
		c.Expect("3/thread-affinity", 3)
	}
	// the process-wide switch of the string reader flips only when the primitive does not exist (the assumption
	// under which it is allow-listed above): rule C02.7, and the sync-pair descriptors are released exactly once: C12.2
	{
		sub := NewCheck("C02", c.Tier, c.P)
		checkC02Reader(sub)
		n := 0
		for _, o := range sub.Obs {
			if strings.Contains(o.Key, ":store(") {
				n++
				c.Obs = append(c.Obs, Obligation{Rule: "C17.6/shared-switch-and-descriptors", Key: o.Key, Pos: o.Pos, Status: o.Status, Msg: o.Msg})
			}
		}
		sub12 := NewCheck("C12", c.Tier, c.P)
		checkDescriptorPairing(sub12)
		for _, o := range sub12.Obs {
			if strings.HasSuffix(o.Key, ":once") {
				c.Obs = append(c.Obs, Obligation{Rule: "C17.6/shared-switch-and-descriptors", Key: o.Key, Pos: o.Pos, Status: o.Status, Msg: o.Msg})
			}
		}
		c.Expect("6/shared-switch-and-descriptors", 3)
	}

	// ---------- 4: waits are specific ----------
	nWait := 0
	for _, rel := range []string{"ptracer", "runner/unshare", "runner/ptrace", "pkg/forkexec"} {
		for _, fn := range p.PkgFuncs(rel) {
			for _, ci := range callInstrs(fn) {
				n, _ := calleeOf(ci)
				if !strings.HasSuffix(n, ".Wait4") {
					continue
				}
				nWait++
				a := ci.Common().Args[0]
				v, isConst := constInt(a)
				c.Cond(!(isConst && v < 0) && !isConst, "4/specific-waits", fmt.Sprintf("%s.%s:Wait4#%d", rel, fn.Name(), nWait), p.Pos(ci.Pos()), "waits for "+describe(a), fmt.Sprintf("Wait4(%s): a runner waits for ANY child of the process and steals wait statuses of concurrent runs", describe(a)))
			}
		}
	}
	c.Expect("4/specific-waits", 5)

	// ---------- 5: per-environment serialisation ----------
	checkHostMutex(c)

	// ---------- 7: nothing process-wide is consulted or held ----------
	// (a) resource usage of a run comes from the rusage of its own wait4 only: no getrusage(RUSAGE_CHILDREN) /
	//     times(2), whose counters include every other run reaped meanwhile
	var acct []string
	for _, pk := range p.Pkgs {
		if strings.Contains(pk.PkgPath, "/cmd/") {
			continue
		}
		rel := strings.TrimPrefix(pk.PkgPath, repoModule+"/")
		for _, fn := range p.PkgFuncs(rel) {
			for _, ci := range callInstrs(fn) {
				n, _ := calleeOf(ci)
				short := n[strings.LastIndex(n, ".")+1:]
				if (short == "Getrusage" || short == "Times") && (strings.HasPrefix(n, "syscall.") || strings.HasPrefix(n, "golang.org/x/sys/unix.")) {
					acct = append(acct, rel+"."+fn.Name()+"@"+p.Pos(ci.Pos()))
				}
			}
		}
	}
	c.Cond(len(acct) == 0, "7/nothing-process-wide", "library:no-process-wide-accounting", "-", "no getrusage / times in the library packages", "process-wide accounting is consulted at "+strings.Join(acct, ", ")+": a run is charged the resources of every other run reaped while it was running")
	// (b) a system call that can block for long (read, wait4, recvmsg, poll ...) is issued from ordinary Go code
	//     through syscall.Syscall, which tells the scheduler; through RawSyscall the goroutine keeps its processor
	//     while blocked, and GOMAXPROCS such goroutines stop the whole process. (The forked child is exempt: it
	//     must not enter the scheduler.)
	if r, err := buildE1(p); err == nil {
		childSide := map[*ssa.Function]bool{r.Child: true}
		for f := range r.ExitFns {
			childSide[f] = true
		}
		for _, ci := range callInstrsDeep(r.Child, 2) {
			if callee := ci.Common().StaticCallee(); callee != nil && inModule(callee) {
				childSide[callee] = true
			}
		}
		blocking := map[int64]string{p.Sys("SYS_READ"): "read", p.Sys("SYS_WAIT4"): "wait4", p.Sys("SYS_RECVMSG"): "recvmsg", p.Sys("SYS_PPOLL"): "ppoll", p.Sys("SYS_NANOSLEEP"): "nanosleep"}
		var raw []string
		nSys := 0
		for _, pk := range p.Pkgs {
			if strings.Contains(pk.PkgPath, "/cmd/") {
				continue
			}
			rel := strings.TrimPrefix(pk.PkgPath, repoModule+"/")
			for _, fn := range p.PkgFuncs(rel) {
				root := fn
				for root.Parent() != nil {
					root = root.Parent()
				}
				if childSide[root] {
					continue
				}
				for _, ci := range callInstrs(fn) {
					n, _ := calleeOf(ci)
					if len(ci.Common().Args) == 0 {
						continue
					}
					nr, isC := constInt(ci.Common().Args[0])
					if !isC {
						continue
					}
					name, isBlocking := blocking[nr]
					if !isBlocking {
						continue
					}
					if isRawSyscallName(n) {
						raw = append(raw, name+" in "+rel+"."+fn.Name()+"@"+p.Pos(ci.Pos()))
					} else if n == "syscall.Syscall" || n == "syscall.Syscall6" {
						nSys++
					}
				}
			}
		}
		c.Cond(len(raw) == 0 && nSys >= 1, "7/nothing-process-wide", "library:blocking-calls-tell-the-scheduler", "-", fmt.Sprintf("%d blocking raw system call site(s) outside the forked child, all through syscall.Syscall", nSys),
			"a blocking system call is issued through RawSyscall outside the forked child ("+strings.Join(raw, ", ")+"): the goroutine keeps its scheduler slot while blocked; as many concurrent launches as GOMAXPROCS freeze the process")
	}
	c.Expect("7/nothing-process-wide", 2)
}

// checkCloexecBirth: descriptors created outside the fork lock are born close-on-exec.
func checkCloexecBirth(c *Check) {
	p := c.P
	for _, pk := range p.Pkgs {
		if strings.Contains(pk.PkgPath, "/cmd/") {
			continue
		}
		rel := strings.TrimPrefix(pk.PkgPath, repoModule+"/")
		for _, fn := range p.PkgFuncs(rel) {
			for _, ci := range callInstrs(fn) {
				n, _ := calleeOf(ci)
				a := ci.Common().Args
				switch {
				case strings.HasSuffix(n, ".Socketpair"):
					v, ok := constInt(a[1])
					c.Cond(ok && v&p.Sys("SOCK_CLOEXEC") != 0, "1/fork-lock", rel+"."+fn.Name()+":Socketpair-cloexec", p.Pos(ci.Pos()), "socket pair is born close-on-exec", "socketpair without SOCK_CLOEXEC: between creation and the later CloseOnExec a concurrent launch inherits both ends")
				case n == "golang.org/x/sys/unix.MemfdCreate":
					v, ok := constInt(a[1])
					c.Cond(ok && v&p.Unix("MFD_CLOEXEC") != 0, "1/fork-lock", rel+"."+fn.Name()+":MemfdCreate-cloexec", p.Pos(ci.Pos()), "memfd is born close-on-exec", "memfd_create without MFD_CLOEXEC")
				case n == "golang.org/x/sys/unix.Open" || n == "syscall.Open":
					v, ok := constInt(a[1])
					c.Cond(ok && v&p.Sys("O_CLOEXEC") != 0, "1/fork-lock", rel+"."+fn.Name()+":Open-cloexec", p.Pos(ci.Pos()), "raw open is close-on-exec", "raw open without O_CLOEXEC")
				}
			}
		}
	}
}

// checkHostMutex: exported methods of the host-side environment lock first.
func checkHostMutex(c *Check) {
	p := c.P
	pk := p.Pkg("container")
	obj := pk.Types.Scope().Lookup("container")
	if obj == nil {
		c.Undecided("5/env-mutex", "container.container", "-", "type not found")
		return
	}
	named := obj.Type().(*types.Named)
	ms := p.SSA.MethodSets.MethodSet(types.NewPointer(named))
	// helpers that touch the transport without locking
	touchesTransport := func(ci ssa.CallInstruction) bool {
		n, callee := calleeOf(ci)
		if callee != nil && callee.Pkg != nil && strings.HasSuffix(callee.Pkg.Pkg.Path(), "/container") {
			// the transport helpers, as methods or as functions taking the environment as their first argument
			switch callee.Name() {
			case "sendCmd", "recvReply", "recvAckReply", "execveSyncKill", "waitForDone":
				if operatesOn(callee, "container.container") {
					return true
				}
			}
		}
		// methods on c.socket (deadline, send, recv) — not Close (Destroy closes before locking by design)
		if len(ci.Common().Args) > 0 && strings.HasSuffix(describe(ci.Common().Args[0]), ".socket") || (len(ci.Common().Args) > 0 && strings.Contains(describe(ci.Common().Args[0]), ".socket.")) {
			return !strings.HasSuffix(n, ").Close")
		}
		return false
	}
	lockers := map[*ssa.Function]bool{}
	var unlocked []*ssa.Function
	n := 0
	// the environment's operations: its methods, and functions of the package that take it as their first argument
	var ops []*ssa.Function
	for i := 0; i < ms.Len(); i++ {
		if fn := p.SSA.MethodValue(ms.At(i)); fn != nil {
			ops = append(ops, fn)
		}
	}
	for _, fn := range p.PkgFuncs("container") {
		if fn.Signature.Recv() == nil && operatesOn(fn, "container.container") {
			ops = append(ops, fn)
		}
	}
	for _, fn := range ops {
		if fn == nil || fn.Synthetic != "" || fn.Blocks == nil {
			continue
		}
		var lock ssa.CallInstruction
		deferUnlock := false
		var unlocks []ssa.Instruction
		for _, ci := range callInstrs(fn) {
			nm, _ := calleeOf(ci)
			if nm == "(sync.Mutex).Lock" && strings.HasSuffix(describe(ci.Common().Args[0]), ".mu") && lock == nil {
				lock = ci
			}
			if nm == "(sync.Mutex).Unlock" && strings.HasSuffix(describe(ci.Common().Args[0]), ".mu") {
				if _, isD := ci.(*ssa.Defer); isD {
					deferUnlock = true
				} else {
					unlocks = append(unlocks, ci)
				}
			}
		}
		var touches []ssa.CallInstruction
		for _, ci := range callInstrs(fn) {
			if touchesTransport(ci) {
				touches = append(touches, ci)
			}
		}
		if lock != nil {
			lockers[fn] = true
			n++
			bad := ""
			for _, t := range touches {
				if !dominatesInstr(lock, t) {
					bad = p.Pos(t.Pos())
				}
			}
			// released on return: by defer, or explicitly on every path to a return with no transport use after it
			released := deferUnlock
			if !released && len(unlocks) > 0 {
				isUnl := func(in ssa.Instruction) bool {
					for _, u := range unlocks {
						if u == in {
							return true
						}
					}
					return false
				}
				held, _ := pathQuery{fn: fn, from: lock, target: isReturnOrPanic, stop: isUnl}.find()
				released = !held
				for _, u := range unlocks {
					for _, t := range touches {
						if anyReach(u.Block(), t.Block()) && (u.Block() != t.Block() || before(u.(ssa.CallInstruction), t)) {
							released = false
							bad = p.Pos(t.Pos())
						}
					}
				}
			}
			c.Cond(bad == "" && released && len(extraConds(controlDeps(fn), lock.Block())) == 0, "5/env-mutex", "container.(host)"+fn.Name()+":lock-first", p.Pos(fn.Pos()),
				"takes the environment mutex before touching the transport and releases it on return", "touches the environment's socket/channels at "+bad+" before taking the mutex (or does not release it by defer): a concurrent call's deadline, command or reply is disturbed")
		} else if len(touches) > 0 {
			unlocked = append(unlocked, fn)
		}
	}
	// unlocked helpers are called only from lockers (or from other unlocked helpers that are)
	for _, h := range unlocked {
		if h.Name() == "sendLoop" || h.Name() == "recvLoop" {
			continue // the two transport goroutines own the socket's send/receive side
		}
		okCallers := true
		nCallers := 0
		var visit func(f *ssa.Function, depth int) bool
		visit = func(f *ssa.Function, depth int) bool {
			if lockers[f] || f.Name() == "sendLoop" || f.Name() == "recvLoop" {
				return true // a locker, or one of the two transport goroutines (each owns one direction of the socket)
			}
			if depth == 0 {
				return false
			}
			callers := 0
			for _, g := range p.PkgFuncs("container") {
				for _, ci := range callInstrs(g) {
					if _, callee := calleeOf(ci); callee == f {
						callers++
						if !visit(g, depth-1) {
							return false
						}
					}
				}
			}
			return callers > 0
		}
		okCallers = visit(h, 3)
		nCallers++
		c.Cond(okCallers, "5/env-mutex", "container.(host)"+h.Name()+":called-under-lock", p.Pos(h.Pos()), "only called with the mutex held", "this helper touches the transport without the mutex and is reachable from a method that does not hold it")
	}
	// the mutex that is locked is the environment's: no method or function of the module receives a lock-holding
	// struct by value (it would lock a private copy and exclude nobody)
	nLock, badLock, badLockPos := 0, "", ""
	for _, fn := range p.AllFuncs() {
		if !inModule(fn) || fn.Pkg == nil || strings.HasSuffix(fn.Pkg.Pkg.Path(), "_test") || fn.Synthetic != "" {
			continue
		}
		for _, pr := range fn.Params {
			if lk := lockInside(pr.Type(), 0); lk != "" {
				nLock++
				if badLock == "" {
					badLock = fmt.Sprintf("%s receives %s (which contains %s) by value", funcName(fn), pr.Type().String(), lk)
					badLockPos = p.Pos(fn.Pos())
				}
			}
		}
	}
	if badLockPos == "" {
		badLockPos = "-"
	}
	c.Cond(badLock == "", "5/env-mutex", "module:locks-not-copied", badLockPos, "no function receives a lock-holding value by copy",
		badLock+": the copy's lock is a different lock, so calls that are meant to exclude each other (two Execve on one environment) run concurrently on the shared socket and take each other's replies")
	c.Expect("5/env-mutex", 11)
}

// checkNoSharedState: no package-level variable of the selected packages is
// written, updated or handed out by address at run time (outside package
// initialisation), except the allow-listed ones. State kept in a package
// variable is shared by concurrent runs and survives from one run / one
// trapped system call to the next; every guarantee of the form "decided from
// the state of THIS run / THIS stop" needs its absence.
func checkNoSharedState(c *Check, rule string, sel func(pkgPath string) bool, expect int) {
	p := c.P
	allow := map[string]string{
		repoModule + "/ptracer.UseVMReadv": "monotone true→false switch between two equivalent read primitives after ENOSYS (unsynchronised write; recorded as an assumption)",
	}
	for _, pk := range p.Pkgs {
		if !sel(pk.PkgPath) {
			continue
		}
		sp := p.SSA.Package(pk.Types)
		if sp == nil {
			continue
		}
		var names []string
		for n, m := range sp.Members {
			if _, ok := m.(*ssa.Global); ok && !strings.HasPrefix(n, "init$") {
				names = append(names, n)
			}
		}
		sort.Strings(names)
		for _, n := range names {
			g := sp.Members[n].(*ssa.Global)
			ws := append(storesToGlobal(p, g), sharedUsesOfGlobal(p, g)...)
			key := strings.TrimPrefix(pk.PkgPath, repoModule+"/") + "." + n
			full := pk.PkgPath + "." + n
			switch {
			case len(ws) == 0:
				c.OK(rule, key, "-", "never written after initialisation")
			case allow[full] != "":
				c.OK(rule, key, ws[0], "allow-listed: "+allow[full])
				c.Assume = append(c.Assume, "package variable "+full+" is written at run time: "+allow[full])
			default:
				c.Fail(rule, key, ws[0], "package-level variable is written / handed out by address at run time ("+strings.Join(ws, ", ")+"): it is shared by concurrent runs and carries state from one run or trapped call to the next")
			}
		}
	}
	c.Expect(rule, expect)
}

// lockInside: t holds (by value, not behind a pointer) a sync lock; returns its name.
func lockInside(t types.Type, depth int) string {
	if depth > 6 {
		return ""
	}
	if n, ok := t.(*types.Named); ok && n.Obj().Pkg() != nil {
		if n.Obj().Pkg().Path() == "sync" {
			switch n.Obj().Name() {
			case "Mutex", "RWMutex", "Once", "WaitGroup", "Cond", "Map", "Pool":
				return "sync." + n.Obj().Name()
			}
		}
	}
	switch u := t.Underlying().(type) {
	case *types.Struct:
		for i := 0; i < u.NumFields(); i++ {
			if l := lockInside(u.Field(i).Type(), depth+1); l != "" {
				return l
			}
		}
	case *types.Array:
		return lockInside(u.Elem(), depth+1)
	}
	return ""
}

// hasRefInside: a value of type t carries a slice or map (directly or in a field), i.e. copying it shares storage.
func hasRefInside(t types.Type, depth int) bool {
	if depth > 4 {
		return false
	}
	switch u := t.Underlying().(type) {
	case *types.Slice, *types.Map:
		return true
	case *types.Pointer:
		return hasRefInside(u.Elem(), depth+1)
	case *types.Struct:
		for i := 0; i < u.NumFields(); i++ {
			if hasRefInside(u.Field(i).Type(), depth+1) {
				return true
			}
		}
	}
	return false
}

// globalBacked: v is (a copy of, a field of, a slice of, or a pointer to a local copy of) a value read from a
// package-level variable of the module.
func globalBacked(v ssa.Value, depth int, seen map[ssa.Value]bool) *ssa.Global {
	if depth > 10 || v == nil || seen[v] {
		return nil
	}
	seen[v] = true
	switch x := v.(type) {
	case *ssa.Global:
		if x.Pkg != nil && strings.HasPrefix(x.Pkg.Pkg.Path(), repoModule) {
			return x
		}
	case *ssa.UnOp:
		return globalBacked(x.X, depth+1, seen)
	case *ssa.FieldAddr:
		return globalBacked(x.X, depth+1, seen)
	case *ssa.Field:
		return globalBacked(x.X, depth+1, seen)
	case *ssa.Slice:
		return globalBacked(x.X, depth+1, seen)
	case *ssa.ChangeType:
		return globalBacked(x.X, depth+1, seen)
	case *ssa.Phi:
		for _, e := range x.Edges {
			if g := globalBacked(e, depth+1, seen); g != nil {
				return g
			}
		}
	case *ssa.Alloc:
		if x.Referrers() != nil {
			for _, r := range *x.Referrers() {
				if st, ok := r.(*ssa.Store); ok && st.Addr == ssa.Value(x) {
					if g := globalBacked(st.Val, depth+1, seen); g != nil {
						return g
					}
				}
			}
		}
	}
	return nil
}

// checkNoSharedBacking: no library function hands out a value that shares slice or map storage with a package-level
// variable: two callers (two sandboxes being configured concurrently) would append into / update the same storage.
func checkNoSharedBacking(c *Check, rule string) {
	p := c.P
	n, bad, badPos := 0, "", ""
	for _, fn := range p.AllFuncs() {
		if !inModule(fn) || fn.Pkg == nil || strings.HasSuffix(fn.Pkg.Pkg.Path(), "_test") || strings.Contains(fn.Pkg.Pkg.Path(), "/cmd/") || fn.Synthetic != "" {
			continue
		}
		for _, b := range fn.Blocks {
			ret, ok := b.Instrs[len(b.Instrs)-1].(*ssa.Return)
			if !ok {
				continue
			}
			for i := range ret.Results {
				v := retVal(ret, i)
				if v == nil || !hasRefInside(v.Type(), 0) {
					continue
				}
				n++
				if g := globalBacked(v, 0, map[ssa.Value]bool{}); g != nil && bad == "" {
					bad = fmt.Sprintf("%s returns a value backed by the package variable %s", funcName(fn), g.Name())
					badPos = p.Pos(ret.Pos())
				}
			}
		}
	}
	if badPos == "" {
		badPos = "-"
	}
	c.Cond(bad == "" && n > 0, rule, "module:returns-share-no-package-storage", badPos, fmt.Sprintf("none of %d slice/map-carrying results is backed by a package variable", n),
		bad+": every caller receives the same backing storage, so what one sandbox's set-up appends or stores shows up in another's")
	c.Expect(rule, 1)
}
