package main

// C03 — handler verdicts are enforced: banned and killed syscalls never take effect.

import (
	"fmt"
	"go/constant"
	"go/token"
	"go/types"
	"sort"
	"strings"

	"golang.org/x/tools/go/ssa"
)

func init() {
	register("C03", "Decides, on the tracer's decision structure: (1) verdict dispatch by constant propagation — Ban ⇒ the result of the register-rewrite helper is returned, Kill ⇒ a non-nil error that the caller maps to Disallowed Syscall and ends the run, Allow ⇒ nil and no register write (who-may-call: register-writing primitives are reachable only through the skip helper, which is called only from the Ban arm); (2) the skip helper stores −1 into the syscall-number register of the saved register file and writes that same register file back, returning the error (amd64; arm64/arm in the thorough tier); SetReturnValue stores into the return register of the same file; (3) every Ban returned by the runner's handler has set the return value to −BanRet, unknown verdicts and unknown syscall numbers kill; (4) every newly seen pid gets PTRACE_SETOPTIONS ⊇ TRACESECCOMP|EXITKILL|TRACEFORK|TRACEVFORK|TRACECLONE|TRACEEXEC before it is continued; (5) traps are handled only after the exec event, which is the only writer of that flag; (6) E1: with ptrace and a filter the child does TRACEME < self-SIGSTOP < filter load (TSYNC) < exec, filter loaded exactly once iff given; (7) the filter's default/unset action is KILL_PROCESS and SIGSYS is classified as Disallowed Syscall. Does not decide that the kernel skips a syscall whose number is −1, nor tracer/tracee event ordering.", checkC03)
	thoroughArchs["C03"] = []string{"arm64", "arm"}
}

func checkC03(c *Check) {
	p := c.P
	act := func(n string) int64 { return p.MustConst(repoModule+"/ptracer", n) }
	sc := loadStatusConsts(p)

	// ---------- 1: verdict dispatch ----------
	var handleTrap, handle, skip *ssa.Function
	for _, f := range p.PkgFuncs("ptracer") {
		sig := f.Signature
		if sig.Recv() != nil && sig.Results().Len() == 4 && sig.Params().Len() == 2 && strings.HasSuffix(sig.Params().At(1).Type().String(), "WaitStatus") {
			handle = f
		}
	}
	// the trap handler: method invoking Handler.Handle
	for _, f := range p.PkgFuncs("ptracer") {
		for _, ci := range callInstrs(f) {
			if ci.Common().IsInvoke() && ci.Common().Method.Name() == "Handle" {
				handleTrap = f
			}
		}
	}
	if handle == nil || handleTrap == nil {
		c.Undecided("1/verdict-dispatch", "ptracer.handleTrap", "-", "cannot resolve the wait-status handler / the trap handler (the function invoking Handler.Handle)")
		return
	}
	key := "ptracer." + handleTrap.Name()
	pos := p.Pos(handleTrap.Pos())
	// register-writing primitives
	isRegWrite := func(ci ssa.CallInstruction) bool {
		n, _ := calleeOf(ci)
		if n == "syscall.PtraceSetRegs" || n == "golang.org/x/sys/unix.PtraceSetRegs" || n == "golang.org/x/sys/unix.PtraceSetRegSetArm64" {
			return true
		}
		if strings.HasSuffix(n, "ptracer.ptrace") || n == "syscall.Syscall6" || n == "syscall.RawSyscall6" {
			// raw ptrace request: SETREGS / SETREGSET / SET_SYSCALL / POKEUSER
			args := ci.Common().Args
			idx := 0
			if strings.HasPrefix(n, "syscall.") {
				if nr, ok := constInt(args[0]); !ok || nr != p.Sys("SYS_PTRACE") {
					return false
				}
				idx = 1
			}
			if req, ok := constInt(args[idx]); ok {
				switch req {
				case p.Sys("PTRACE_SETREGS"), p.Sys("PTRACE_SETREGSET"), 23 /* PTRACE_SET_SYSCALL (arm) */, p.Sys("PTRACE_POKEUSR"):
					return true
				}
			}
		}
		return false
	}
	for _, mode := range []struct {
		label string
		v     int64
	}{{"TraceAllow", act("TraceAllow")}, {"TraceBan", act("TraceBan")}, {"TraceKill", act("TraceKill")}} {
		var outs []string
		w := &walker{fn: handleTrap}
		w.Seed = func(w *walker, st *wstate, v ssa.Value) *absVal {
			switch x := v.(type) {
			case *ssa.Call:
				if x.Call.IsInvoke() && x.Call.Method.Name() == "Handle" {
					return avInt(mode.v)
				}
				if _, callee := calleeOf(x); callee != nil && inModule(callee) && reachesCall(callee, 3, isRegWrite) {
					skip = callee
					return avTag("skip-result")
				}
				if isErrorType(x.Type()) {
					return &absVal{k: avNil} // every other primitive succeeds
				}
			case *ssa.Extract:
				if isErrorType(x.Type()) {
					return &absVal{k: avNil}
				}
				if call, ok := x.Tuple.(*ssa.Call); ok && !call.Call.IsInvoke() {
					return &absVal{k: avPtr, key: "X:ctx"}
				}
			case *ssa.UnOp:
				// ph.Handler != nil
				if x.Op == token.MUL && strings.HasSuffix(describe(x), ".Handler") {
					return &absVal{k: avPtr, key: "X:handler"}
				}
			}
			return nil
		}
		w.OnReturn = func(w *walker, st *wstate, ret *ssa.Return, rs []*absVal) { outs = append(outs, rs[0].String()) }
		w.Run()
		sort.Strings(outs)
		got := strings.Join(uniq(outs), "|")
		var ok bool
		var want string
		switch mode.label {
		case "TraceAllow":
			want, ok = "nil", got == "nil"
		case "TraceBan":
			want, ok = "the result of the skip helper", got == "«skip-result»"
		case "TraceKill":
			want = "a non-nil error"
			ok = got != "nil" && got != "" && !strings.Contains(got, "nil") && !strings.Contains(got, "skip-result")
		}
		c.Cond(ok, "1/verdict-dispatch", key+":"+mode.label, pos, mode.label+" ⇒ returns "+want, fmt.Sprintf("%s ⇒ the trap handler returns %s, want %s", mode.label, got, want))
	}
	// caller: non-nil error (other than the vanished-tracee case) ⇒ DisallowedSyscall and the run ends
	{
		var outs []string
		pidParam := handle.Params[1]
		w := &walker{fn: handle}
		w.Seed = func(w *walker, st *wstate, v ssa.Value) *absVal {
			switch x := v.(type) {
			case *ssa.Call:
				// errors.Is(err, ESRCH) on the handler's error: no
				if e, _, ok := errorsIsConst(x); ok && strings.Contains(describe(e), "handleTrap") {
					return avBool(false)
				}
				n, callee := calleeOf(x)
				switch {
				case isWaitStatusMethod(n, "Exited"), isWaitStatusMethod(n, "Signaled"):
					return avBool(false)
				case isWaitStatusMethod(n, "Stopped"):
					return avBool(true)
				case isWaitStatusMethod(n, "StopSignal"):
					return avInt(p.Sys("SIGTRAP"))
				case isWaitStatusMethod(n, "TrapCause"):
					return avInt(p.Unix("PTRACE_EVENT_SECCOMP"))
				case callee == handleTrap:
					return avTag("policy-error")
				case strings.HasSuffix(n, "setPtraceOption") || strings.HasSuffix(n, ".PtraceSetOptions"):
					return &absVal{k: avNil}
				}
			case *ssa.BinOp:
				// err == ESRCH: no
				if x.Op == token.EQL && strings.Contains(describe(x), "handleTrap") {
					return avBool(false)
				}
				if x.Op == token.NEQ && isNilConst(x.Y) && strings.Contains(describe(x.X), "handleTrap") {
					return avBool(true)
				}
			case *ssa.UnOp:
				if x.Op == token.MUL && strings.HasSuffix(describe(x), ".execved") {
					return avBool(true)
				}
			}
			_ = pidParam
			return nil
		}
		// ... and the offender is not resumed on that path: no PtraceCont before the return, none deferred (the kill
		// is sent by the caller's cleanup after this function returned; a resumed tracee executes the refused call)
		resumed := ""
		isCont := func(ci ssa.CallInstruction) bool {
			n, _ := calleeOf(ci)
			return strings.HasSuffix(n, ".PtraceCont") || strings.HasSuffix(n, ".PtraceSyscall")
		}
		w.OnInstr = func(w *walker, st *wstate, in ssa.Instruction) {
			if ci, ok := in.(ssa.CallInstruction); ok && isCont(ci) {
				if _, isDefer := in.(*ssa.Defer); !isDefer {
					if _, seen := st.vals[handleTrapCallOf(handle, handleTrap)]; seen {
						st.noteStr("cont", p.Pos(in.Pos()))
					}
				}
			}
		}
		w.OnReturn = func(w *walker, st *wstate, ret *ssa.Return, rs []*absVal) {
			outs = append(outs, statusName(sc, rs[0]))
			if pos := st.notedStr("cont"); pos != "" && resumed == "" {
				resumed = pos
			}
			for _, d := range st.defers {
				if isCont(d) && resumed == "" {
					resumed = p.Pos(d.Pos()) + " (deferred)"
				}
			}
		}
		w.Run()
		got := strings.Join(uniq(outs), "|")
		c.Cond(got == "StatusDisallowedSyscall", "1/verdict-dispatch", "ptracer."+handle.Name()+":policy-error", p.Pos(handle.Pos()), "a policy error from the trap handler ends the run as Disallowed Syscall", "a policy error from the trap handler yields "+got)
		c.Cond(resumed == "", "1/verdict-dispatch", "ptracer."+handle.Name()+":kill-does-not-resume", p.Pos(handle.Pos()), "the offender is not continued on the kill path", "on the kill path the tracee is continued at "+resumed+" before the kill reaches it: the refused system call can execute")
	}
	// who-may-call: register writes only through the skip helper, which only the Ban arm calls
	if skip == nil {
		c.Fail("1/verdict-dispatch", key+":skip-helper", pos, "the Ban arm does not call a helper that rewrites the tracee's registers")
	} else {
		var bad []string
		for _, fn := range p.AllFuncs() {
			for _, ci := range callInstrs(fn) {
				if isRegWrite(ci) {
					// allowed: inside skip or in functions only reachable from skip
					if !(fn == skip || onlyCalledFrom(p, fn, skip, 3)) {
						bad = append(bad, shortName(fn)+" @ "+p.Pos(ci.Pos()))
					}
				}
				if _, callee := calleeOf(ci); callee == skip && fn != handleTrap {
					bad = append(bad, "skip helper called from "+shortName(fn))
				}
			}
		}
		c.Cond(len(bad) == 0, "1/verdict-dispatch", "who-may-write-registers", p.Pos(skip.Pos()), "tracee registers are written only by the skip helper, called only from the Ban arm", "tracee registers can be written outside the Ban arm: "+strings.Join(bad, "; "))
		checkSkipSyscall(c, skip)
	}
	c.Expect("1/verdict-dispatch", 5)

	// ---------- 3: the runner's handler ----------
	checkTracerHandlerVerdicts(c)

	// ---------- 4: options before continue ----------
	checkPtraceOptions(c, handle)

	// ---------- 5: traps only after exec ----------
	checkExecvedFlag(c, handle, handleTrap)

	// ---------- 6: child ordering (E1) ----------
	if x := newE1ctx(c); x != nil {
		e1SeccompObligations(x, "6/child-order")
		c.Expect("6/child-order", 10)
	}

	// ---------- 7: filter kill ⇒ whole process, SIGSYS ⇒ Disallowed Syscall ----------
	if ts := p.Func("pkg/seccomp/libseccomp", "ToSeccompAction"); ts != nil {
		for _, a := range []int64{0, p.MustConst(repoModule+"/pkg/seccomp/libseccomp", "ActionKill"), 9} {
			var outs []string
			w := &walker{fn: ts}
			w.Seed = func(w *walker, st *wstate, v ssa.Value) *absVal {
				if pr, ok := v.(*ssa.Parameter); ok {
					_ = pr
					return avInt(a)
				}
				if call, ok := v.(*ssa.Call); ok {
					if _, callee := calleeOf(call); callee != nil && inModule(callee) && len(call.Call.Args) == 1 {
						if arg, ok := w.eval(st, call.Call.Args[0]).Int(); ok {
							if m, okm := actionMask(callee); okm {
								return avInt(arg & m)
							}
						}
					}
				}
				return nil
			}
			w.OnReturn = func(w *walker, st *wstate, ret *ssa.Return, rs []*absVal) { outs = append(outs, rs[0].String()) }
			w.Run()
			want := fmt.Sprint(p.MustConst(elasticPkg, "ActionKillProcess"))
			c.Cond(len(outs) == 1 && outs[0] == want, "7/filter-kill", fmt.Sprintf("libseccomp.ToSeccompAction:in=%d", a), p.Pos(ts.Pos()), "kill/unset ⇒ SECCOMP_RET_KILL_PROCESS (the whole program dies with SIGSYS)",
				fmt.Sprintf("kill/unset action %d compiles to %v, want KILL_PROCESS: a violating thread would die alone and the run would end Normal", a, outs))
		}
		c.Expect("7/filter-kill", 3)
	}
}

func uniq(xs []string) []string {
	var out []string
	seen := map[string]bool{}
	for _, x := range xs {
		if !seen[x] {
			seen[x] = true
			out = append(out, x)
		}
	}
	return out
}

// onlyCalledFrom: every static caller chain of fn (within the module, bounded) goes through root.
func onlyCalledFrom(p *Prog, fn, root *ssa.Function, depth int) bool {
	if fn == root {
		return true
	}
	if depth == 0 {
		return false
	}
	callers := 0
	for _, g := range p.AllFuncs() {
		for _, ci := range callInstrs(g) {
			if _, callee := calleeOf(ci); callee == fn {
				callers++
				if !onlyCalledFrom(p, g, root, depth-1) {
					return false
				}
			}
		}
	}
	if callers == 0 {
		// never called inside the module: harmless iff it cannot be called from outside either
		return fn.Object() == nil || !fn.Object().Exported()
	}
	return true
}

func checkSkipSyscall(c *Check, skip *ssa.Function) {
	p := c.P
	key := "ptracer." + skip.Name() + "[" + p.Arch + "]"
	pos := p.Pos(skip.Pos())
	recv := skip.Params[0].Name()
	switch p.Arch {
	case "amd64":
		storeOK, writeBack, retOK := false, false, false
		var set ssa.CallInstruction
		for _, b := range skip.Blocks {
			for _, in := range b.Instrs {
				switch x := in.(type) {
				case *ssa.Store:
					if describe(x.Addr) == "&"+recv+".regs.Orig_rax" {
						if v, ok := constInt(x.Val); ok && uint64(v) == ^uint64(0) {
							storeOK = true
						}
					}
				case *ssa.Call:
					if n, _ := calleeOf(x); strings.HasSuffix(n, ".PtraceSetRegs") {
						set = x
						writeBack = describe(x.Call.Args[0]) == recv+".Pid" && describe(x.Call.Args[1]) == "&"+recv+".regs"
					}
				case *ssa.Return:
					if set != nil && x.Results[0] == set.(ssa.Value) {
						retOK = true
					}
				}
			}
		}
		c.Cond(storeOK, "2/skip-syscall", key+":syscall-nr=-1", pos, "the saved syscall number is set to −1", "the skip helper does not store −1 (all ones) into the saved syscall number (orig_rax): the banned syscall would execute")
		c.Cond(writeBack, "2/skip-syscall", key+":write-back", pos, "the modified register file is written back to the same pid", "the skip helper does not write the modified register file back (PtraceSetRegs(c.Pid, &c.regs))")
		c.Cond(retOK, "2/skip-syscall", key+":error", pos, "the error of the write-back is returned", "the error of the register write-back is dropped")
	default:
		// arm64 / arm: a set-syscall request with constant −1 plus a register write-back, errors returned
		minus1 := false
		nSet := 0
		for _, ci := range callInstrs(skip) {
			_, callee := calleeOf(ci)
			if callee == nil || !inModule(callee) {
				continue
			}
			nSet++
			for _, a := range ci.Common().Args {
				if v, ok := constInt(a); ok && v == -1 {
					minus1 = true
				}
			}
		}
		c.Cond(minus1 && nSet >= 1, "2/skip-syscall", key+":syscall-nr=-1", pos, "the syscall number is set to −1 through the architecture's set-syscall request", "the skip helper does not set the syscall number to −1")
	}
	// SetReturnValue stores the parameter into the return register of the same register file
	if sr := p.Func("ptracer", "Context.SetReturnValue"); sr != nil {
		want := map[string]string{"amd64": ".regs.Rax", "arm64": ".regs.Regs[0]", "arm": ".regs.Uregs[0]"}[p.Arch]
		ok := false
		for _, b := range sr.Blocks {
			for _, in := range b.Instrs {
				if st, isS := in.(*ssa.Store); isS {
					if strings.HasSuffix(describe(st.Addr), want) && stripConv(st.Val) == ssa.Value(sr.Params[1]) {
						ok = true
					}
				}
			}
		}
		c.Cond(ok, "2/skip-syscall", "ptracer.SetReturnValue["+p.Arch+"]", p.Pos(sr.Pos()), "the return value is stored into the return register of the saved register file", "SetReturnValue does not store its argument into the return register ("+want+")")
	}
	c.Expect("2/skip-syscall", 2)
}

func checkTracerHandlerVerdicts(c *Check) {
	p := c.P
	act := func(n string) int64 { return p.MustConst(repoModule+"/ptracer", n) }
	h := p.Func("runner/ptrace", "tracerHandler.Handle")
	if h == nil {
		c.Undecided("3/ban-return-value", "runner/ptrace.Handle", "-", "function not found")
		return
	}
	key := "runner/ptrace.tracerHandler.Handle"
	pos := p.Pos(h.Pos())
	var banFn *ssa.Function
	run := func(nameErr bool, verdict int64) []string {
		var outs []string
		w := &walker{fn: h}
		w.Seed = func(w *walker, st *wstate, v ssa.Value) *absVal {
			switch x := v.(type) {
			case *ssa.Extract:
				if call, ok := x.Tuple.(*ssa.Call); ok {
					if n, _ := calleeOf(call); strings.HasSuffix(n, ".ToSyscallName") {
						if x.Index == 0 {
							return avC(constantString("getpid"))
						}
						if nameErr {
							return avTag("name-error")
						}
						return &absVal{k: avNil}
					}
				}
			case *ssa.Call:
				if x.Call.IsInvoke() && x.Call.Method.Name() == "CheckSyscall" {
					return avInt(verdict)
				}
				if _, callee := calleeOf(x); callee != nil && inModule(callee) && callee.Signature.Results().Len() == 1 && strings.HasSuffix(callee.Signature.Results().At(0).Type().String(), "TraceAction") && callee.Signature.Params().Len() == 1 {
					banFn = callee
					return avTag("soft-ban-helper")
				}
			case *ssa.UnOp:
				if x.Op == token.MUL && strings.HasSuffix(describe(x), ".Unsafe") {
					return avBool(false)
				}
			case *ssa.BinOp:
				if x.Op == token.NEQ && isNilConst(x.Y) && strings.Contains(describe(x.X), "ToSyscallName") {
					return avBool(nameErr)
				}
			}
			return nil
		}
		w.OnReturn = func(w *walker, st *wstate, ret *ssa.Return, rs []*absVal) { outs = append(outs, rs[0].String()) }
		w.Run()
		return uniq(outs)
	}
	kill := fmt.Sprint(act("TraceKill"))
	c.Cond(strings.Join(run(true, 0), "|") == kill, "3/ban-return-value", key+":unknown-syscall-number", pos, "unknown syscall number ⇒ Kill", "an unknown syscall number does not kill: "+strings.Join(run(true, 0), "|"))
	c.Cond(strings.Join(run(false, act("TraceAllow")), "|") == fmt.Sprint(act("TraceAllow")), "3/ban-return-value", key+":allow", pos, "Allow ⇒ Allow", "Allow yields "+strings.Join(run(false, act("TraceAllow")), "|"))
	c.Cond(strings.Join(run(false, act("TraceBan")), "|") == "«soft-ban-helper»", "3/ban-return-value", key+":ban", pos, "Ban ⇒ the soft-ban helper's result", "a Ban verdict is returned without going through the helper that sets the error return value: "+strings.Join(run(false, act("TraceBan")), "|"))
	c.Cond(strings.Join(run(false, act("TraceKill")), "|") == kill, "3/ban-return-value", key+":kill", pos, "Kill ⇒ Kill", "Kill yields "+strings.Join(run(false, act("TraceKill")), "|"))
	c.Cond(strings.Join(run(false, 7), "|") == kill, "3/ban-return-value", key+":unknown-verdict", pos, "unknown verdict ⇒ Kill (fail closed)", "an unknown verdict yields "+strings.Join(run(false, 7), "|"))
	if banFn != nil {
		// sets the return value to -int(BanRet) unconditionally and returns TraceBan
		okSet, okRet := false, false
		for _, ci := range callInstrs(banFn) {
			if n, _ := calleeOf(ci); strings.HasSuffix(n, "Context).SetReturnValue") {
				a := ci.Common().Args[1]
				if u, ok := a.(*ssa.UnOp); ok && u.Op == token.SUB && strings.Contains(describe(u.X), "BanRet") && len(extraConds(controlDeps(banFn), ci.Block())) == 0 {
					okSet = true
				}
			}
		}
		for _, b := range banFn.Blocks {
			if ret, ok := b.Instrs[len(b.Instrs)-1].(*ssa.Return); ok {
				if v, ok := constInt(ret.Results[0]); ok && v == act("TraceBan") {
					okRet = true
				}
			}
		}
		c.Cond(okSet && okRet, "3/ban-return-value", "runner/ptrace."+banFn.Name(), p.Pos(banFn.Pos()), "soft ban sets the tracee's return value to −BanRet and returns Ban", "the soft-ban helper does not set the return value to −BanRet (unconditionally) and return Ban")
	}
	c.Expect("3/ban-return-value", 6)
}

func checkPtraceOptions(c *Check, handle *ssa.Function) {
	p := c.P
	need := map[string]int64{}
	for _, n := range []string{"PTRACE_O_TRACESECCOMP", "PTRACE_O_EXITKILL", "PTRACE_O_TRACEFORK", "PTRACE_O_TRACECLONE", "PTRACE_O_TRACEVFORK", "PTRACE_O_TRACEEXEC"} {
		need[n] = p.Unix(n)
	}
	var setOpt ssa.CallInstruction
	var flags int64 = -1
	var optFn *ssa.Function
	for _, fn := range p.PkgFuncs("ptracer") {
		for _, ci := range callInstrs(fn) {
			if n, _ := calleeOf(ci); strings.HasSuffix(n, ".PtraceSetOptions") {
				if v, ok := constInt(ci.Common().Args[1]); ok {
					flags = v
					optFn = fn
				}
			}
		}
	}
	if optFn == nil {
		c.Fail("4/options-before-continue", "ptracer.setPtraceOption", "-", "PTRACE_SETOPTIONS with constant flags not found")
		return
	}
	var missing []string
	for n, v := range need {
		if flags&v == 0 {
			missing = append(missing, n)
		}
	}
	sort.Strings(missing)
	c.Cond(len(missing) == 0, "4/options-before-continue", "ptracer."+optFn.Name()+":flags", p.Pos(optFn.Pos()), fmt.Sprintf("options %#x ⊇ TRACESECCOMP|EXITKILL|TRACEFORK|TRACECLONE|TRACEVFORK|TRACEEXEC", flags),
		"ptrace options lack "+strings.Join(missing, ", ")+": children created that way are not traced from their first instruction / the tracee survives its tracer")
	// in handle: every PtraceCont in the stopped arm is preceded by the traced-check region
	for _, ci := range callInstrs(handle) {
		_, callee := calleeOf(ci)
		if callee == optFn {
			setOpt = ci
		} else if callee != nil && inModule(callee) && callee.Pkg == handle.Pkg && reachesCall(callee, 2, func(c2 ssa.CallInstruction) bool { _, c3 := calleeOf(c2); return c3 == optFn }) {
			setOpt = ci // the options are set in a helper called here
		}
	}
	if setOpt == nil {
		c.Fail("4/options-before-continue", "ptracer."+handle.Name()+":set-options", p.Pos(handle.Pos()), "the wait-status handler never sets the ptrace options")
		return
	}
	// the If that tests traced[pid]
	conds := extraConds(controlDeps(handle), setOpt.Block())
	okGuard := false
	for _, a := range conds {
		if strings.Contains(a, ".traced[") {
			okGuard = true
		}
	}
	c.Cond(okGuard, "4/options-before-continue", "ptracer."+handle.Name()+":first-stop", p.Pos(setOpt.Pos()), "options are set at the first stop of every pid", "options are set under "+strings.Join(conds, ", "))
	// the traced-test block dominates every continue in the stopped arm
	var tblock *ssa.BasicBlock
	for _, d := range cdChain(controlDeps(handle), setOpt.Block()) {
		if iff := blockIf(d.b); iff != nil && strings.Contains(describe(iff.Cond), ".traced[") {
			tblock = d.b
		}
	}
	n := 0
	for _, ci := range callInstrs(handle) {
		if nm, _ := calleeOf(ci); strings.HasSuffix(nm, ".PtraceCont") {
			g := controlDeps(handle).guardOf(ci.Block())
			sa := firstAtomWith(g, "Stopped(")
			if sa == "?" {
				continue // the signaled arm's forward of a signal to a secondary pid
			}
			if ok, _, _ := Valid(fImp(g, fLit(sa))); !ok {
				continue
			}
			n++
			c.Cond(tblock != nil && tblock.Dominates(ci.Block()), "4/options-before-continue", fmt.Sprintf("ptracer.%s:cont#%d", handle.Name(), n), p.Pos(ci.Pos()), "the pid has been configured before it is continued", "a stopped pid can be continued before its ptrace options were set")
		}
	}
	c.Expect("4/options-before-continue", 4)
}

func firstAtomWith(g *Form, sub string) string {
	for _, a := range Support(g) {
		if strings.Contains(a, sub) {
			return a
		}
	}
	return "?"
}

func checkExecvedFlag(c *Check, handle, handleTrap *ssa.Function) {
	p := c.P
	// handleTrap call is guarded by the execved flag
	for _, ci := range callInstrs(handle) {
		if _, callee := calleeOf(ci); callee == handleTrap {
			g := controlDeps(handle).guardOf(ci.Block())
			a := firstAtomWith(g, ".execved")
			ok := false
			if a != "?" {
				ok, _, _ = Valid(fImp(g, fLit(a)))
			}
			c.Cond(ok, "5/after-exec-only", "ptracer."+handle.Name()+":trap-guard", p.Pos(ci.Pos()), "seccomp traps are handled only once the program has been exec'ed", "seccomp traps are handed to the policy before the exec event (the launcher's own syscalls would be judged)")
		}
	}
	// who-may-write execved: only `true`, only under the EXEC event
	n := 0
	for _, fn := range p.PkgFuncs("ptracer") {
		for _, b := range fn.Blocks {
			for _, in := range b.Instrs {
				st, ok := in.(*ssa.Store)
				if !ok {
					continue
				}
				fa, ok := st.Addr.(*ssa.FieldAddr)
				if !ok || fieldName(fa.X.Type(), fa.Field) != "execved" {
					continue
				}
				if _, isAlloc := fa.X.(*ssa.Alloc); isAlloc {
					continue // constructor literal
				}
				n++
				v, isB := constBool(st.Val)
				g := controlDeps(fn).guardOf(b)
				want := fmt.Sprintf("== %d", p.Unix("PTRACE_EVENT_EXEC"))
				okEv := false
				for _, a := range Support(g) {
					if strings.Contains(a, "TrapCause(") && strings.HasSuffix(a, want) {
						if ok2, _, _ := Valid(fImp(g, fLit(a))); ok2 {
							okEv = true
						}
					}
				}
				c.Cond(isB && v && okEv, "5/after-exec-only", "ptracer."+fn.Name()+":execved-writer", p.Pos(st.Pos()), "the flag is set (to true) only at the exec event", "the exec flag is written outside the PTRACE_EVENT_EXEC arm or to a value other than true")
			}
		}
	}
	c.Cond(n >= 1, "5/after-exec-only", "ptracer:execved-writers", p.Pos(handle.Pos()), "writer of the exec flag found", "no writer of the exec flag found")
	c.Expect("5/after-exec-only", 3)

	// ---------- 8: verdicts of a multi-path call are joined, the most severe wins ----------
	checkCombineJoin(c)

	// ---------- 9: the decision is made from the state of this stop only ----------
	// the names the verdicts are computed from are read whole, and the requests that enforce them come from the
	// thread the kernel accepts them from
	importObs(c, "C02", "C02.11/reader-fills-buffer", "10/name-read-whole", nil)
	importObs(c, "C17", "C17.3/thread-affinity", "11/tracer-thread", nil)
	checkNoSharedState(c, "9/no-shared-state", func(path string) bool {
		return strings.HasSuffix(path, "/ptracer") || strings.HasSuffix(path, "/runner/ptrace") || strings.HasSuffix(path, "/runner/ptrace/filehandler")
	}, 2)
}

// checkCombineJoin: every function of runner/ptrace that folds a list of trace
// actions into one (variadic or slice parameter of the action type, result of
// the action type) is evaluated on every list of length 1..3 over
// {allow, ban, kill}: the result must be kill if any element is kill, else ban
// if any is ban, else allow. The constants are read by name from the current
// tree, so renumbering them is followed.
func checkCombineJoin(c *Check) {
	p := c.P
	act := func(n string) int64 { return p.MustConst(repoModule+"/ptracer", n) }
	vals := map[string]int64{"allow": act("TraceAllow"), "ban": act("TraceBan"), "kill": act("TraceKill")}
	names := []string{"allow", "ban", "kill"}
	sev := map[string]int{"allow": 0, "ban": 1, "kill": 2}
	nameOf := func(v int64) string {
		for n, x := range vals {
			if x == v {
				return n
			}
		}
		return fmt.Sprintf("%d", v)
	}
	found := 0
	for _, fn := range p.PkgFuncs("runner/ptrace") {
		sig := fn.Signature
		if sig.Recv() != nil || sig.Params().Len() != 1 || sig.Results().Len() != 1 || fn.Parent() != nil {
			continue
		}
		sl, ok := sig.Params().At(0).Type().(*types.Slice)
		if !ok || !strings.HasSuffix(sl.Elem().String(), "ptracer.TraceAction") || !strings.HasSuffix(sig.Results().At(0).Type().String(), "ptracer.TraceAction") {
			continue
		}
		found++
		param := fn.Params[0]
		var lists [][]string
		var gen func(cur []string, n int)
		gen = func(cur []string, n int) {
			if len(cur) == n {
				lists = append(lists, append([]string(nil), cur...))
				return
			}
			for _, x := range names {
				gen(append(cur, x), n)
			}
		}
		for n := 1; n <= 3; n++ {
			gen(nil, n)
		}
		bad := ""
		nOK := 0
		for _, l := range lists {
			want := "allow"
			for _, x := range l {
				if sev[x] > sev[want] {
					want = x
				}
			}
			var outs []string
			w := &walker{fn: fn, MaxVisits: len(l) + 3}
			w.Seed = func(w *walker, st *wstate, v ssa.Value) *absVal {
				if v == ssa.Value(param) {
					return &absVal{k: avPtr, key: "S:list"}
				}
				if call, ok := v.(*ssa.Call); ok {
					if b, isB := call.Call.Value.(*ssa.Builtin); isB && b.Name() == "len" && call.Call.Args[0] == ssa.Value(param) {
						return avInt(int64(len(l)))
					}
				}
				return nil
			}
			w.Init = func(w *walker, st *wstate) {
				for i, x := range l {
					st.mem[fmt.Sprintf("S:list[%d]", i)] = avInt(vals[x])
				}
			}
			w.OnReturn = func(w *walker, st *wstate, ret *ssa.Return, rs []*absVal) {
				if rs[0].k == avConst {
					if v, isInt := constant.Int64Val(rs[0].c); isInt {
						outs = append(outs, nameOf(v))
						return
					}
				}
				outs = append(outs, rs[0].String())
			}
			w.Run()
			if len(outs) == 1 && outs[0] == want {
				nOK++
			} else if bad == "" {
				bad = fmt.Sprintf("(%s) ⇒ %v, want %s", strings.Join(l, ", "), outs, want)
			}
		}
		c.Cond(bad == "", "8/combine-join", "runner/ptrace."+fn.Name(), p.Pos(fn.Pos()), fmt.Sprintf("the most severe verdict wins on all %d lists of length 1..3", nOK),
			"the verdicts of the paths of one call are not joined by severity: "+bad+" (a banned or killed path of a two-path call such as rename/link is let through)")
	}
	c.Cond(found >= 1, "8/combine-join", "runner/ptrace:combiner", "runner/ptrace/", "combiner of trace actions found", "no function folding a list of trace actions found (two-path calls need one)")
	c.Expect("8/combine-join", 2)
}

func constantString(s string) constant.Value { return constant.MakeString(s) }

// handleTrapCallOf: the call of the trap handler inside the wait-status handler (nil if not found).
func handleTrapCallOf(handle, handleTrap *ssa.Function) ssa.Value {
	for _, ci := range callInstrsDeep(handle, 1) {
		if _, callee := calleeOf(ci); callee == handleTrap {
			if v, ok := ci.(ssa.Value); ok {
				return v
			}
		}
	}
	return nil
}
