package main

// C15 — a sandboxed program cannot make the runner itself fail.

import (
	"fmt"
	"go/ast"
	"go/token"
	"os"
	"os/exec"
	"path/filepath"
	"regexp"
	"sort"
	"strconv"
	"strings"

	"golang.org/x/tools/go/ssa"
)

func init() {
	register("C15", "Scope S = every function reachable from the tracer's wait-status handler (trap context, string reader, the runner's syscall handler and path resolver, the file policy, the syscall-name table): code that runs on values chosen by the traced program. (1) Panic freedom: the bounds checks the Go compiler's own prove pass could not eliminate (-d=ssa/check_bce, recompiled from the current source on every run) are the open obligations; each must be discharged by a small sound prover (callee return summaries 0≤r≤len(arg), clamp idiom, byte count of a read into the same slice on the error-free edge, constant-length literals, positivity facts incl. m−(a%m)≥1, library index contracts); anything else is reported as unproven. Unchecked type assertions, divisions by non-constants and nil-map writes in S are enumerated too. (2) A tracee that vanished (ESRCH) at a ptrace request is not turned into a verdict, and the error values compared with ESRCH are the primitives' own errors (not wrapped). (3) Progress: every path through the stop arm continues the tracee, ends the run with a verdict, or is the vanished-tracee exit. (4) Every loop in S is a bounded range loop or has a recognised structural variant (constant symlink-depth bound, shrinking buffer, walk to the parent directory). (5) Unknown syscall numbers kill. Does not decide kernel ptrace races, user-supplied handlers, memory exhaustion.", checkC15)
	thoroughArchs["C15"] = []string{"arm64"}
}

func scopeS(p *Prog) (map[*ssa.Function]bool, *ssa.Function) {
	var handle *ssa.Function
	for _, f := range p.PkgFuncs("ptracer") {
		sig := f.Signature
		if sig.Recv() != nil && sig.Results().Len() == 4 && sig.Params().Len() == 2 && strings.HasSuffix(sig.Params().At(1).Type().String(), "WaitStatus") {
			handle = f
		}
	}
	S := map[*ssa.Function]bool{}
	var visit func(f *ssa.Function)
	visit = func(f *ssa.Function) {
		if f == nil || S[f] || f.Blocks == nil || !inModule(f) {
			return
		}
		S[f] = true
		for _, a := range f.AnonFuncs {
			visit(a)
		}
		for _, ci := range callInstrs(f) {
			_, callee := calleeOf(ci)
			visit(callee)
		}
	}
	visit(handle)
	// interface targets: the runner's handler and the example file policy
	visit(p.Func("runner/ptrace", "tracerHandler.Handle"))
	visit(p.Func("runner/ptrace", "tracerHandler.Debug"))
	for _, m := range []string{"CheckRead", "CheckWrite", "CheckStat", "CheckSyscall"} {
		visit(p.Func("runner/ptrace/filehandler", "Handler."+m))
	}
	return S, handle
}

type bceSite struct {
	file string
	line int
	kind string
}

// compilerUnprovenBounds recompiles pkg (relative path) with -d=ssa/check_bce and returns the bounds checks the compiler kept.
func compilerUnprovenBounds(p *Prog, rel string) ([]bceSite, error) {
	dir, err := os.MkdirTemp("", "gsverif-bce-")
	if err != nil {
		return nil, err
	}
	defer os.RemoveAll(dir)
	env := append(os.Environ(), "GOOS=linux", "GOARCH="+p.Arch, "CGO_ENABLED=0")
	run := func(args ...string) ([]byte, error) {
		cmd := exec.Command("go", args...)
		cmd.Dir = p.Dir
		cmd.Env = env
		return cmd.CombinedOutput()
	}
	out, err := run("list", "-export", "-deps", "-f", "{{if .Export}}packagefile {{.ImportPath}}={{.Export}}{{end}}", "./"+rel)
	if err != nil {
		return nil, fmt.Errorf("go list -export: %v: %s", err, firstLines(string(out), 5))
	}
	var cfg []string
	for _, l := range strings.Split(string(out), "\n") {
		if strings.HasPrefix(l, "packagefile ") && !strings.HasPrefix(l, "packagefile "+repoModule+"/"+rel+"=") {
			cfg = append(cfg, l)
		}
	}
	if err := os.WriteFile(filepath.Join(dir, "importcfg"), []byte(strings.Join(cfg, "\n")+"\n"), 0o644); err != nil {
		return nil, err
	}
	out, err = run("list", "-f", "{{range .GoFiles}}{{$.Dir}}/{{.}}\n{{end}}", "./"+rel)
	if err != nil {
		return nil, fmt.Errorf("go list files: %v", err)
	}
	files := strings.Fields(string(out))
	args := []string{"tool", "compile", "-o", filepath.Join(dir, "out.o"), "-p", repoModule + "/" + rel, "-importcfg", filepath.Join(dir, "importcfg"), "-d=ssa/check_bce/debug=1"}
	args = append(args, files...)
	out, err = run(args...)
	re := regexp.MustCompile(`^(.*\.go):(\d+):(\d+): Found (IsInBounds|IsSliceInBounds)`)
	var sites []bceSite
	for _, l := range strings.Split(string(out), "\n") {
		if m := re.FindStringSubmatch(l); m != nil {
			ln, _ := strconv.Atoi(m[2])
			sites = append(sites, bceSite{strings.TrimPrefix(m[1], p.Dir+"/"), ln, m[4]})
		} else if strings.Contains(l, ": ") && err != nil {
			return nil, fmt.Errorf("compile %s: %s", rel, l)
		}
	}
	if err != nil && len(sites) == 0 {
		return nil, fmt.Errorf("go tool compile %s: %v: %s", rel, err, firstLines(string(out), 5))
	}
	return sites, nil
}

func checkC15(c *Check) {
	p := c.P
	S, handle := scopeS(p)
	if handle == nil {
		c.Undecided("1/panic-freedom", "ptracer.handle", "-", "cannot resolve the wait-status handler")
		return
	}
	var names []string
	for f := range S {
		names = append(names, shortName(f))
	}
	sort.Strings(names)
	c.Extra["scope_functions"] = names

	// ---------- 1: panic freedom ----------
	bp := newBProver(p, S)
	pkgs := map[string]bool{}
	for f := range S {
		root := f
		for root.Parent() != nil {
			root = root.Parent()
		}
		pkgs[strings.TrimPrefix(root.Pkg.Pkg.Path(), repoModule+"/")] = true
	}
	var rels []string
	for r := range pkgs {
		rels = append(rels, r)
	}
	sort.Strings(rels)
	// line → functions of S
	fnAt := func(file string, line int) *ssa.Function {
		var best *ssa.Function
		for f := range S {
			if f.Syntax() == nil {
				continue
			}
			ps, pe := p.Fset.Position(f.Syntax().Pos()), p.Fset.Position(f.Syntax().End())
			if strings.TrimPrefix(ps.Filename, p.Dir+"/") == file && ps.Line <= line && line <= pe.Line {
				if best == nil || f.Syntax().Pos() > best.Syntax().Pos() {
					best = f
				}
			}
		}
		return best
	}
	nOpen := 0
	proved := map[ssa.Instruction]bool{}
	var proveFn func(fn *ssa.Function, line int, kind string, via string, depth int)
	proveFn = func(fn *ssa.Function, line int, kind string, via string, depth int) {
		var instrs []ssa.Instruction
		var calls []*ssa.Function
		var stdInlined []string
		for _, b := range fn.Blocks {
			for _, in := range b.Instrs {
				if !in.Pos().IsValid() && line >= 0 {
					continue
				}
				if line >= 0 && p.Fset.Position(in.Pos()).Line != line {
					continue
				}
				switch x := in.(type) {
				case *ssa.Slice:
					if kind == "IsSliceInBounds" {
						instrs = append(instrs, in)
					}
				case *ssa.IndexAddr:
					if kind == "IsInBounds" {
						if _, isArr := derefType(x.X.Type()).Underlying().(interface{ Len() int64 }); !isArr {
							instrs = append(instrs, in)
						}
					}
				case *ssa.Index:
					if kind == "IsInBounds" {
						instrs = append(instrs, in)
					}
				case *ssa.Call:
					if nm, callee := calleeOf(x); callee != nil && inModule(callee) {
						calls = append(calls, callee)
					} else if stdPrefixHelpers[nm] {
						stdInlined = append(stdInlined, nm)
					}
				}
			}
		}
		if len(instrs) == 0 && depth < 2 {
			// the check belongs to an inlined callee
			for _, callee := range calls {
				proveFn(callee, -1, kind, via+"→"+callee.Name(), depth+1)
			}
			if len(calls) == 0 && line >= 0 && len(stdInlined) > 0 {
				// the check sits in a standard-library string helper the compiler inlined on this line; these slice
				// behind their own length test (s[len(prefix):] after HasPrefix, s[:i] / s[i+len(sep):] after Index ≥ 0)
				for _, nm := range stdInlined {
					c.Assume = append(c.Assume, nm+" slices only behind its own length test (standard library)")
				}
				c.OK("1/panic-freedom", fmt.Sprintf("%s:%s@line%d", shortName(fn), kind, line), "-", "bounds check inside an inlined standard-library string helper ("+strings.Join(stdInlined, ", ")+")")
				return
			}
			if len(calls) == 0 && line >= 0 {
				c.Undecided("1/panic-freedom", fmt.Sprintf("%s:%s@line%d", shortName(fn), kind, line), "-", "compiler reports an unproven bounds check but no matching instruction was found")
			}
			return
		}
		for _, in := range instrs {
			if proved[in] {
				continue
			}
			proved[in] = true
			nOpen++
			ok, why := bp.proveInstr(in)
			key := fmt.Sprintf("%s:%s:%s", shortName(in.Parent()), kind, describeInstr(in))
			c.Cond(ok, "1/panic-freedom", key, p.Pos(in.Pos()), "bound proven ("+why+")", "a bounds check on a value controlled by the traced program cannot be proven safe ("+why+"): a crafted argument can panic the tracer (recovered as Runner Error)")
		}
	}
	for _, rel := range rels {
		sites, err := compilerUnprovenBounds(p, rel)
		if err != nil {
			c.Undecided("1/panic-freedom", "compiler-prove-pass:"+rel, "-", err.Error())
			continue
		}
		c.Extra["compiler_unproven_"+rel] = len(sites)
		for _, s := range sites {
			fn := fnAt(s.file, s.line)
			if fn == nil {
				continue // outside S (e.g. String methods, tests helpers)
			}
			proveFn(fn, s.line, s.kind, fn.Name(), 0)
		}
	}
	c.Expect("1/panic-freedom", 8)
	// other panic sources in S
	for f := range S {
		for _, b := range f.Blocks {
			for _, in := range b.Instrs {
				switch x := in.(type) {
				case *ssa.TypeAssert:
					if !x.CommaOk {
						c.Fail("1/panic-freedom", shortName(f)+":type-assert:"+x.AssertedType.String(), p.Pos(x.Pos()), "unchecked type assertion in code driven by the traced program")
					}
				case *ssa.BinOp:
					if x.Op == token.QUO || x.Op == token.REM {
						if _, isC := constInt(x.Y); !isC {
							l, ok := bp.lb(x.Y, b, 0)
							c.Cond(ok && l >= 1, "1/panic-freedom", shortName(f)+":division:"+describe(x.Y), p.Pos(x.Pos()), "divisor proven positive", "division by a value not proven non-zero")
						}
					}
				case *ssa.Panic:
					c.Fail("1/panic-freedom", shortName(f)+":explicit-panic", p.Pos(x.Pos()), "explicit panic in code driven by the traced program")
				}
			}
		}
	}
	for a := range bp.assume {
		c.Assume = append(c.Assume, a)
	}

	// ---------- 2: vanished tracee ----------
	checkESRCH(c, handle)

	// ---------- 3: progress ----------
	checkProgress(c, handle)

	// ---------- 4: loops ----------
	checkLoopsInS(c, S)

	// ---------- 5: unknown syscall numbers kill (shared with C03.3) ----------
	before := len(c.Obs)
	checkTracerHandlerVerdicts(c)
	for i := before; i < len(c.Obs); i++ {
		c.Obs[i].Rule = strings.Replace(c.Obs[i].Rule, "3/ban-return-value", "5/unknown-syscall", 1)
	}
	delete(c.Expects, c.ID+".3/ban-return-value")
	c.Expect("5/unknown-syscall", 5)

	// the end of the main process always ends the run with its verdict: no path of the wait-status handler drops the
	// report (the wait loop would then wait for a child that is gone: ECHILD, Runner Error) — the tables of C09.1
	importObs(c, "C09", "C09.1/classifier-table", "6/main-end-ends-run", func(o Obligation) bool { return strings.HasPrefix(o.Key, "ptracer.") })
	c.Expect("6/main-end-ends-run", 69)
	// every stop the tracer has to answer is reported to it: it waits on the process group of the run, so no traced
	// process may leave that group (its seccomp stop would never be collected and the run would hang until cancelled)
	checkConfigTables(c, "7/no-group-escape", "group")
	// "the tracee is gone" is reported by the primitives only when the kernel said so: the register write-back of the
	// skip helper hands on the error it got (C03.2) — a failure relabelled ESRCH would be taken for a vanished tracee
	// and the stop never resumed
	importObs(c, "C03", "C03.2/skip-syscall", "8/skip-error-honest", nil)
}

func describeInstr(in ssa.Instruction) string {
	switch x := in.(type) {
	case *ssa.Slice:
		return describe(x)
	case *ssa.IndexAddr:
		return describe(x)
	case *ssa.Index:
		return describe(x)
	}
	return in.String()
}

// checkESRCH: ESRCH at a ptrace request leads back to the wait loop; compared errors are unwrapped.
func checkESRCH(c *Check, handle *ssa.Function) {
	p := c.P
	sc := loadStatusConsts(p)
	esrch := p.Sys("ESRCH")
	// every comparison `err == ESRCH` in handle: err's producers do not wrap
	n := 0
	// the handler and the helpers of its package it calls (code split off the handler)
	var blocks []*ssa.BasicBlock
	{
		seenF := map[*ssa.Function]bool{}
		var rec func(f *ssa.Function, d int)
		rec = func(f *ssa.Function, d int) {
			if f == nil || seenF[f] || len(f.Blocks) == 0 {
				return
			}
			seenF[f] = true
			blocks = append(blocks, f.Blocks...)
			if d == 0 {
				return
			}
			for _, ci := range callInstrs(f) {
				if callee := ci.Common().StaticCallee(); callee != nil && inModule(callee) && callee.Pkg == handle.Pkg && callee.Signature.Recv() != nil {
					rec(callee, d-1)
				}
			}
		}
		rec(handle, 1)
	}
	for _, b := range blocks {
		iff := blockIf(b)
		if iff == nil {
			continue
		}
		// err == ESRCH, or errors.Is(err, ESRCH)
		var cmpX, cmpY ssa.Value
		var cmpPos token.Pos
		if bo, ok := iff.Cond.(*ssa.BinOp); ok && bo.Op == token.EQL {
			cmpX, cmpY, cmpPos = bo.X, bo.Y, bo.Pos()
		} else if call, ok := iff.Cond.(*ssa.Call); ok {
			if e, tgt, ok := errorsIsConst(call); ok {
				cmpX, cmpY, cmpPos = e, tgt, call.Pos()
			}
		}
		if cmpX == nil {
			continue
		}
		mi, ok := cmpY.(*ssa.MakeInterface)
		if !ok {
			continue
		}
		if v, ok := constInt(mi.X); !ok || v != esrch {
			continue
		}
		n++
		bo := struct {
			X   ssa.Value
			pos token.Pos
		}{cmpX, cmpPos}
		var prod *ssa.Function
		if call, ok := bo.X.(*ssa.Call); ok {
			_, prod = calleeOf(call)
		}
		if ex, ok := bo.X.(*ssa.Extract); ok {
			if call, ok := ex.Tuple.(*ssa.Call); ok {
				_, prod = calleeOf(call)
			}
		}
		key := fmt.Sprintf("ptracer.%s:ESRCH-test#%d", handle.Name(), n)
		if prod == nil {
			c.Undecided("2/vanished-tracee", key, p.Pos(iff.Pos()), "cannot find the producer of the compared error")
			continue
		}
		wraps := errorWrapped(prod, 6)
		c.Cond(len(wraps) == 0, "2/vanished-tracee", key+":raw-error("+prod.Name()+")", p.Pos(bo.pos), "the compared error is the ptrace primitive's own errno",
			"the error compared with ESRCH by == may be wrapped ("+strings.Join(wraps, ", ")+"): a vanished tracee is then reported as a runner or policy error instead of falling back to wait4")
	}
	c.Cond(n >= 2, "2/vanished-tracee", "ptracer."+handle.Name()+":ESRCH-tests", p.Pos(handle.Pos()), fmt.Sprintf("%d ESRCH tests", n), fmt.Sprintf("%d ESRCH tests in the wait-status handler (expected ≥2: option setting and trap handling)", n))
	// walker: ESRCH from the two producers yields no verdict
	for _, which := range []string{"set-options", "trap"} {
		var outs []string
		w := &walker{fn: handle}
		w.Seed = func(w *walker, st *wstate, v ssa.Value) *absVal {
			switch x := v.(type) {
			case *ssa.Call:
				n, callee := calleeOf(x)
				switch {
				case isWaitStatusMethod(n, "Exited"), isWaitStatusMethod(n, "Signaled"):
					return avBool(false)
				case isWaitStatusMethod(n, "Stopped"):
					return avBool(true)
				case isWaitStatusMethod(n, "StopSignal"):
					return avInt(p.Sys("SIGTRAP"))
				case isWaitStatusMethod(n, "TrapCause"):
					return avInt(p.Unix("PTRACE_EVENT_SECCOMP"))
				}
				if callee != nil && inModule(callee) && callee.Signature.Results().Len() == 1 && isErrorType(callee.Signature.Results().At(0).Type()) {
					isOpt := reachesCall(callee, 1, func(ci ssa.CallInstruction) bool {
						nn, _ := calleeOf(ci)
						return strings.HasSuffix(nn, ".PtraceSetOptions")
					})
					if (which == "set-options") == isOpt {
						return avInt(esrch)
					}
					return &absVal{k: avNil}
				}
			case *ssa.UnOp:
				if x.Op == token.MUL && strings.HasSuffix(describe(x), ".execved") {
					return avBool(true)
				}
			case *ssa.Extract:
				if _, isLookup := x.Tuple.(*ssa.Lookup); isLookup {
					return avBool(false)
				}
			case *ssa.Lookup:
				if !x.CommaOk {
					return avBool(false) // traced[pid] == false: first stop
				}
			}
			return nil
		}
		w.OnReturn = func(w *walker, st *wstate, ret *ssa.Return, rs []*absVal) {
			outs = append(outs, statusName(sc, rs[0])+"/finished="+rs[3].String())
		}
		w.Run()
		got := strings.Join(uniq(outs), "|")
		c.Cond(got == "StatusNormal/finished=false", "2/vanished-tracee", "ptracer."+handle.Name()+":ESRCH@"+which, p.Pos(handle.Pos()), "ESRCH ⇒ no verdict, back to wait4", "ESRCH at "+which+" yields "+got+" (a cancelled run would be reported as a runner or policy error)")
	}
	c.Expect("2/vanished-tracee", 5)
}

// errorWrapped lists wrapping constructors on the error-return paths of fn (transitively).
func errorWrapped(fn *ssa.Function, depth int) []string {
	var out []string
	seen := map[*ssa.Function]bool{}
	var rec func(f *ssa.Function, d int)
	rec = func(f *ssa.Function, d int) {
		if f == nil || seen[f] || f.Blocks == nil {
			return
		}
		seen[f] = true
		for _, b := range f.Blocks {
			ret, ok := b.Instrs[len(b.Instrs)-1].(*ssa.Return)
			if !ok {
				continue
			}
			for _, r := range ret.Results {
				if r.Type().String() != "error" {
					continue
				}
				var walk func(v ssa.Value, dd int)
				walk = func(v ssa.Value, dd int) {
					if dd > 6 {
						return
					}
					switch x := v.(type) {
					case *ssa.Call:
						n, callee := calleeOf(x)
						isPrimitive := strings.HasPrefix(n, "syscall.") || strings.HasPrefix(n, "golang.org/x/sys/unix.") || strings.HasPrefix(n, "(syscall.") || strings.HasPrefix(n, "invoke:")
						if (callee == nil || !inModule(callee)) && !isPrimitive && n != "dynamic" {
							// any other library function returning an error builds a new error value around (or instead of) the errno
							out = append(out, n+" in "+f.Name())
						} else if callee != nil && inModule(callee) && d > 0 {
							rec(callee, d-1)
						}
					case *ssa.Extract:
						walk(x.Tuple, dd+1)
					case *ssa.Phi:
						for _, e := range x.Edges {
							walk(e, dd+1)
						}
					case *ssa.MakeInterface:
						if _, isC := x.X.(*ssa.Const); !isC {
							if !strings.HasSuffix(x.X.Type().String(), "syscall.Errno") {
								walk(x.X, dd+1)
							}
						}
					case *ssa.UnOp:
						if a, ok := x.X.(*ssa.Alloc); ok {
							if refs := a.Referrers(); refs != nil {
								for _, rr := range *refs {
									if st, ok := rr.(*ssa.Store); ok && st.Addr == ssa.Value(a) {
										walk(st.Val, dd+1)
									}
								}
							}
						}
					}
				}
				walk(r, 0)
			}
		}
	}
	rec(fn, depth)
	sort.Strings(out)
	return uniq(out)
}

// checkProgress: in the stop arm every path continues the tracee, ends with a verdict, or is the ESRCH exit.
func checkProgress(c *Check, handle *ssa.Function) {
	p := c.P
	sc := loadStatusConsts(p)
	esrch := p.Sys("ESRCH")
	_ = esrch
	for _, sig := range []struct {
		name string
		v    int64
	}{{"SIGTRAP/seccomp", p.Sys("SIGTRAP")}, {"SIGSTOP", p.Sys("SIGSTOP")}, {"SIGSEGV", p.Sys("SIGSEGV")}, {"SIGCHLD", p.Sys("SIGCHLD")}} {
		for _, cause := range []int64{p.Unix("PTRACE_EVENT_SECCOMP"), p.Unix("PTRACE_EVENT_CLONE"), p.Unix("PTRACE_EVENT_EXEC"), 0, 99} {
			if sig.name != "SIGTRAP/seccomp" && cause != 0 {
				continue
			}
			var bad []string
			w := &walker{fn: handle}
			contSeen := map[*wstate]bool{}
			w.Seed = func(w *walker, st *wstate, v ssa.Value) *absVal {
				if x, ok := v.(*ssa.Call); ok {
					n, callee := calleeOf(x)
					switch {
					case isWaitStatusMethod(n, "Exited"), isWaitStatusMethod(n, "Signaled"):
						return avBool(false)
					case isWaitStatusMethod(n, "Stopped"):
						return avBool(true)
					case isWaitStatusMethod(n, "StopSignal"):
						return avInt(sig.v)
					case isWaitStatusMethod(n, "TrapCause"):
						return avInt(cause)
					}
					if callee != nil && inModule(callee) && callee.Signature.Results().Len() == 1 && isErrorType(callee.Signature.Results().At(0).Type()) {
						return &absVal{k: avNil}
					}
				}
				return nil
			}
			w.OnInstr = func(w *walker, st *wstate, in ssa.Instruction) {
				if ci, ok := in.(ssa.CallInstruction); ok {
					if n, _ := calleeOf(ci); strings.HasSuffix(n, ".PtraceCont") {
						contSeen[st] = true
						st.mem["@cont"] = avBool(true)
					}
				}
			}
			w.OnReturn = func(w *walker, st *wstate, ret *ssa.Return, rs []*absVal) {
				status := statusName(sc, rs[0])
				fin, _ := rs[3].Bool()
				_, cont := st.mem["@cont"]
				if status == "StatusNormal" && !fin && !cont {
					bad = append(bad, p.Pos(ret.Pos()))
				}
			}
			w.Run()
			c.Cond(len(bad) == 0, "3/progress", fmt.Sprintf("ptracer.%s:stop(%s,cause=%d)", handle.Name(), sig.name, cause), p.Pos(handle.Pos()), "the stopped tracee is continued or the run ends with a verdict",
				"a stop is left without continuing the tracee and without a verdict (the run hangs while the program is alive): returns at "+strings.Join(uniq(bad), ", "))
		}
	}
	// the trap context names the task that stopped: its Pid is written once, where the context is built (a later
	// write redirects the skip / register requests to a task that is not stopped: ESRCH, and the stopped task is
	// never resumed)
	nPid := 0
	var badPid []string
	for _, fn := range p.PkgFuncs("ptracer") {
		for _, b := range fn.Blocks {
			for _, in := range b.Instrs {
				st, ok := in.(*ssa.Store)
				if !ok {
					continue
				}
				fa, ok := st.Addr.(*ssa.FieldAddr)
				if !ok || fieldName(fa.X.Type(), fa.Field) != "Pid" || !strings.HasSuffix(derefType(fa.X.Type()).String(), "ptracer.Context") {
					continue
				}
				nPid++
				if !isFreshObject(fa.X, 0) {
					badPid = append(badPid, fn.Name()+"@"+p.Pos(st.Pos()))
				}
			}
		}
	}
	c.Cond(nPid >= 1 && len(badPid) == 0, "3/progress", "ptracer.Context.Pid:single-writer", "ptracer/", "the context's pid is set only where the context is built", "the pid of an existing trap context is overwritten ("+strings.Join(badPid, ", ")+"): requests for this stop go to another task")
	c.Expect("3/progress", 9)
}

// checkLoopsInS: every loop in S is bounded.
func checkLoopsInS(c *Check, S map[*ssa.Function]bool) {
	p := c.P
	var fns []*ssa.Function
	for f := range S {
		fns = append(fns, f)
	}
	sort.Slice(fns, func(i, j int) bool { return shortName(fns[i]) < shortName(fns[j]) })
	n := 0
	for _, f := range fns {
		for _, h := range f.Blocks {
			if !isLoopHeader(h) {
				continue
			}
			n++
			key := fmt.Sprintf("%s:loop@%s", shortName(f), h.Comment)
			pos := "-"
			for _, in := range h.Instrs {
				if in.Pos().IsValid() {
					pos = p.Pos(in.Pos())
					break
				}
			}
			kind, ok := classifyLoop(f, h)
			c.Cond(ok, "4/loops-terminate", key+"#"+fmt.Sprint(h.Index), pos, "loop is bounded: "+kind, "a loop in code driven by the traced program has no recognised bound ("+kind+"): the tracer can spin while the tracee sits in its stop")
		}
	}
	c.Expect("4/loops-terminate", 4)
}

// classifyLoop recognises bounded loop shapes by their header.
func classifyLoop(f *ssa.Function, h *ssa.BasicBlock) (string, bool) {
	iff := blockIf(h)
	// range over a map / string iterator
	for _, in := range h.Instrs {
		if _, ok := in.(*ssa.Next); ok {
			return "range over a finite map/string", true
		}
	}
	// rotated loops: the bound test sits in the latch (source of the back edge)
	nBack, nBounded := 0, 0
	for _, pr := range h.Preds {
		if !h.Dominates(pr) {
			continue
		}
		nBack++
		if li := blockIf(pr); li != nil {
			if lb, ok := li.Cond.(*ssa.BinOp); ok && lb.Op == token.LSS && pr.Succs[0] == h {
				// i+1 < N with i a header φ fed by i+1
				if add, ok := stripConv(lb.X).(*ssa.BinOp); ok && add.Op == token.ADD {
					if one, ok := constInt(add.Y); ok && one >= 1 {
						if ph, ok := stripConv(add.X).(*ssa.Phi); ok && ph.Block() == h {
							fed := false
							for _, e := range ph.Edges {
								if stripConv(e) == ssa.Value(add) {
									fed = true
								}
							}
							_, isC := constInt(lb.Y)
							_, isLen := isLenOf(lb.Y)
							if fed && (isC || isLen || strings.HasPrefix(describe(lb.Y), "builtin:len(")) {
								nBounded++
							}
						}
					}
				}
			}
		}
	}
	if nBack > 0 && nBack == nBounded {
		return "counter below a constant/len() tested on every back edge", true
	}
	if iff == nil {
		// `for {}` with breaks: look for a structural variant
		return variantLoop(f, h)
	}
	bo, ok := iff.Cond.(*ssa.BinOp)
	if !ok {
		return variantLoop(f, h)
	}
	// i < len(x) / i < const with i = φ(c, i+1)
	isInduction := func(v ssa.Value) bool {
		v = stripConv(v)
		if b, ok := v.(*ssa.BinOp); ok && b.Op == token.ADD {
			if one, ok := constInt(b.Y); ok && one == 1 {
				v = stripConv(b.X)
			}
		}
		ph, ok := v.(*ssa.Phi)
		if !ok {
			return false
		}
		for _, e := range ph.Edges {
			if b, ok := stripConv(e).(*ssa.BinOp); ok && b.Op == token.ADD {
				if k, ok := constInt(b.Y); ok && k >= 1 {
					x := stripConv(b.X)
					if x == ssa.Value(ph) {
						return true
					}
					// rangeindex form: φ = [−1, t] with t = φ + 1 computed in the header
					if bb, ok := x.(*ssa.Phi); ok && bb == ph {
						return true
					}
				}
			}
		}
		return false
	}
	if bo.Op == token.LSS && isInduction(bo.X) {
		if _, isLen := isLenOf(bo.Y); isLen {
			return "index below len()", true
		}
		if _, isC := constInt(bo.Y); isC {
			return "index below a constant", true
		}
		// a length captured before the loop
		if strings.HasPrefix(describe(bo.Y), "builtin:len(") {
			return "index below len()", true
		}
	}
	return variantLoop(f, h)
}

// variantLoop: loops with a structural variant — a slice/string that strictly shrinks on every back edge.
func variantLoop(f *ssa.Function, h *ssa.BasicBlock) (string, bool) {
	for _, in := range h.Instrs {
		ph, ok := in.(*ssa.Phi)
		if !ok {
			continue
		}
		t := ph.Type().String()
		if t != "string" && !strings.HasPrefix(t, "[]") {
			continue
		}
		shrinks := 0
		back := 0
		for i, e := range ph.Edges {
			if !h.Dominates(h.Preds[i]) {
				continue // loop entry
			}
			back++
			switch x := e.(type) {
			case *ssa.Slice:
				// x[n:] with n ≥ 1 on this path, or x[:p] with p < len
				if stripConv(x.X) == ssa.Value(ph) && x.Low != nil && x.High == nil {
					// n != 0 guard dominates
					if domEdge(f, x.Block(), func(cond ssa.Value) (bool, bool) {
						bo, ok := cond.(*ssa.BinOp)
						if !ok || stripConv(bo.X) != stripConv(x.Low) {
							return false, false
						}
						z, isC := constInt(bo.Y)
						if !isC || z != 0 {
							return false, false
						}
						return true, bo.Op == token.NEQ || bo.Op == token.GTR
					}) {
						shrinks++
					}
				}
			case *ssa.Call:
				if _, callee := calleeOf(x); callee != nil && inModule(callee) && len(x.Call.Args) == 1 && stripConv(x.Call.Args[0]) == ssa.Value(ph) && strictPrefixHelper(callee) {
					shrinks++
				}
			}
		}
		if back > 0 && shrinks == back {
			return "a " + t + " that strictly shrinks on every iteration", true
		}
	}
	return "no induction variable below a bound and no shrinking buffer", false
}

var _ = ast.Inspect

// stdPrefixHelpers: standard-library string helpers small enough to be inlined whose slicing is guarded by their
// own length test.
var stdPrefixHelpers = map[string]bool{
	"strings.CutPrefix": true, "strings.CutSuffix": true, "strings.TrimPrefix": true, "strings.TrimSuffix": true, "strings.Cut": true,
	"bytes.CutPrefix": true, "bytes.CutSuffix": true, "bytes.TrimPrefix": true, "bytes.TrimSuffix": true, "bytes.Cut": true,
}
