package main

// C10 — the container RPC never desynchronises; program-caused failures keep it usable.

import (
	"fmt"
	"go/token"
	"go/types"
	"sort"
	"strings"

	"golang.org/x/tools/go/ssa"
)

func init() {
	register("C10", "E2: both endpoints of the container protocol are explored path by path (interprocedural conditional constant propagation over message contents; the callback closure stored in Runner.SyncFunc is inlined; forkexec.Start is replaced by its E1 summary: it may fail before the callback, because of it, or AFTER it returned nil) and turned into two communicating finite-state machines; the product with one FIFO queue per direction is explored exhaustively for every sequence of {Ping, conf, Open, Symlink, Delete, Reset, Execve} with every interleaving of cancel, child exit, kill and reply. Reported: the container terminating for a reason other than transport loss or a failed configuration (e.g. a command arriving in a state with no arm for it), an orphan reply (host idle with a reply still queued), desynchronisation (a call returned while the container still waits inside it), deadlock, queue overflow. Plus structural rules: every blocking operation of the host methods observes 'done'; both socket loops route errors to the function that closes 'done' once; the handlers guard request-controlled dereferences (nil command bodies, empty lists, empty argument vector). Does not decide gob fidelity (C19), real-time behaviour of Ping's deadline, or scheduler fairness.", checkC10)
}

func checkC10(c *Check) {
	p := c.P
	e := buildE2(p)
	for _, pr := range e.problems {
		c.Undecided("E2/extract", "container.protocol:"+pr, "-", pr)
	}
	if e.host == nil || e.cont == nil {
		return
	}
	// sanity of the extraction (anti-vacuity)
	countTrans := func(m *cfsm, kind string) int {
		n := 0
		for _, ts := range m.trans {
			for _, t := range ts {
				if t.kind == kind {
					n++
				}
			}
		}
		return n
	}
	hs, hr := countTrans(e.host, "!"), countTrans(e.host, "?")
	cs, cr := countTrans(e.cont, "!"), countTrans(e.cont, "?")
	c.Cond(hs >= 9 && hr >= 9 && cs >= 9 && cr >= 9, "E2/extract", "container.protocol:automata", "container/", fmt.Sprintf("host: %d nodes, %d sends, %d receives; container: %d nodes, %d sends, %d receives", len(e.host.nodes), hs, hr, len(e.cont.nodes), cs, cr),
		fmt.Sprintf("extracted automata are implausibly small (host %d!/%d?, container %d!/%d?): transport primitives not recognised", hs, hr, cs, cr))
	// alphabet check: every send kind is known
	for _, m := range []*cfsm{e.host, e.cont} {
		for _, ts := range m.trans {
			for _, t := range ts {
				if strings.HasPrefix(t.msg, "?unknown") {
					c.Undecided("E2/extract", m.name+":message-kind@"+t.pos, t.pos, "cannot determine the kind of a message sent here (not built by a literal with constant discriminating fields)")
				}
			}
		}
	}
	c.Expect("E2/extract", 1)

	capacity := 4
	if c.Tier == "thorough" {
		capacity = 8
	}
	res := e.explore(capacity)
	c.Extra["states"] = res.states
	c.Extra["transitions"] = res.transitions
	c.Extra["max_queue_length"] = res.maxQueue
	c.Extra["host_nodes"] = len(e.host.nodes)
	c.Extra["container_nodes"] = len(e.cont.nodes)
	c.Extra["queue_capacity"] = capacity
	// per-method summary: the sets of message sequences (for the evidence)
	c.Extra["host_methods"] = methodLanguages(e.host)

	byKind := map[string][]prodViolation{}
	for _, v := range res.violations {
		k := v.kind
		if i := strings.Index(k, "("); i >= 0 {
			k = k[:i]
		}
		byKind[k] = append(byKind[k], v)
	}
	kinds := []string{"container-exit:unknown-command", "orphan-reply", "desync", "deadlock", "unspecified-reception", "queue-overflow"}
	for _, k := range kinds {
		found := false
		for vk, vs := range byKind {
			if !strings.HasPrefix(vk, k) {
				continue
			}
			found = true
			// report the shortest trace of each distinct (host method, container handler) pair
			sort.Slice(vs, func(i, j int) bool { return len(vs[i].trace) < len(vs[j].trace) })
			seen := map[string]bool{}
			for _, v := range vs {
				op := lastCall(v.trace)
				key := "container.protocol:" + k + "@" + op
				if seen[key] {
					continue
				}
				seen[key] = true
				c.FailD("2/product", key, "container/", v.kind+"; "+e.describeState(v.state)+"; shortest joint trace: "+strings.Join(compactTrace(v.trace), " ; "), map[string]any{"trace": v.trace, "state": e.describeState(v.state)})
			}
		}
		if !found {
			c.OK("2/product", "container.protocol:no-"+k, "container/", fmt.Sprintf("no %s in %d product states / %d transitions (queue capacity %d, max length reached %d)", k, res.states, res.transitions, capacity, res.maxQueue))
		}
	}
	for vk, vs := range byKind {
		known := false
		for _, k := range kinds {
			if strings.HasPrefix(vk, k) {
				known = true
			}
		}
		if !known {
			v := vs[0]
			c.FailD("2/product", "container.protocol:"+vk, "container/", v.kind+"; "+e.describeState(v.state)+"; trace: "+strings.Join(compactTrace(v.trace), " ; "), map[string]any{"trace": v.trace})
		}
	}
	c.Expect("2/product", 6)
	c.Cond(res.states > 100, "2/product", "container.protocol:explored", "container/", fmt.Sprintf("%d product states explored exhaustively", res.states), fmt.Sprintf("only %d product states: exploration is vacuous", res.states))

	// ---------- 4: prompt failure after transport loss (who-may-block) ----------
	n := 0
	for _, fn := range p.PkgFuncs("container") {
		if !operatesOn(fn, "container.container") || fn.Name() == "recvLoop" {
			continue
		}
		for _, op := range chanOpsOf(fn) {
			n++
			key := fmt.Sprintf("container.(host)%s:%s(%s)", fn.Name(), op.kind, strings.Join(shortChans(op.chans), ","))
			c.Cond(op.kind == "select" && hasSuffixAny(op.chans, ".done"), "4/prompt-failure", key, p.Pos(op.instr.Pos()), "observes 'done'", "a blocking channel operation of a host method without the 'done' arm: once the transport is lost this call (and, holding the mutex, every later one including Destroy) hangs instead of failing promptly")
		}
	}
	c.Expect("4/prompt-failure", 4)

	// ---------- 5: unknown command terminates (documented) ----------
	if hc := p.Func("container", "containerServer.handleCmd"); hc != nil {
		var outs []string
		w := &walker{fn: hc}
		w.Seed = func(w *walker, st *wstate, v ssa.Value) *absVal {
			if f, ok := v.(*ssa.Field); ok && fieldName(f.X.Type(), f.Field) == "Cmd" {
				return avInt(99)
			}
			if u, ok := v.(*ssa.UnOp); ok && strings.HasSuffix(describe(u), ".Cmd") {
				return avInt(99)
			}
			return nil
		}
		w.OnReturn = func(w *walker, st *wstate, ret *ssa.Return, rs []*absVal) { outs = append(outs, rs[0].String()) }
		w.Run()
		ok := len(outs) == 1 && outs[0] != "nil"
		c.Cond(ok, "5/unknown-command", "container.handleCmd:default", p.Pos(hc.Pos()), "an unknown command makes the serve loop return an error (container exits, as documented)", fmt.Sprintf("an unknown command yields %v", outs))
	}

	// ---------- 3b: request-controlled dereferences are guarded ----------
	for _, t := range []struct{ fn, what, guard string }{
		{"containerServer.handleExecve", "cmd (execve body)", "cmd == nil"},
		{"containerServer.handleDelete", "delete body", "delete == nil"},
	} {
		fn := p.Func("container", t.fn)
		if fn == nil {
			continue
		}
		ok := false
		for _, b := range fn.Blocks {
			if iff := blockIf(b); iff != nil && b == fn.Blocks[0] {
				// a nil test of the body (either polarity) whose nil side answers with an error reply and returns
				if bo, eq, _, isEq := eqEdges(iff); isEq && isNilConst(bo.Y) && leadsToReturn(b.Succs[eq], 3) {
					ok = true
				}
			}
		}
		c.Cond(ok, "3/usable-after-failure", "container."+strings.TrimPrefix(t.fn, "containerServer.")+":nil-body", p.Pos(fn.Pos()), "a missing "+t.what+" is answered with an error reply", "a missing "+t.what+" is dereferenced (panic → the container exits)")
	}
	if he := p.Func("container", "containerServer.handleExecve"); he != nil {
		// Argv[0] and files[0] are indexed only under a length guard
		cd := controlDeps(he)
		for _, b := range he.Blocks {
			for _, in := range b.Instrs {
				ia, ok := in.(*ssa.IndexAddr)
				if !ok {
					continue
				}
				idx, isC := constInt(ia.Index)
				if !isC || idx != 0 {
					continue
				}
				if _, isAlloc := ia.X.(*ssa.Alloc); isAlloc {
					continue
				}
				d := describe(ia.X)
				g := cd.guardOf(b)
				ok2 := false
				for _, a := range Support(g) {
					if strings.Contains(a, "len(") && strings.HasSuffix(a, "== 0") {
						if v, _, _ := Valid(fImp(g, fNot(fLit(a)))); v {
							ok2 = true
						}
					}
				}
				c.Cond(ok2, "3/usable-after-failure", "container.handleExecve:index0("+d+")", p.Pos(ia.Pos()), "element 0 is taken only of a non-empty list", "element 0 of "+d+" is taken without a length guard: a request with an empty list panics the container")
			}
		}
	}
	// prepareExec's Args[0] guard lives in C07/E1 (checkPrepareExec)
	if r, err := buildE1(p); err == nil {
		before := len(c.Obs)
		checkPrepareExec(c, r)
		for i := before; i < len(c.Obs); i++ {
			c.Obs[i].Rule = strings.Replace(c.Obs[i].Rule, "3/fail-kill-reap", "3/usable-after-failure", 1)
		}
	}
	c.Expect("3/usable-after-failure", 4)

	// ---------- 6: serialisation (shared with C17.5) ----------
	before := len(c.Obs)
	checkHostMutex(c)
	for i := before; i < len(c.Obs); i++ {
		c.Obs[i].Rule = strings.Replace(c.Obs[i].Rule, "5/env-mutex", "6/serialised", 1)
	}
	delete(c.Expects, c.ID+".5/env-mutex")
	c.Expect("6/serialised", 10)
	// the parameters acted upon are those of this request (no field inherited from the previous message)
	checkFreshDecode(c, "7/request-is-fresh")

	// a sandboxed program cannot end the container init with a catchable signal
	checkIgnoredSignals(c, "8/init-survives-signals", nil, goExitSignals)
	c.Expect("8/init-survives-signals", 1)

	// the handler of a running program and the container's wait goroutine cannot wait for each other: the handler's
	// (unbuffered) request "reap everything" is sent either after it has taken the main result, or while the result
	// channel has room for it (the wait goroutine delivers the main result before it looks at requests again)
	checkNoCircularWait(c, "9/no-circular-wait")

	// a handler learns "reply sent" only after the sender goroutine has written it: what the handler does next
	// (release the files that travel with the reply, serve the next command) must not overtake the write
	checkReplyAcknowledged(c, "10/reply-written-before-success")
	// failures of one call leave nothing behind in the init (descriptors of the sync pair: C12.2), and an open
	// cannot block the single request loop on an object the program planted (regular files only: C14.1)
	importObs(c, "C12", "C12.2/descriptor-pairing", "11/failed-launch-leaves-nothing", nil)
	importObs(c, "C14", "C14.1/container-open", "12/open-cannot-block", func(o Obligation) bool {
		return strings.Contains(o.Key, ":accept@") || strings.Contains(o.Key, ":pre-check")
	})
	c.Expect("12/open-cannot-block", 2)
}

func checkReplyAcknowledged(c *Check, rule string) {
	p := c.P
	n := 0
	for _, fn := range p.PkgFuncs("container") {
		if !operatesOn(fn, "container.containerServer") {
			continue
		}
		for _, b := range fn.Blocks {
			for _, in := range b.Instrs {
				sel, ok := in.(*ssa.Select)
				if !ok {
					continue
				}
				for _, st := range sel.States {
					if st.Dir != types.SendOnly || !strings.HasSuffix(describe(st.Chan), ".sendCh") {
						continue
					}
					n++
					key := "container." + fn.Name() + ":queued-reply"
					// the acknowledgement channel travelling with the reply
					var ack ssa.Value
					if u, ok := st.Send.(*ssa.UnOp); ok {
						if a, ok := u.X.(*ssa.Alloc); ok && a.Referrers() != nil {
							for _, r := range *a.Referrers() {
								if fa, ok := r.(*ssa.FieldAddr); ok && fa.Referrers() != nil {
									if _, isChan := derefType(fa.Type()).Underlying().(*types.Chan); !isChan {
										continue
									}
									for _, r2 := range *fa.Referrers() {
										if s2, ok := r2.(*ssa.Store); ok {
											ack = s2.Val
										}
									}
								}
							}
						}
					}
					if ack == nil {
						c.Fail(rule, key, p.Pos(sel.Pos()), "the queued reply carries no acknowledgement channel: the handler continues (releases the reply's files, serves the next command) before the sender goroutine has written the reply")
						continue
					}
					isAck := func(in2 ssa.Instruction) bool {
						switch x := in2.(type) {
						case *ssa.Select:
							for _, s2 := range x.States {
								if s2.Dir == types.RecvOnly && s2.Chan == ack {
									return true
								}
							}
						case *ssa.UnOp:
							return x.Op == token.ARROW && x.X == ack
						}
						return false
					}
					isNilRet := func(in2 ssa.Instruction) bool {
						ret, ok := in2.(*ssa.Return)
						return ok && len(ret.Results) > 0 && isNilConst(retVal(ret, len(ret.Results)-1))
					}
					early, trail := pathQuery{fn: fn, from: sel, target: isNilRet, stop: isAck}.find()
					c.Cond(!early, rule, key, p.Pos(sel.Pos()), "success is returned only after the sender acknowledged the write",
						"success is returned without waiting for the sender goroutine ("+p.trail(trail)+"): the handler may release the descriptors that travel with the reply before they were sent")
				}
			}
		}
	}
	if n == 0 {
		c.Undecided(rule, "container:queued-reply", "-", "no reply is queued for a sender goroutine")
	}
	c.Expect(rule, 1)
}

func lastCall(trace []string) string {
	op := "?"
	for _, t := range trace {
		if strings.HasPrefix(t, "host: call ") {
			op = strings.TrimPrefix(t, "host: call ")
		}
	}
	return op
}

func compactTrace(trace []string) []string {
	var out []string
	for _, t := range trace {
		if strings.HasPrefix(t, "host: idle") || strings.HasPrefix(t, "container: handler-done") {
			continue
		}
		if i := strings.Index(t, " @"); i >= 0 {
			t = t[:i]
		}
		out = append(out, t)
	}
	if len(out) > 24 {
		out = append(out[:10], append([]string{"…"}, out[len(out)-12:]...)...)
	}
	return out
}

// methodLanguages: for the evidence — the message sequences of each host method.
func methodLanguages(m *cfsm) map[string][]string {
	out := map[string][]string{}
	for root, name := range m.method {
		seen := map[string]bool{}
		var rec func(n int, acc []string, depth int)
		rec = func(n int, acc []string, depth int) {
			if depth > 12 {
				return
			}
			if m.retn[n] {
				s := strings.Join(acc, " ")
				if !seen[s] {
					seen[s] = true
					out[name] = append(out[name], s)
				}
				return
			}
			for _, t := range m.trans[n] {
				a := acc
				if t.kind != "t" {
					a = append(append([]string{}, acc...), t.kind+t.msg)
				} else if t.msg == "cancel" {
					a = append(append([]string{}, acc...), "(cancel)")
				}
				rec(t.to, a, depth+1)
			}
		}
		rec(root, nil, 0)
		sort.Strings(out[name])
		if len(out[name]) > 12 {
			out[name] = out[name][:12]
		}
	}
	return out
}

func checkNoCircularWait(c *Check, rule string) {
	p := c.P
	hs := p.Func("container", "containerServer.handleExecveStarted")
	if hs == nil {
		c.Undecided(rule, "container.handleExecveStarted", "-", "function not found")
		return
	}
	// capacity of the result channel, where the server is built
	capRes := int64(-1)
	for _, fn := range p.PkgFuncs("container") {
		for _, b := range fn.Blocks {
			for _, in := range b.Instrs {
				st, ok := in.(*ssa.Store)
				if !ok {
					continue
				}
				fa, ok := st.Addr.(*ssa.FieldAddr)
				if !ok || fieldName(fa.X.Type(), fa.Field) != "waitPidResult" {
					continue
				}
				if mk, ok := st.Val.(*ssa.MakeChan); ok {
					if v, isC := constInt(mk.Size); isC {
						capRes = v
					}
				}
			}
		}
	}
	isResultRecv := func(in ssa.Instruction) bool {
		u, ok := in.(*ssa.UnOp)
		return ok && u.Op == token.ARROW && strings.HasSuffix(describe(u.X), ".waitPidResult")
	}
	// the select arm that received the result counts as having it
	resultArm := map[string]int{}
	for _, b := range hs.Blocks {
		for _, in := range b.Instrs {
			if s, ok := in.(*ssa.Select); ok {
				for k, st := range s.States {
					if strings.HasSuffix(describe(st.Chan), ".waitPidResult") {
						resultArm[describe(s)] = k
					}
				}
			}
		}
	}
	edgeOK := func(bb *ssa.BasicBlock, k int) bool {
		if iff := blockIf(bb); iff != nil {
			a, neg := condLit(iff.Cond)
			for sel, idx := range resultArm {
				if a == fmt.Sprintf("%s#0 == %d", sel, idx) && ((k == 0) != neg) {
					return false // this edge is the arm that already holds the result
				}
			}
		}
		return true
	}
	n := 0
	for _, b := range hs.Blocks {
		for _, in := range b.Instrs {
			snd, ok := in.(*ssa.Send)
			if !ok || !strings.HasSuffix(describe(snd.Chan), ".waitAll") {
				continue
			}
			n++
			early, trail := pathQuery{fn: hs, target: func(x ssa.Instruction) bool { return x == ssa.Instruction(snd) }, stop: isResultRecv, edgeOK: edgeOK}.find()
			c.Cond(!early || capRes >= 1, rule, fmt.Sprintf("container.%s:waitAll#%d", hs.Name(), n), p.Pos(snd.Pos()),
				fmt.Sprintf("reap-all is requested after the main result was taken, or the result channel is buffered (capacity %d)", capRes),
				"the handler requests reap-all before it has taken the main result ("+p.trail(trail)+") and the result channel is unbuffered: the wait goroutine blocks delivering the result while the handler blocks delivering the request — the container never answers again")
		}
	}
	c.Cond(n >= 1 && capRes >= 0, rule, "container."+hs.Name()+":sites", p.Pos(hs.Pos()), fmt.Sprintf("%d reap-all requests, result channel capacity %d", n, capRes), "cannot find the reap-all requests or the construction of the result channel")
	c.Expect(rule, 2)
}
