package main

// C02 — the file-access policy is consulted about the object the kernel will really touch.

import (
	"fmt"
	"go/token"
	"sort"
	"strings"

	"golang.org/x/tools/go/ssa"
)

func init() {
	register("C02", "Decides: (1) the argument-decoding table — for every path-taking syscall name the dispatch of the runner's handler is specialised by constant propagation and the helper it calls, the register that feeds the directory descriptor / path / flags slot and the access class (read / write / stat, by the policy method the helper consults) are compared with the Linux signatures (man-pages 2), including two-path calls; (2) directory descriptors pass through a 32-bit signed truncation of the register (the kernel takes 'int dfd'); (3) open classification: read-only iff O_ACCMODE==O_RDONLY and neither O_CREAT nor O_TRUNC (nor O_EXCL), everything else and an unreadable open_how are writes (fail closed); (4) no lexical normalisation (Clean/Join/Dir/Abs collapse '..') is applied to a raw, not yet symlink-resolved path — raw = read from the tracee's memory or from a tracee-side symlink (known findings listed per sink); every symlink target read from the tracee's tree is passed through the /proc/self normaliser for that tracee; (5) the proc-alias policy is consulted on the resolved name before the file policy and its block verdict is honoured; (6) base selection: cwd iff AT_FDCWD, root iff absolute, else the descriptor's path, and an unknown descriptor yields the empty (refused) path. NOT decided: equality of the resolver's answer with the kernel's on concrete forests (value-level), NOFOLLOW final-component behaviour, check/use races.", checkC02)
	thoroughArchs["C02"] = []string{"arm64", "arm"}
}

// sysSig is one row of the reference table: per checked path, (dirfd argument or -1, path argument), class, and the flags/how argument for opens.
type sysSig struct {
	class string // read | write | stat | open
	paths [][2]int
	flags int // argument index of flags (open/openat) or of the open_how pointer (openat2), -1 otherwise
}

var linuxPathSyscalls = map[string]sysSig{
	"open": {"open", [][2]int{{-1, 0}}, 1}, "openat": {"open", [][2]int{{0, 1}}, 2}, "openat2": {"open", [][2]int{{0, 1}}, 2},
	"readlink": {"read", [][2]int{{-1, 0}}, -1}, "readlinkat": {"read", [][2]int{{0, 1}}, -1},
	"unlink": {"write", [][2]int{{-1, 0}}, -1}, "unlinkat": {"write", [][2]int{{0, 1}}, -1},
	"mkdirat": {"write", [][2]int{{0, 1}}, -1}, "mknodat": {"write", [][2]int{{0, 1}}, -1},
	"fchmodat": {"write", [][2]int{{0, 1}}, -1}, "fchmodat2": {"write", [][2]int{{0, 1}}, -1},
	"symlinkat": {"write", [][2]int{{1, 2}}, -1},
	"linkat":    {"write", [][2]int{{0, 1}, {2, 3}}, -1},
	"renameat":  {"write", [][2]int{{0, 1}, {2, 3}}, -1}, "renameat2": {"write", [][2]int{{0, 1}, {2, 3}}, -1},
	"rename": {"write", [][2]int{{-1, 0}, {-1, 1}}, -1},
	"access": {"stat", [][2]int{{-1, 0}}, -1}, "faccessat": {"stat", [][2]int{{0, 1}}, -1}, "faccessat2": {"stat", [][2]int{{0, 1}}, -1},
	"stat": {"stat", [][2]int{{-1, 0}}, -1}, "stat64": {"stat", [][2]int{{-1, 0}}, -1}, "lstat": {"stat", [][2]int{{-1, 0}}, -1}, "lstat64": {"stat", [][2]int{{-1, 0}}, -1},
	"statx": {"stat", [][2]int{{0, 1}}, -1}, "fstatat": {"stat", [][2]int{{0, 1}}, -1}, "fstatat64": {"stat", [][2]int{{0, 1}}, -1}, "newfstatat": {"stat", [][2]int{{0, 1}}, -1},
	"execve": {"read", [][2]int{{-1, 0}}, -1}, "execveat": {"read", [][2]int{{0, 1}}, -1},
	"chmod": {"write", [][2]int{{-1, 0}}, -1},
}

type helperInfo struct {
	fn      *ssa.Function
	class   string // read|write|stat|open
	hasDir  bool
	dirIdx  int // parameter index (incl. receiver) of dirfd
	pathIdx int
	flagIdx int
}

func checkC02(c *Check) {
	p := c.P
	const rp = "runner/ptrace"
	h := p.Func(rp, "tracerHandler.Handle")
	if h == nil {
		c.Undecided("1/argument-table", rp+".Handle", "-", "function not found")
		return
	}
	// ---------- helpers: classify by structure ----------
	helpers := map[*ssa.Function]*helperInfo{}
	for _, ci := range callInstrsDeep(h, 2) {
		_, callee := calleeOf(ci)
		if callee == nil || !inModule(callee) || callee.Signature.Recv() == nil || helpers[callee] != nil {
			continue
		}
		if callee.Signature.Results().Len() != 1 || !strings.HasSuffix(callee.Signature.Results().At(0).Type().String(), "TraceAction") || len(callee.Params) < 3 {
			continue
		}
		hi := &helperInfo{fn: callee, dirIdx: -1, pathIdx: -1, flagIdx: -1}
		classes := map[string]bool{}
		for _, c2 := range callInstrs(callee) {
			if c2.Common().IsInvoke() {
				switch c2.Common().Method.Name() {
				case "CheckRead":
					classes["read"] = true
				case "CheckWrite":
					classes["write"] = true
				case "CheckStat":
					classes["stat"] = true
				}
			}
		}
		switch {
		case classes["read"] && classes["write"]:
			hi.class = "open"
		case len(classes) == 1:
			for k := range classes {
				hi.class = k
			}
		default:
			continue
		}
		// parameters: (h, ctx, [dirfd int], addr uint, [flags uint])
		for i, pr := range callee.Params {
			if i < 2 {
				continue
			}
			switch pr.Type().String() {
			case "int":
				hi.hasDir = true
				hi.dirIdx = i
			case "uint":
				if hi.pathIdx < 0 {
					hi.pathIdx = i
				} else {
					hi.flagIdx = i
				}
			}
		}
		helpers[callee] = hi
	}
	c.Cond(len(helpers) >= 8, "1/argument-table", rp+".Handle:helpers", p.Pos(h.Pos()), fmt.Sprintf("%d check helpers classified by the policy method they consult", len(helpers)), fmt.Sprintf("only %d check helpers recognised", len(helpers)))

	// ---------- 1: the table ----------
	var names []string
	for n := range linuxPathSyscalls {
		names = append(names, n)
	}
	sort.Strings(names)
	type callRec struct {
		hi   *helperInfo
		args []string
		raw  []ssa.Value
	}
	specialise := func(name string) ([]callRec, []string) {
		var recs []callRec
		var rets []string
		w := &walker{fn: h}
		w.Seed = func(w *walker, st *wstate, v ssa.Value) *absVal {
			switch x := v.(type) {
			case *ssa.Extract:
				if call, ok := x.Tuple.(*ssa.Call); ok {
					if n, _ := calleeOf(call); strings.HasSuffix(n, ".ToSyscallName") {
						if x.Index == 0 {
							return avC(constantString(name))
						}
						return &absVal{k: avNil}
					}
				}
			case *ssa.Call:
				n, callee := calleeOf(x)
				if strings.Contains(n, "ptracer.Context).Arg") {
					return avTag(strings.TrimPrefix(n[strings.LastIndex(n, ".")+1:], "Arg"))
				}
				if hi := helpers[callee]; hi != nil {
					rec := callRec{hi: hi}
					for _, a := range x.Call.Args {
						rec.args = append(rec.args, w.eval(st, a).String())
						rec.raw = append(rec.raw, a)
					}
					recs = append(recs, rec)
					return avTag("verdict")
				}
			}
			return nil
		}
		w.OnReturn = func(w *walker, st *wstate, ret *ssa.Return, rs []*absVal) { rets = append(rets, rs[0].String()) }
		w.Run()
		return recs, rets
	}
	for _, name := range names {
		sig := linuxPathSyscalls[name]
		recs, _ := specialise(name)
		key := rp + ".Handle:" + name
		pos := p.Pos(h.Pos())
		// de-duplicate records produced on several paths
		seen := map[string]bool{}
		var got []callRec
		for _, r := range recs {
			k := r.hi.fn.Name() + strings.Join(r.args, ",")
			if !seen[k] {
				seen[k] = true
				got = append(got, r)
			}
		}
		if len(got) != len(sig.paths) {
			c.Fail("1/argument-table", key, pos, fmt.Sprintf("%s: %d path checks are made, the syscall takes %d path(s)", name, len(got), len(sig.paths)))
			continue
		}
		okAll := true
		var why []string
		for i, want := range sig.paths {
			r := got[i]
			wantClass := sig.class
			if r.hi.class != wantClass {
				okAll = false
				why = append(why, fmt.Sprintf("path %d is checked as %s, the call %ss", i+1, r.hi.class, map[string]string{"read": "read", "write": "write", "stat": "stat", "open": "open"}[wantClass]))
			}
			if (want[0] >= 0) != r.hi.hasDir {
				okAll = false
				why = append(why, fmt.Sprintf("path %d: directory-descriptor form mismatch (kernel dirfd arg %d, helper %s)", i+1, want[0], r.hi.fn.Name()))
				continue
			}
			if want[0] >= 0 && r.args[r.hi.dirIdx] != fmt.Sprintf("«%d»", want[0]) {
				okAll = false
				why = append(why, fmt.Sprintf("path %d: dirfd is taken from register %s, the kernel reads it from argument %d", i+1, r.args[r.hi.dirIdx], want[0]))
			}
			if r.args[r.hi.pathIdx] != fmt.Sprintf("«%d»", want[1]) {
				okAll = false
				why = append(why, fmt.Sprintf("path %d: pathname is taken from register %s, the kernel reads it from argument %d", i+1, r.args[r.hi.pathIdx], want[1]))
			}
			if sig.flags >= 0 {
				if r.hi.flagIdx < 0 || r.args[r.hi.flagIdx] != fmt.Sprintf("«%d»", sig.flags) {
					okAll = false
					why = append(why, fmt.Sprintf("flags/open_how is not taken from argument %d", sig.flags))
				}
			}
			// rule 2: dirfd width
			if want[0] >= 0 {
				okW := false
				if c1, ok := r.raw[r.hi.dirIdx].(*ssa.Convert); ok && c1.Type().String() == "int" {
					if c2, ok := c1.X.(*ssa.Convert); ok && c2.Type().String() == "int32" {
						okW = true
					}
				}
				c.Cond(okW, "2/dirfd-width", fmt.Sprintf("%s#%d", key, i+1), pos, "directory descriptor is the low 32 bits of the register, sign-extended", "the directory descriptor of "+name+" is not decoded as int32(register): a zero-extended AT_FDCWD or garbage in the upper half selects the wrong base directory")
			}
		}
		c.Cond(okAll, "1/argument-table", key, pos, fmt.Sprintf("%s decoded per its Linux signature (%s, %v)", name, sig.class, sig.paths), name+": "+strings.Join(why, "; "))
	}
	c.Expect("1/argument-table", 30)
	c.Expect("2/dirfd-width", 18)
	// names handled by the switch but unknown to the reference table
	known := map[string]bool{}
	for n := range linuxPathSyscalls {
		known[n] = true
	}
	for _, b := range h.Blocks {
		for _, in := range b.Instrs {
			if bo, ok := in.(*ssa.BinOp); ok && bo.Op == token.EQL {
				if s, ok := constString(bo.Y); ok && strings.Contains(describe(bo.X), "ToSyscallName") && !known[s] {
					c.Fail("1/argument-table", rp+".Handle:"+s, p.Pos(bo.Pos()), "the handler treats '"+s+"' as a path-taking syscall that the reference table does not know")
				}
			}
		}
	}

	// ---------- 3: open classification ----------
	checkOpenClass(c, helpers)

	// ---------- 4: lexical normalisation ----------
	checkLexical(c)

	// ---------- 5: proc-alias policy order ----------
	for _, hi := range sortedHelpers(helpers) {
		fn := hi.fn
		var proc ssa.CallInstruction
		var pol []ssa.CallInstruction
		for _, ci := range callInstrs(fn) {
			if _, callee := calleeOf(ci); callee != nil && callee.Name() == "checkProcPath" {
				proc = ci
			}
			if ci.Common().IsInvoke() && strings.HasPrefix(ci.Common().Method.Name(), "Check") {
				pol = append(pol, ci)
			}
		}
		ok := proc != nil && len(pol) > 0
		if ok {
			// same resolved name
			name := proc.Common().Args[len(proc.Common().Args)-1]
			for _, pc := range pol {
				if !dominatesInstr(proc, pc) || pc.Common().Args[0] != name {
					ok = false
				}
				// the policy call is on the not-blocked side
				g := controlDeps(fn).guardOf(pc.Block())
				blocked := false
				for _, a := range Support(g) {
					if strings.Contains(a, "checkProcPath") && strings.HasSuffix(a, "#0") {
						v, _, _ := Valid(fImp(g, fNot(fLit(a))))
						blocked = v
					}
				}
				if !blocked {
					ok = false
				}
			}
		}
		c.Cond(ok, "5/proc-alias-first", rp+"."+fn.Name(), p.Pos(fn.Pos()), "the proc-alias policy sees the resolved name first and a block verdict is final", "the file policy is consulted without (or regardless of) the proc-alias policy on the same resolved name")
	}
	c.Expect("5/proc-alias-first", 8)

	// ---------- 6: base selection ----------
	checkBaseSelection(c)

	// ---------- 7-10: reader, fresh bases, no dropped step, no remembered state ----------
	checkC02Reader(c)
	checkChunkedReader(c)
	checkConstFormats(c)
}

func sortedHelpers(m map[*ssa.Function]*helperInfo) []*helperInfo {
	var out []*helperInfo
	for _, h := range m {
		out = append(out, h)
	}
	sort.Slice(out, func(i, j int) bool { return out[i].fn.Name() < out[j].fn.Name() })
	return out
}

func checkOpenClass(c *Check, helpers map[*ssa.Function]*helperInfo) {
	p := c.P
	const rp = "runner/ptrace"
	ro := p.Func(rp, "isOpenReadOnly")
	if ro == nil {
		c.Undecided("3/open-class", rp+".isOpenReadOnly", "-", "function not found")
		return
	}
	O := func(n string) int64 { return p.Sys("O_" + n) }
	cases := []struct {
		label string
		v     int64
		want  bool
	}{{"O_RDONLY", O("RDONLY"), true}, {"O_RDONLY|O_CLOEXEC", O("RDONLY") | O("CLOEXEC"), true}, {"O_WRONLY", O("WRONLY"), false}, {"O_RDWR", O("RDWR"), false},
		{"O_RDONLY|O_CREAT", O("RDONLY") | O("CREAT"), false}, {"O_RDONLY|O_TRUNC", O("RDONLY") | O("TRUNC"), false}, {"O_RDONLY|O_CREAT|O_EXCL", O("RDONLY") | O("CREAT") | O("EXCL"), false},
		{"O_WRONLY|O_APPEND", O("WRONLY") | O("APPEND"), false}, {"3 (invalid access mode)", 3, false}, {"O_RDONLY|O_DIRECTORY|O_NOFOLLOW", O("RDONLY") | O("DIRECTORY") | O("NOFOLLOW"), true}}
	for _, t := range cases {
		var outs []string
		w := &walker{fn: ro}
		w.Seed = func(w *walker, st *wstate, v ssa.Value) *absVal {
			if pr, ok := v.(*ssa.Parameter); ok && pr == ro.Params[0] {
				return avInt(t.v)
			}
			return nil
		}
		w.OnReturn = func(w *walker, st *wstate, ret *ssa.Return, rs []*absVal) { outs = append(outs, rs[0].String()) }
		w.Run()
		got := strings.Join(uniq(outs), "|")
		c.Cond(got == fmt.Sprint(t.want), "3/open-class", rp+".isOpenReadOnly:"+t.label, p.Pos(ro.Pos()), fmt.Sprintf("%s ⇒ read-only=%v", t.label, t.want), fmt.Sprintf("flags %s are classified read-only=%s, want %v (any open that can create, truncate or write is a write)", t.label, got, t.want))
	}
	// the open helpers: CheckRead iff isOpenReadOnly, else CheckWrite; how-read failure ⇒ CheckWrite
	for _, hi := range sortedHelpers(helpers) {
		if hi.class != "open" {
			continue
		}
		fn := hi.fn
		for _, sce := range []struct {
			label          string
			readOnly, hErr bool
			want           string
		}{{"read-only", true, false, "CheckRead"}, {"not read-only", false, false, "CheckWrite"}, {"open_how unreadable", true, true, "CheckWrite"}} {
			var outs []string
			usesHow := false
			w := &walker{fn: fn}
			w.Seed = func(w *walker, st *wstate, v ssa.Value) *absVal {
				switch x := v.(type) {
				case *ssa.Call:
					_, callee := calleeOf(x)
					if x.Call.IsInvoke() && strings.HasPrefix(x.Call.Method.Name(), "Check") && x.Call.Method.Name() != "CheckSyscall" {
						return avTag(x.Call.Method.Name())
					}
					if callee != nil && callee.Name() == "isOpenReadOnly" {
						return avBool(sce.readOnly)
					}
				case *ssa.Extract:
					if call, ok := x.Tuple.(*ssa.Call); ok {
						_, callee := calleeOf(call)
						if callee != nil && callee.Name() == "checkProcPath" {
							if x.Index == 0 {
								return avBool(false)
							}
						}
						if callee != nil && callee.Name() == "readOpenHowFlags" {
							usesHow = true
							if x.Index == 1 {
								if sce.hErr {
									return avTag("how-error")
								}
								return &absVal{k: avNil}
							}
						}
					}
				case *ssa.BinOp:
					if x.Op == token.NEQ && isNilConst(x.Y) && strings.Contains(describe(x.X), "readOpenHowFlags") {
						return avBool(sce.hErr)
					}
				}
				return nil
			}
			w.OnReturn = func(w *walker, st *wstate, ret *ssa.Return, rs []*absVal) { outs = append(outs, rs[0].String()) }
			w.Run()
			if sce.hErr && !usesHow {
				continue
			}
			got := strings.Join(uniq(outs), "|")
			c.Cond(got == "«"+sce.want+"»", "3/open-class", rp+"."+fn.Name()+":"+sce.label, p.Pos(fn.Pos()), sce.label+" ⇒ "+sce.want, fmt.Sprintf("%s with %s asks the policy %s, want %s", fn.Name(), sce.label, got, sce.want))
		}
	}
	c.Expect("3/open-class", 16)
}

// ---------- rule 4: taint of raw paths into lexical normalisers ----------

func checkLexical(c *Check) {
	p := c.P
	const rp = "runner/ptrace"
	fns := p.PkgFuncs(rp)
	sinks := map[string]bool{"path/filepath.Clean": true, "path/filepath.Join": true, "path/filepath.Dir": true, "path/filepath.Abs": true}
	rawParam := map[*ssa.Parameter]bool{}
	rawRet := map[*ssa.Function]bool{}
	// resolved producers: results of these are kernel-canonical or the resolver's output
	isResolvedProducer := func(fn *ssa.Function) bool {
		n := fn.Name()
		return n == "getProcCwd" || n == "getProcFd" || n == "resolveTraceePath" || n == "absPath" || n == "absPathAt" || n == "getString" || n == "getStringAt"
	}
	var isRaw func(v ssa.Value, d int) bool
	isRaw = func(v ssa.Value, d int) bool {
		if d > 12 || v == nil {
			return false
		}
		switch x := v.(type) {
		case *ssa.Parameter:
			return rawParam[x]
		case *ssa.Const:
			return false
		case *ssa.Call:
			n, callee := calleeOf(x)
			if strings.HasSuffix(n, "ptracer.Context).GetString") {
				return true
			}
			if callee != nil && inModule(callee) {
				if isResolvedProducer(callee) {
					return false
				}
				return rawRet[callee]
			}
			// the result of a lexical normaliser is reported (once) at that sink; downstream it counts as laundered
			if sinks[n] {
				return false
			}
			// library string functions propagate
			if strings.HasPrefix(n, "strings.") || strings.HasPrefix(n, "path/filepath.") {
				for _, a := range x.Call.Args {
					if isRaw(a, d+1) {
						return true
					}
				}
			}
			return false
		case *ssa.Extract:
			if call, ok := x.Tuple.(*ssa.Call); ok {
				n, callee := calleeOf(call)
				if n == "os.Readlink" && x.Index == 0 {
					// a link in the tracee's tree (path under /proc/<pid>/root) is raw; /proc/<pid>/cwd|fd/N are kernel-canonical
					return strings.Contains(describe(call.Call.Args[0]), "/root")
				}
				if callee != nil && inModule(callee) && !isResolvedProducer(callee) {
					return rawRet[callee]
				}
			}
			return false
		case *ssa.BinOp:
			return isRaw(x.X, d+1) || isRaw(x.Y, d+1)
		case *ssa.Phi:
			for _, e := range x.Edges {
				if isRaw(e, d+1) {
					return true
				}
			}
			return false
		case *ssa.Slice:
			if a, ok := x.X.(*ssa.Alloc); ok {
				if els, ok := arrayLitElems(a); ok {
					for _, e := range els {
						if isRaw(e, d+1) {
							return true
						}
					}
					return false
				}
			}
			return isRaw(x.X, d+1)
		case *ssa.UnOp:
			if x.Op == token.MUL {
				if ia, ok := x.X.(*ssa.IndexAddr); ok {
					return isRaw(ia.X, d+1)
				}
			}
			return isRaw(x.X, d+1)
		case *ssa.Convert:
			return isRaw(x.X, d+1)
		case *ssa.MakeInterface:
			return isRaw(x.X, d+1)
		}
		return false
	}
	// fixed point over parameters and returns
	for iter := 0; iter < 6; iter++ {
		changed := false
		for _, fn := range fns {
			for _, ci := range callInstrs(fn) {
				_, callee := calleeOf(ci)
				if callee == nil || !inModule(callee) || callee.Pkg != fn.Pkg {
					continue
				}
				for i, a := range ci.Common().Args {
					if i < len(callee.Params) && callee.Params[i].Type().String() == "string" && isRaw(a, 0) && !rawParam[callee.Params[i]] {
						rawParam[callee.Params[i]] = true
						changed = true
					}
				}
			}
			for _, b := range fn.Blocks {
				if ret, ok := b.Instrs[len(b.Instrs)-1].(*ssa.Return); ok {
					for _, r := range ret.Results {
						if r.Type().String() == "string" && isRaw(r, 0) && !rawRet[fn] {
							rawRet[fn] = true
							changed = true
						}
					}
				}
			}
		}
		if !changed {
			break
		}
	}
	// plain component: an element of a Split result used after the ""/"."/".." tests
	isPlain := func(v ssa.Value, at *ssa.BasicBlock) bool {
		u, ok := v.(*ssa.UnOp)
		if !ok {
			return false
		}
		if _, ok := u.X.(*ssa.IndexAddr); !ok {
			return false
		}
		dd := domEdge(at.Parent(), at, func(cond ssa.Value) (bool, bool) {
			bo, ok := cond.(*ssa.BinOp)
			if !ok || bo.Op != token.EQL || bo.X != v {
				return false, false
			}
			s, ok := constString(bo.Y)
			return ok && s == "..", false
		})
		return dd
	}
	nSinks := 0
	ord := map[string]int{}
	for _, fn := range fns {
		for _, ci := range callInstrs(fn) {
			n, _ := calleeOf(ci)
			if !sinks[n] {
				continue
			}
			nSinks++
			short := n[strings.LastIndex(n, "/")+1:]
			ord[fn.Name()+short]++
			key := fmt.Sprintf("%s.%s:%s#%d", rp, fn.Name(), short, ord[fn.Name()+short])
			var rawArgs []string
			args := ci.Common().Args
			var vals []ssa.Value
			if len(args) == 1 {
				if sl, ok := args[0].(*ssa.Slice); ok {
					if a, ok := sl.X.(*ssa.Alloc); ok {
						if els, ok := arrayLitElems(a); ok {
							vals = els
						}
					}
				}
			}
			if vals == nil {
				vals = args
			}
			for _, a := range vals {
				if isRaw(a, 0) && !isPlain(a, ci.Block()) {
					rawArgs = append(rawArgs, describe(a))
				}
			}
			if len(rawArgs) == 0 {
				c.OK("4/lexical-normalisation", key, p.Pos(ci.Pos()), "applied to resolved prefixes / plain components only")
			} else {
				c.Fail("4/lexical-normalisation", key, p.Pos(ci.Pos()), short+" lexically normalises a path that is not yet symlink-resolved ("+strings.Join(rawArgs, ", ")+"): 'link/../x' is presented to the policy as 'x' while the kernel follows the link first")
			}
		}
	}
	c.Expect("4/lexical-normalisation", 12)
	// symlink targets are normalised for /proc/self with the tracee's pid before use
	if once := p.Func(rp, "resolveTraceePathOnce"); once != nil {
		ok := false
		// the readlink may sit in the step function or in a helper of it; its result may travel through returns and
		// φ-nodes, but the first thing done with it is the /proc/self normaliser (with the tracee's pid)
		for _, ci := range callInstrsDeep(once, 2) {
			if n, _ := calleeOf(ci); n == "os.Readlink" {
				v := ci.(ssa.Value)
				for _, r := range *v.Referrers() {
					ex, isE := r.(*ssa.Extract)
					if !isE || ex.Index != 0 {
						continue
					}
					nUses := 0
					var follow func(v ssa.Value, d int) bool
					follow = func(v ssa.Value, d int) bool {
						if d > 6 || v.Referrers() == nil {
							return false
						}
						for _, u := range *v.Referrers() {
							switch x := u.(type) {
							case *ssa.DebugRef:
							case *ssa.Phi:
								if !follow(x, d+1) {
									return false
								}
							case *ssa.Return:
								// continue at the call sites of this function, on the same result index
								idx := -1
								for i, rv := range x.Results {
									if rv == v {
										idx = i
									}
								}
								for _, cs := range staticCallSites(x.Parent()) {
									cv, isV := cs.(ssa.Value)
									if !isV || cv.Referrers() == nil {
										return false
									}
									if len(x.Results) == 1 {
										if !follow(cv, d+1) {
											return false
										}
										continue
									}
									for _, cr := range *cv.Referrers() {
										if ce, ok := cr.(*ssa.Extract); ok && ce.Index == idx {
											if !follow(ce, d+1) {
												return false
											}
										}
									}
								}
							case *ssa.Call:
								_, callee := calleeOf(x)
								if callee != nil && callee.Name() == "normalizeProcMagicPath" && len(x.Call.Args) == 2 && x.Call.Args[1] == v {
									if _, isParam := x.Call.Args[0].(*ssa.Parameter); isParam {
										nUses++
										continue
									}
								}
								return false
							default:
								return false
							}
						}
						return true
					}
					ok = follow(ex, 0) && nUses > 0
				}
			}
		}
		c.Cond(ok, "4/proc-self-in-targets", rp+".resolveTraceePathOnce:symlink-target", p.Pos(once.Pos()), "a symlink target is rewritten from /proc/self to the tracee's /proc/<pid> before it is used", "a symlink target read from the tracee's tree is used without /proc/self normalisation: '/dev/stdin → /proc/self/fd/0' is resolved through the tracer's own /proc/self")
		c.Expect("4/proc-self-in-targets", 1)
	}
}

func checkBaseSelection(c *Check) {
	p := c.P
	const rp = "runner/ptrace"
	fn := p.Func(rp, "absPathAt")
	if fn == nil {
		c.Undecided("6/base-selection", rp+".absPathAt", "-", "function not found")
		return
	}
	atfdcwd := int64(-100)
	type sce struct {
		label string
		abs   bool
		dirfd int64
		fdDir string // result of getProcFd ("" = unknown descriptor)
		want  string // base passed to the resolver, or "ret:" for a direct return
	}
	for _, s := range []sce{
		{"absolute", true, 7, "/d", `base="/"`}, {"relative,AT_FDCWD", false, atfdcwd, "/d", "base=«cwd»"},
		{"relative,dirfd", false, 7, "«fd»", "base=«fd»"}, {"relative,unknown dirfd", false, 7, "", `ret:""`},
	} {
		var outs []string
		w := &walker{fn: fn}
		w.Seed = func(w *walker, st *wstate, v ssa.Value) *absVal {
			switch x := v.(type) {
			case *ssa.Parameter:
				if x.Type().String() == "int" && x != fn.Params[0] {
					return avInt(s.dirfd)
				}
			case *ssa.Call:
				n, callee := calleeOf(x)
				if n == "path/filepath.IsAbs" {
					return avBool(s.abs)
				}
				if callee != nil && callee.Name() == "getProcCwd" {
					return avTag("cwd")
				}
				if callee != nil && callee.Name() == "getProcFd" {
					if s.fdDir == "" {
						return avC(constantString(""))
					}
					return avTag("fd")
				}
				if callee != nil && callee.Name() == "resolveTraceePath" {
					return avTag("base=" + w.eval(st, x.Call.Args[1]).String())
				}
			case *ssa.BinOp:
				if call, ok := x.X.(*ssa.Call); ok && (x.Op == token.EQL || x.Op == token.NEQ) {
					if _, callee := calleeOf(call); callee != nil && callee.Name() == "getProcFd" {
						if sv, ok := constString(x.Y); ok && sv == "" {
							return avBool((s.fdDir == "") == (x.Op == token.EQL))
						}
					}
				}
			}
			return nil
		}
		w.OnReturn = func(w *walker, st *wstate, ret *ssa.Return, rs []*absVal) {
			r := rs[0].String()
			if strings.HasPrefix(r, "«base=") {
				outs = append(outs, strings.TrimSuffix(strings.TrimPrefix(r, "«"), "»"))
			} else {
				outs = append(outs, "ret:"+r)
			}
		}
		w.Run()
		got := strings.Join(uniq(outs), "|")
		c.Cond(got == s.want, "6/base-selection", rp+".absPathAt:"+s.label, p.Pos(fn.Pos()), s.label+" ⇒ "+s.want, fmt.Sprintf("%s ⇒ %s, want %s (an unknown descriptor must yield the empty path, which every policy refuses)", s.label, got, s.want))
	}
	// dirfd of the pid parameter: the first int parameter is the pid — make sure the AT_FDCWD constant is −100
	v, ok := p.ConstInt(repoModule+"/"+rp, "atFDCWD")
	c.Cond(ok && v == p.Unix("AT_FDCWD"), "6/base-selection", rp+".atFDCWD", "-", "AT_FDCWD constant is −100", fmt.Sprintf("atFDCWD is %d, the kernel's AT_FDCWD is %d", v, p.Unix("AT_FDCWD")))
	c.Expect("6/base-selection", 5)
}
