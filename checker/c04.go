package main

// C04 — the program starts in exactly the requested security state, for
// every option set. Decided over E1's guard formulas by exhaustive
// truth-table enumeration.

import (
	"fmt"
	"go/constant"
	"go/token"
	"go/types"
	"sort"
	"strings"

	"golang.org/x/tools/go/ssa"
)

func init() {
	register("C04", "E1 extracts every raw syscall of the forked child with the boolean guard (over configuration atoms such as Credential!=nil, DropCaps, Seccomp!=nil, Ptrace, SyncFunc!=nil, UnshareCgroupAfterSync, clone-flag bits, pivot root) under which it executes on the success path; obligations O1..O10 (capability drop exactly once iff requested, no_new_privs iff requested or filtered, seccomp load exactly once iff a filter is given, identity calls in order with the matching fields, session/tty, workdir/host/domain name, clone flag word, every state-setting call's failure edge leads to the no-return child exit with a location, id-map order, caller literals) are decided for ALL configurations by enumerating every truth assignment of the atoms each formula mentions. Decides presence, multiplicity, order, constant arguments and failure disposition of the steps; does not decide that the kernel honours them.", checkC04)
}

// e1ctx bundles helpers for E1-based checks.
type e1ctx struct {
	c     *Check
	r     *e1Result
	nEnum int
}

func newE1ctx(c *Check) *e1ctx {
	r, err := buildE1(c.P)
	if err != nil {
		c.Undecided("E1/resolve", "forkexec.launch-sequence", "-", err.Error())
		return nil
	}
	for _, pr := range r.Problems {
		c.Undecided("E1/resolve", "forkexec.child:"+pr, "-", pr)
	}
	x := &e1ctx{c: c, r: r}
	return x
}

func (x *e1ctx) pos(e *e1Event) string { return x.c.P.Pos(e.Call.Pos()) }

// valid decides a formula for all assignments.
func (x *e1ctx) valid(rule, key, pos string, f *Form, okMsg, failMsg string) bool {
	ok, cex, n := Valid(f)
	x.nEnum += n
	if ok {
		x.c.OK(rule, key, pos, fmt.Sprintf("%s (all %d assignments of %d atoms)", okMsg, n, len(Support(f))))
		return true
	}
	x.c.FailD(rule, key, pos, failMsg+"; counterexample configuration: "+cexString(cex), map[string]any{"configuration": cex, "events": x.r.eventList()})
	return false
}

// iffExactlyOne: cond ⇒ exactly one of evs executes; ¬cond ⇒ none does.
func (x *e1ctx) iffExactlyOne(rule, key string, cond *Form, evs []*e1Event, what string) {
	pos := "-"
	if len(evs) > 0 {
		pos = x.pos(evs[0])
	}
	if len(evs) == 0 {
		// no site at all: violated unless cond is unsatisfiable
		x.valid(rule, key, x.c.P.Pos(x.r.Child.Pos()), fNot(cond), "", "no "+what+" site exists in the child although it is required when "+cond.String())
		return
	}
	gs := guardsOf(evs)
	x.valid(rule, key+":present", pos, fImp(cond, exactlyOne(gs)), what+" executes exactly once whenever "+cond.String(),
		what+" is skipped or repeated in a configuration that requires it")
	x.valid(rule, key+":absent", pos, fImp(fNot(cond), noneOf(gs)), what+" never executes unless "+cond.String(),
		what+" executes in a configuration that did not ask for it")
}

// ordered: whenever both a and b execute, a precedes b.
func (x *e1ctx) ordered(rule, key string, as, bs []*e1Event, whatA, whatB string) {
	for _, a := range as {
		for _, b := range bs {
			if a == b {
				continue
			}
			if evBeforeE1(a, b) {
				x.c.OK(rule, key+":"+a.Site+"<"+b.Site, x.pos(b), whatA+" precedes "+whatB)
				continue
			}
			// not ordered a<b in program order: they must be mutually exclusive
			x.valid(rule, key+":"+a.Site+"<"+b.Site, x.pos(b), fNot(fAnd(a.Guard, b.Guard)),
				whatA+" ("+a.Site+") and "+whatB+" ("+b.Site+") never execute in the same configuration",
				whatB+" ("+b.Site+" at "+x.pos(b)+") can execute before or without a preceding "+whatA+" ("+a.Site+")")
		}
	}
}

func (x *e1ctx) sel(name string, pred func(e *e1Event) bool) []*e1Event {
	var out []*e1Event
	for _, e := range x.r.ByName[name] {
		if pred == nil || pred(e) {
			out = append(out, e)
		}
	}
	return out
}

func (x *e1ctx) execEvents() []*e1Event {
	return append(x.sel("execve", nil), x.sel("execveat", nil)...)
}

func checkC04(c *Check) {
	x := newE1ctx(c)
	if x == nil {
		return
	}
	r := x.r
	p := c.P
	c.Extra["events"] = r.eventList()
	c.Extra["config_atoms"] = sortedAtoms(r.Atoms, "config")
	c.Extra["data_atoms"] = sortedAtoms(r.Atoms, "data")
	c.Extra["role_params"] = r.ParamOf

	credNil, dropCaps, nnp, secNil := r.NilF("Credential"), r.A("DropCaps"), r.A("NoNewPrivs"), r.NilF("Seccomp")
	ptrace, ucas, ctty := r.A("Ptrace"), r.A("UnshareCgroupAfterSync"), r.A("CTTY")
	D := fOr(fNot(credNil), dropCaps)

	// anchor sanity: the atoms the reference formulas use must exist in the extracted program
	for _, a := range []*Form{credNil, dropCaps, nnp, secNil, ptrace, ucas, ctty, r.NilF("SyncFunc"), r.A("StopBeforeSeccomp")} {
		_, ok := r.Atoms[a.Atom]
		c.Cond(ok, "E1/atoms", "atom:"+a.Atom, p.Pos(r.Child.Pos()), "configuration atom found in the child's branch conditions",
			"configuration atom "+a.Atom+" not found among the child's branch conditions (field renamed or condition rewritten: reference formulas cannot be evaluated)")
	}
	c.Expect("E1/atoms", 9)

	prSecurebits := p.Sys("PR_SET_SECUREBITS")
	prNNP := p.Unix("PR_SET_NO_NEW_PRIVS")
	const secNoRoot, secNoRootLocked, secNoFix, secNoFixLocked, secKeepLocked = 1, 2, 4, 8, 0x20
	const dropBits = secNoRoot | secNoRootLocked | secNoFix | secNoFixLocked | secKeepLocked

	isSecurebits := func(e *e1Event) bool { v, ok := e.argInt(0); return ok && v == prSecurebits }
	P := x.sel("prctl", func(e *e1Event) bool {
		v, ok := e.argInt(1)
		return isSecurebits(e) && ok && v&secNoRoot != 0
	})
	Caps := x.sel("capset", nil)
	execs := x.execEvents()
	c.Cond(len(execs) >= 2, "E1/events", "exec-sites", p.Pos(r.Child.Pos()), fmt.Sprintf("%d exec sites found", len(execs)), "no execve/execveat site found in the child")

	// ---- O1 capability drop
	x.iffExactlyOne("O1/cap-drop", "prctl(SECUREBITS,NOROOT…)", D, P, "the NOROOT securebits prctl")
	x.iffExactlyOne("O1/cap-drop", "capset(0)", D, Caps, "capset(all zero)")
	for _, e := range P {
		v, _ := e.argInt(1)
		c.Cond(v&dropBits == dropBits, "O1/cap-drop", "securebits:"+e.Site, x.pos(e),
			fmt.Sprintf("securebits %#x ⊇ NOROOT|NOROOT_LOCKED|NO_SETUID_FIXUP(_LOCKED)|KEEP_CAPS_LOCKED", v),
			fmt.Sprintf("securebits %#x lacks bits %#x", v, dropBits&^v))
	}
	for _, e := range Caps {
		hg, dg := globalOf(e.arg(0)), globalOf(e.arg(1))
		okH, okD := false, false
		if hg != nil {
			if m, ok := globalStructConsts(p, hg); ok {
				if ver, ok := m["Version"]; ok {
					want := p.Unix("LINUX_CAPABILITY_VERSION_3")
					if v, ok := constant.Int64Val(constant.ToInt(ver)); ok && v == want {
						okH = true
					}
				}
				if pid, ok := m["Pid"]; ok {
					if v, ok := constant.Int64Val(constant.ToInt(pid)); !ok || v != 0 {
						okH = false
					}
				}
			}
		}
		if dg != nil {
			okD = globalAllZero(p, dg)
		}
		c.Cond(okH && okD, "O1/cap-drop", "capset-args:"+e.Site, x.pos(e), "capset(header v3 pid 0, data all zero)",
			"capset arguments are not the all-zero capability sets with a version-3 header for the calling process: "+e.argDesc(0)+", "+e.argDesc(1))
		// the kernel copies as many 32-bit data structs as the header's version says (1 for version 1, 2 for
		// versions 2 and 3), whatever the caller allocated: a shorter buffer makes it read the neighbouring variables
		if okH && dg != nil {
			have := p.sizes().Sizeof(dg.Type().(*types.Pointer).Elem())
			c.Cond(have >= 24, "O1/cap-drop", "capset-data-size:"+e.Site, x.pos(e), fmt.Sprintf("the data buffer (%d bytes) covers the two structs a version-3 header announces", have),
				fmt.Sprintf("the header announces version 3 (two data structs, 24 bytes) but %s is only %d bytes: the kernel reads the following %d bytes of unrelated memory as the sets of capabilities 32..63", dg.Name(), have, 24-have))
		}
		// nobody writes the two globals
		for _, g := range []*ssa.Global{hg, dg} {
			if g == nil {
				continue
			}
			ws := storesToGlobal(p, g)
			c.Cond(len(ws) == 0, "O1/cap-drop", "global-immutable:"+g.Name(), x.pos(e), g.Name()+" is never written after initialisation",
				g.Name()+" is written at "+strings.Join(ws, ", "))
		}
	}
	x.ordered("O1/cap-drop", "prctl<capset", P, Caps, "NOROOT securebits", "capset")
	x.ordered("O1/cap-drop", "setuid<drop", x.sel("setuid", nil), P, "setuid", "capability drop")
	x.ordered("O1/cap-drop", "unshare<drop", x.sel("unshare", nil), P, "unshare(CLONE_NEWCGROUP)", "capability drop")
	x.ordered("O1/cap-drop", "capset<exec", Caps, execs, "capset", "exec")
	c.Expect("O1/cap-drop", 12)

	// ---- O2 no_new_privs
	N := x.sel("prctl", func(e *e1Event) bool {
		v, ok := e.argInt(0)
		one, ok1 := e.argInt(1)
		return ok && v == prNNP && ok1 && one == 1
	})
	S := x.sel("seccomp", nil)
	x.iffExactlyOne("O2/no-new-privs", "prctl(NO_NEW_PRIVS,1)", fOr(nnp, fNot(secNil)), N, "prctl(PR_SET_NO_NEW_PRIVS,1)")
	x.ordered("O2/no-new-privs", "nnp<seccomp", N, S, "no_new_privs", "seccomp load")
	x.ordered("O2/no-new-privs", "nnp<exec", N, execs, "no_new_privs", "exec")
	c.Expect("O2/no-new-privs", 4)

	// ---- O3 seccomp iff given
	e1SeccompObligations(x, "O3/seccomp")
	c.Expect("O3/seccomp", 10)

	// ---- O4 identity
	G, U, SG := x.sel("setgid", nil), x.sel("setuid", nil), x.sel("setgroups", nil)
	x.iffExactlyOne("O4/identity", "setgid", fNot(credNil), G, "setgid")
	x.iffExactlyOne("O4/identity", "setuid", fNot(credNil), U, "setuid")
	gidNil, enable := r.NilF("GIDMappings"), r.A("GIDMappingsEnableSetgroups")
	ngroups0 := fLit("builtin:len(" + r.R + ".Credential.Groups) == 0")
	noSet := fLit(r.R + ".Credential.NoSetGroups")
	skip := fOr(fAnd(fNot(gidNil), fNot(enable), ngroups0), noSet)
	x.iffExactlyOne("O4/identity", "setgroups", fAnd(fNot(credNil), fNot(skip)), SG, "setgroups")
	for _, e := range G {
		c.Cond(e.argDesc(0) == r.R+".Credential.Gid", "O4/identity", "setgid-arg:"+e.Site, x.pos(e), "setgid(Credential.Gid)", "setgid argument is "+e.argDesc(0))
	}
	for _, e := range U {
		c.Cond(e.argDesc(0) == r.R+".Credential.Uid", "O4/identity", "setuid-arg:"+e.Site, x.pos(e), "setuid(Credential.Uid)", "setuid argument is "+e.argDesc(0))
	}
	for _, e := range SG {
		okLen := e.argDesc(0) == "builtin:len("+r.R+".Credential.Groups)"
		okPtr := strings.Contains(e.argDesc(1), "groups") || strings.Contains(e.argDesc(1), "Credential.Groups")
		if ph, ok := stripConv(e.arg(1)).(*ssa.Phi); ok {
			okPtr = false
			for _, ed := range ph.Edges {
				if strings.Contains(describe(ed), r.R+".Credential.Groups[0]") {
					okPtr = true
				}
			}
		}
		c.Cond(okLen && okPtr, "O4/identity", "setgroups-args:"+e.Site, x.pos(e), "setgroups(len(Groups), &Groups[0])", "setgroups arguments are ("+e.argDesc(0)+", "+e.argDesc(1)+")")
	}
	x.ordered("O4/identity", "setgroups<setgid", SG, G, "setgroups", "setgid")
	x.ordered("O4/identity", "setgid<setuid", G, U, "setgid", "setuid")
	x.ordered("O4/identity", "setuid<exec", U, execs, "setuid", "exec")
	c.Expect("O4/identity", 12)

	// ---- O5 session / tty
	sid := x.sel("setsid", nil)
	x.iffExactlyOne("O5/session", "setsid", fTrue, sid, "setsid")
	tioc := p.Sys("TIOCSCTTY")
	tty := x.sel("ioctl", func(e *e1Event) bool { v, ok := e.argInt(1); return ok && v == tioc })
	x.iffExactlyOne("O5/session", "ioctl(TIOCSCTTY)", ctty, tty, "ioctl(0,TIOCSCTTY,1)")
	for _, e := range tty {
		fd, ok := e.argInt(0)
		c.Cond(ok && fd == 0, "O5/session", "tty-fd:"+e.Site, x.pos(e), "controlling tty is descriptor 0", "TIOCSCTTY on "+e.argDesc(0))
	}
	x.ordered("O5/session", "setsid<tty", sid, tty, "setsid", "TIOCSCTTY")
	x.ordered("O5/session", "setsid<exec", sid, execs, "setsid", "exec")
	c.Expect("O5/session", 6)

	// ---- O6 workdir, host and domain name
	pivots := x.sel("pivot_root", nil)
	wd := x.sel("chdir", func(e *e1Event) bool { return e.argDesc(0) == r.ParamOf["WorkDir"] })
	x.iffExactlyOne("O6/names", "chdir(workdir)", fNot(r.ParamNil("WorkDir")), wd, "chdir(workdir)")
	x.ordered("O6/names", "pivot<chdir", pivots, wd, "pivot_root", "chdir(workdir)")
	x.ordered("O6/names", "chdir<exec", wd, execs, "chdir(workdir)", "exec")
	for _, nm := range []struct{ sys, role, field string }{{"sethostname", "HostName", "HostName"}, {"setdomainname", "DomainName", "DomainName"}} {
		evs := x.sel(nm.sys, nil)
		x.iffExactlyOne("O6/names", nm.sys, fNot(r.ParamNil(nm.role)), evs, nm.sys)
		for _, e := range evs {
			c.Cond(e.argDesc(0) == r.ParamOf[nm.role] && e.argDesc(1) == "builtin:len("+r.R+"."+nm.field+")", "O6/names", nm.sys+"-args:"+e.Site, x.pos(e),
				nm.sys+"(name, len(name))", nm.sys+" arguments are ("+e.argDesc(0)+", "+e.argDesc(1)+")")
		}
		x.ordered("O6/names", nm.sys+"<exec", evs, execs, nm.sys, "exec")
	}
	c.Expect("O6/names", 12)

	// ---- O7 clone flag word
	checkCloneFlags(x)

	// ---- O8 no silent skip: every state-setting call has a failure edge
	exempt := map[string]string{
		"unshare":   "unshare(CLONE_NEWCGROUP) is documented as not critical",
		"nanosleep": "retry back-off",
		"exit":      "terminal",
		"write":     "",
		"execve":    "falls through to the final child exit with LocExecve",
		"execveat":  "falls through to the final child exit with LocExecve",
	}
	nChecked := 0
	for _, e := range r.Events {
		key := "result-checked:" + e.Site
		if e.Name == "close" {
			// closing a slot the caller marked as 'close this descriptor' may find it closed already
			if _, isConst := e.argInt(0); !isConst && strings.Contains(e.Guard.String(), "== -1") {
				c.OK("O8/no-silent-skip", key, x.pos(e), "close of an absent slot (best effort by design)")
				continue
			}
		}
		if why, ok := exempt[e.Name]; ok && (e.Name != "write" || e.Checked) {
			if !e.Checked {
				c.OK("O8/no-silent-skip", key, x.pos(e), "exempt: "+why)
				continue
			}
		}
		nChecked++
		c.Cond(e.Checked, "O8/no-silent-skip", key, x.pos(e), e.Name+" failure → child exit with "+e.FailLoc,
			"result of "+e.Name+" is ignored: a failure is silently skipped and the launch continues")
	}
	c.Expect("O8/no-silent-skip", 45)
	// failure blocks: the exit call comes before any other syscall in the block
	for b, fc := range r.failBlk {
		bad := ""
		for _, in := range b.Instrs {
			if in == ssa.Instruction(fc) {
				break
			}
			if cc, ok := in.(*ssa.Call); ok {
				if n, _ := calleeOf(cc); isRawSyscallName(n) {
					bad = p.Pos(cc.Pos())
				}
			}
		}
		if bad != "" {
			c.Fail("O8/no-silent-skip", fmt.Sprintf("fail-edge-first:b%d", b.Index), bad, "a syscall is issued on a failure edge before the child exits")
		}
	}

	// ---- O9 id maps (parent)
	checkIDMaps(c)

	// ---- O10 callers build the Runner with the fields the property attributes to them
	checkRunnerLiterals(c)

	c.Extra["assignments_enumerated"] = x.nEnum

	// the state requested is the state of THIS request (container path): no field inherited from the previous message
	checkFreshDecode(c, "O11/request-is-fresh")
	checkDefaultIdentity(c)
	checkChildArguments(c, "O14/child-arguments")
	importObs(c, "C19", "C19.10/wire-types", "O13/config-arrives", nil)
}

// storesToGlobal lists stores to a package-level variable outside package initialisers.
func storesToGlobal(p *Prog, g *ssa.Global) []string {
	var out []string
	for _, fn := range p.AllFuncs() {
		if fn.Name() == "init" || strings.HasPrefix(fn.Name(), "init#") {
			continue
		}
		for _, b := range fn.Blocks {
			for _, in := range b.Instrs {
				st, ok := in.(*ssa.Store)
				if !ok {
					continue
				}
				if rootGlobal(st.Addr) == g {
					out = append(out, p.Pos(st.Pos()))
				}
			}
		}
	}
	sort.Strings(out)
	return out
}

// sharedUsesOfGlobal lists the run-time (non-init) uses of package variable g that
// make it state shared between runs beyond plain assignment: its address (or
// the address of a part of it) handed to a call or method (sync.Map.Store,
// sync.Pool.Put, append through a pointer, ...), map updates, sends.
func sharedUsesOfGlobal(p *Prog, g *ssa.Global) []string {
	var out []string
	for _, fn := range p.AllFuncs() {
		if fn.Name() == "init" || strings.HasPrefix(fn.Name(), "init#") {
			continue
		}
		for _, b := range fn.Blocks {
			for _, in := range b.Instrs {
				switch x := in.(type) {
				case *ssa.MapUpdate:
					if rootGlobal(x.Map) == g {
						out = append(out, p.Pos(x.Pos()))
					}
				case *ssa.Send:
					if rootGlobal(x.Chan) == g {
						out = append(out, p.Pos(x.Pos()))
					}
				case ssa.CallInstruction:
					cc := x.Common()
					args := cc.Args
					if cc.IsInvoke() {
						args = append([]ssa.Value{cc.Value}, args...)
					}
					for _, a := range args {
						if _, isPtr := a.Type().Underlying().(*types.Pointer); !isPtr {
							continue
						}
						if rootGlobal(a) == g {
							out = append(out, p.Pos(in.Pos()))
						}
					}
				}
			}
		}
	}
	sort.Strings(out)
	return out
}

func rootGlobal(v ssa.Value) *ssa.Global {
	for i := 0; i < 8; i++ {
		switch x := v.(type) {
		case *ssa.Global:
			return x
		case *ssa.FieldAddr:
			v = x.X
		case *ssa.IndexAddr:
			v = x.X
		case *ssa.UnOp:
			if x.Op == token.MUL {
				v = x.X
			} else {
				return nil
			}
		case *ssa.Convert:
			v = x.X
		default:
			return nil
		}
	}
	return nil
}

// checkCloneFlags: the flag word passed to clone is CloneFlags&UnshareFlags | SIGCHLD, plus exactly CLONE_VM|CLONE_VFORK under the vfork condition.
func checkCloneFlags(x *e1ctx) {
	c, r, p := x.c, x.r, x.c.P
	var clones []*ssa.Call
	for _, ci := range callInstrs(r.Child) {
		n, _ := calleeOf(ci)
		if strings.HasSuffix(n, "/vfork.RawVforkSyscall") {
			clones = append(clones, ci.(*ssa.Call))
		}
	}
	unshareFlags, ok := p.ConstInt(repoModule+"/pkg/forkexec", "UnshareFlags")
	want := p.Unix("CLONE_NEWIPC") | p.Unix("CLONE_NEWNET") | p.Unix("CLONE_NEWNS") | p.Unix("CLONE_NEWPID") | p.Unix("CLONE_NEWUSER") | p.Unix("CLONE_NEWUTS") | p.Unix("CLONE_NEWCGROUP")
	c.Cond(ok && unshareFlags&want == want, "O7/clone-flags", "UnshareFlags", "pkg/forkexec/consts_linux.go", "UnshareFlags ⊇ the seven namespace bits",
		fmt.Sprintf("UnshareFlags=%#x lacks namespace bits %#x", unshareFlags, want&^unshareFlags))
	vm, vf, sigchld := p.Sys("CLONE_VM"), p.Sys("CLONE_VFORK"), p.Sys("SIGCHLD")
	cdAll := controlDeps(r.Child)
	syncNil, stop, secNil, ptrace := r.NilF("SyncFunc"), r.A("StopBeforeSeccomp"), r.NilF("Seccomp"), r.A("Ptrace")
	nClone := 0
	for _, cl := range clones {
		nr, _ := constInt(cl.Call.Args[0])
		name := p.SyscallNames()[nr]
		pos := p.Pos(cl.Pos())
		switch name {
		case "clone":
			nClone++
			// find the non-zero flag argument
			var fl ssa.Value
			for _, a := range cl.Call.Args[1:] {
				if v, isC := constInt(a); isC && v == 0 {
					continue
				}
				fl = a
			}
			if fl == nil {
				c.Fail("O7/clone-flags", "clone:flag-arg", pos, "clone called without a flag word")
				continue
			}
			// expected shape: (φ(base, base|VMVFORK)) | SIGCHLD with base = r.CloneFlags & UnshareFlags
			bits, phi, okShape := splitOrConst(fl)
			if !okShape || phi == nil {
				c.Undecided("O7/clone-flags", "clone:flag-shape", pos, "flag word is not of the form (base or base|vforkbits) | const: "+describe(fl))
				continue
			}
			c.Cond(bits == sigchld, "O7/clone-flags", "clone:exit-signal", pos, "clone flag word carries exactly SIGCHLD as constant part",
				fmt.Sprintf("constant part of the clone flag word is %#x, want SIGCHLD (%#x) only", bits, sigchld))
			baseDesc := fmt.Sprintf("(%s.CloneFlags & %#x)", r.R, uint64(unshareFlags))
			okEdges := true
			var vforkGuard *Form
			nVfork := 0
			for i, e := range phi.Edges {
				eb, ephi, _ := splitOrConst(e)
				d := ""
				if ephi != nil {
					d = describe(ephi)
				} else {
					b2, rest := splitOrAny(e)
					eb = b2
					d = describe(rest)
				}
				if d != baseDesc {
					okEdges = false
				}
				switch eb {
				case 0:
				case vm | vf:
					nVfork++
					vforkGuard = cdAll.guardOf(phi.Block().Preds[i])
				default:
					c.Fail("O7/clone-flags", "clone:extra-bits", pos, fmt.Sprintf("clone flag word gains bits %#x on one path (only CLONE_VM|CLONE_VFORK=%#x is allowed)", eb, vm|vf))
				}
			}
			c.Cond(okEdges, "O7/clone-flags", "clone:base", pos, "namespace bits are CloneFlags & UnshareFlags", "clone flag base is not "+baseDesc+": "+describe(fl))
			if nVfork == 1 && vforkGuard != nil {
				newuser := fLit(fmt.Sprintf("(%s & %#x) == %#x", baseDesc, p.Sys("CLONE_NEWUSER"), p.Sys("CLONE_NEWUSER")))
				ref := fAnd(syncNil, fNot(stop), fNot(fAnd(fNot(secNil), ptrace)), fNot(newuser))
				x.valid("O7/clone-flags", "clone:vfork-condition", pos, fIff(vforkGuard, ref),
					"CLONE_VM|CLONE_VFORK is used exactly when no sync, no stop and no user namespace are requested",
					"the vfork (shared memory) path is taken under a different condition than SyncFunc=nil ∧ ¬stop ∧ ¬(Seccomp∧Ptrace) ∧ ¬NEWUSER")
			} else {
				c.Fail("O7/clone-flags", "clone:vfork-condition", pos, fmt.Sprintf("%d paths add the vfork bits (expected 1)", nVfork))
			}
		case "clone3":
			nClone++
			// the clone3 record: flags | CLONE_INTO_CGROUP, exitSignal SIGCHLD, cgroup = r.CgroupFd
			okRec := checkClone3Record(c, r, cl)
			_ = okRec
		default:
			c.Fail("O7/clone-flags", "clone:syscall", pos, "child is created by syscall "+name)
		}
	}
	c.Expect("O7/clone-flags", 5)
	_ = nClone
}

// splitOrConst: v = X | const  (or X) where X is a Phi; returns const bits, the phi.
func splitOrConst(v ssa.Value) (int64, *ssa.Phi, bool) {
	v = stripConv(v)
	bits := int64(0)
	for {
		if b, ok := v.(*ssa.BinOp); ok && b.Op == token.OR {
			if cv, isC := constInt(b.Y); isC {
				bits |= cv
				v = stripConv(b.X)
				continue
			}
			if cv, isC := constInt(b.X); isC {
				bits |= cv
				v = stripConv(b.Y)
				continue
			}
		}
		break
	}
	if ph, ok := v.(*ssa.Phi); ok {
		return bits, ph, true
	}
	return bits, nil, true
}

func splitOrAny(v ssa.Value) (int64, ssa.Value) {
	v = stripConv(v)
	bits := int64(0)
	for {
		if b, ok := v.(*ssa.BinOp); ok && b.Op == token.OR {
			if cv, isC := constInt(b.Y); isC {
				bits |= cv
				v = stripConv(b.X)
				continue
			}
			if cv, isC := constInt(b.X); isC {
				bits |= cv
				v = stripConv(b.Y)
				continue
			}
		}
		break
	}
	return bits, v
}

func checkClone3Record(c *Check, r *e1Result, cl *ssa.Call) bool {
	p := c.P
	pos := p.Pos(cl.Pos())
	// the record is an Alloc whose fields are stored in Child
	fields := map[string]ssa.Value{}
	for _, st := range r.Stores {
		if fa, ok := st.Addr.(*ssa.FieldAddr); ok {
			if strings.HasSuffix(derefType(fa.X.Type()).String(), "cloneArgs") {
				fields[fieldName(fa.X.Type(), fa.Field)] = st.Val
			}
		}
	}
	if len(fields) == 0 {
		c.Undecided("O7/clone-flags", "clone3:record", pos, "cannot find the stores that fill the clone3 argument record")
		return false
	}
	into := p.Unix("CLONE_INTO_CGROUP")
	bits, rest := splitOrAny(fields["flags"])
	ok1 := bits&into == into && bits&^into == 0 && rest != nil
	c.Cond(ok1, "O7/clone-flags", "clone3:flags", pos, "clone3 flags = namespace/vfork word | CLONE_INTO_CGROUP", "clone3 flags are "+describe(fields["flags"]))
	es, okc := constInt(fields["exitSignal"])
	c.Cond(okc && es == p.Sys("SIGCHLD"), "O7/clone-flags", "clone3:exit-signal", pos, "clone3 exit signal is SIGCHLD", "clone3 exitSignal is "+describe(fields["exitSignal"]))
	c.Cond(describe(fields["cgroup"]) == r.R+".CgroupFd", "O7/clone-flags", "clone3:cgroup", pos, "clone3 cgroup = CgroupFd", "clone3 cgroup field is "+describe(fields["cgroup"]))
	// used iff CgroupFd > 0
	return ok1
}

// checkIDMaps: uid_map, then setgroups, then gid_map; each error returned.
func checkIDMaps(c *Check) {
	p := c.P
	// the writer: the smallest function of the package from which (directly, or through helpers it calls) the
	// three files /proc/<pid>/{uid_map,setgroups,gid_map} are written
	mapFile := func(ci ssa.CallInstruction) string {
		for _, a := range ci.Common().Args {
			if b, ok := a.(*ssa.BinOp); ok && b.Op == token.ADD {
				// "/proc/<pid>" + "/uid_map" or "/proc/<pid>/" + "uid_map"
				if s, ok := constString(b.Y); ok {
					if s = "/" + strings.TrimPrefix(s, "/"); s == "/uid_map" || s == "/gid_map" || s == "/setgroups" {
						return s
					}
				}
			}
		}
		return ""
	}
	type mapWrite struct {
		file string
		leaf ssa.CallInstruction // the call that names the file
		site ssa.CallInstruction // the call in the writer through which it happens
	}
	writesOf := func(f *ssa.Function) []mapWrite {
		var out []mapWrite
		for _, ci := range callInstrs(f) {
			if s := mapFile(ci); s != "" {
				out = append(out, mapWrite{s, ci, ci})
				continue
			}
			if _, callee := calleeOf(ci); callee != nil && inModule(callee) && callee.Pkg == f.Pkg && callee != f {
				for _, c2 := range callInstrs(callee) {
					if s := mapFile(c2); s != "" {
						out = append(out, mapWrite{s, c2, ci})
					}
				}
			}
		}
		return out
	}
	var fn *ssa.Function
	var writes []mapWrite
	for _, f := range p.PkgFuncs("pkg/forkexec") {
		if f.Parent() != nil {
			continue
		}
		ws := writesOf(f)
		files := map[string]bool{}
		for _, w := range ws {
			files[w.file] = true
		}
		// the three writes are three distinct steps of this function (not one call of a wrapper around the writer)
		sites := map[ssa.CallInstruction]bool{}
		for _, w := range ws {
			sites[w.site] = true
		}
		if len(files) == 3 && len(sites) == 3 && (fn == nil || len(f.Blocks) < len(fn.Blocks)) {
			fn, writes = f, ws
		}
	}
	if fn == nil {
		c.Undecided("O9/id-maps", "forkexec.writeIDMaps", "-", "cannot resolve the function that writes /proc/<pid>/{uid_map,setgroups,gid_map}")
		return
	}
	var order []string
	for _, w := range writes {
		order = append(order, w.file)
	}
	want := []string{"/uid_map", "/setgroups", "/gid_map"}
	okOrder := len(order) == 3
	for i := 0; okOrder && i < 3; i++ {
		if order[i] != want[i] || (i > 0 && !before(writes[i-1].site, writes[i].site)) {
			okOrder = false
		}
	}
	c.Cond(okOrder, "O9/id-maps", "forkexec."+fn.Name()+":order", p.Pos(fn.Pos()), "uid_map < setgroups < gid_map", "id-map files are written in order "+strings.Join(order, " < "))
	// each write's error is returned: a failing write leads to a return of a non-nil error (from the helper, if the
	// write sits in one, and from the writer)
	for _, w := range writes {
		ret := true
		for _, ci := range []ssa.CallInstruction{w.leaf, w.site} {
			if v, ok := ci.(ssa.Value); ok {
				if r1, _ := errPropagated(p, v); !r1 {
					ret = false
				}
			}
		}
		c.Cond(ret, "O9/id-maps", "forkexec."+fn.Name()+":err"+w.file, p.Pos(w.leaf.Pos()), "error of writing "+w.file+" is returned", "error of writing "+w.file+" is not returned")
	}
	// a failed id-map write is relayed to the waiting child as a nonzero word: in the function that calls the
	// writer, on every path on which the writer returned an error, the word handed to the next write(2) on the
	// sync socket is not the constant 0 ("go ahead")
	for _, caller := range p.PkgFuncs("pkg/forkexec") {
		var wcall *ssa.Call
		for _, ci := range callInstrs(caller) {
			if _, callee := calleeOf(ci); callee == fn {
				wcall, _ = ci.(*ssa.Call)
			}
		}
		if wcall == nil {
			continue
		}
		relayed, silent, sites := 0, "", 0
		w := &walker{fn: caller}
		w.Seed = func(w *walker, st *wstate, v ssa.Value) *absVal {
			if v == ssa.Value(wcall) {
				return &absVal{k: avPtr, key: "X:err"}
			}
			call, ok := v.(*ssa.Call)
			if !ok || st.noted("relay-seen") {
				return nil
			}
			if _, failed := st.vals[wcall]; !failed {
				return nil
			}
			n, _ := calleeOf(call)
			if !strings.HasSuffix(n, "syscall.RawSyscall") && !strings.HasSuffix(n, "syscall.Syscall") {
				return nil
			}
			if nr, isC := constInt(call.Call.Args[0]); !isC || nr != p.Sys("SYS_WRITE") {
				return nil
			}
			// the buffer: a local cell
			var cell *ssa.Alloc
			var find func(v ssa.Value, d int)
			find = func(v ssa.Value, d int) {
				if d > 6 || cell != nil {
					return
				}
				switch x := v.(type) {
				case *ssa.Alloc:
					cell = x
				case *ssa.Convert:
					find(x.X, d+1)
				case *ssa.ChangeType:
					find(x.X, d+1)
				}
			}
			find(call.Call.Args[2], 0)
			if cell == nil {
				return nil
			}
			st.note("relay-seen")
			sites++
			word := w.load(st, w.eval(st, cell).key, cell.Type().(*types.Pointer).Elem())
			if word.k == avConst {
				if z, isInt := constant.Int64Val(word.c); isInt && z == 0 {
					silent = p.Pos(call.Pos())
					return nil
				}
			}
			relayed++
			return nil
		}
		w.Run()
		key := "forkexec." + caller.Name() + ":failure-relayed"
		switch {
		case sites == 0:
			c.Fail("O9/id-maps", key, p.Pos(wcall.Pos()), "after a failed id-map write nothing is written to the waiting child")
		case silent != "":
			c.Fail("O9/id-maps", key, silent, "on some path a failed id-map write is followed by writing the constant 0 (go ahead) to the child: the child proceeds in a user namespace without its uid/gid maps and Start reports success")
		default:
			c.OK("O9/id-maps", key, p.Pos(wcall.Pos()), fmt.Sprintf("a failed id-map write reaches the child as a nonzero word on all %d path(s)", relayed))
		}
	}
	// what is written into uid_map / gid_map is computed in this call (from the Runner's mappings or from the ids the
	// process has now): never a package variable filled at some earlier time
	for _, w := range writes {
		if w.file == "/setgroups" {
			continue
		}
		var g *ssa.Global
		for _, a := range w.site.Common().Args {
			if _, isSl := a.Type().Underlying().(*types.Slice); isSl {
				if x := mutableGlobalOrigin(a, 0, map[ssa.Value]bool{}); x != nil {
					g = x
				}
			}
		}
		if w.leaf != w.site {
			for _, a := range w.leaf.Common().Args {
				if _, isSl := a.Type().Underlying().(*types.Slice); isSl {
					if x := mutableGlobalOrigin(a, 0, map[ssa.Value]bool{}); x != nil {
						g = x
					}
				}
			}
		}
		gn := ""
		if g != nil {
			gn = g.Name()
		}
		c.Cond(g == nil, "O9/id-maps", "forkexec."+fn.Name()+":fresh"+w.file, p.Pos(w.site.Pos()), "the content of "+w.file+" is computed in this call",
			"the content of "+w.file+" comes from the package variable "+gn+": ids captured at another time (package initialisation, an earlier launch) are mapped instead of the ids the launcher has now")
	}
	c.Expect("O9/id-maps", 7)
}

// checkRunnerLiterals: the three callers build forkexec.Runner with the security fields attributed to them.
func checkRunnerLiterals(c *Check) {
	p := c.P
	type want struct {
		rel, fn string
		fields  map[string]string // field -> expected description ("true", or suffix of access path)
	}
	for _, w := range []want{
		{"runner/unshare", "Runner.Run", map[string]string{"NoNewPrivs": "true", "DropCaps": "true", "Seccomp": "SockFprog", "CloneFlags": "const", "UnshareCgroupAfterSync": "true", "SyncFunc": ".SyncFunc", "RLimits": ".RLimits", "Files": ".Files", "HostName": ".HostName", "DomainName": ".DomainName", "PivotRoot": ".Root", "Mounts": ".Mounts", "WorkDir": ".WorkDir"}},
		{"runner/ptrace", "Runner.Run", map[string]string{"Ptrace": "true", "Seccomp": "SockFprog", "SyncFunc": ".SyncFunc", "RLimits": ".RLimits", "Files": ".Files", "WorkDir": ".WorkDir"}},
		{"container", "containerServer.handleExecve", map[string]string{"NoNewPrivs": "true", "DropCaps": "true", "RLimits": ".RLimits", "CTTY": ".CTTY", "WorkDir": ".WorkDir", "UnshareCgroupAfterSync": ".UnshareCgroup"}},
	} {
		fn := p.Func(w.rel, w.fn)
		if fn == nil {
			c.Undecided("O10/callers", w.rel+"."+w.fn, "-", "function not found")
			continue
		}
		// the literal is built in the function itself or in a helper of the package it calls (a constructor split off)
		stores := map[string]ssa.Value{}
		scope := []*ssa.Function{fn}
		for _, ci := range callInstrs(fn) {
			if _, callee := calleeOf(ci); callee != nil && callee.Pkg == fn.Pkg && len(callee.Blocks) > 0 && callee != fn {
				scope = append(scope, callee)
			}
		}
		for _, sf := range scope {
			for _, b := range sf.Blocks {
				for _, in := range b.Instrs {
					if st, ok := in.(*ssa.Store); ok {
						if fa, ok := st.Addr.(*ssa.FieldAddr); ok && strings.HasSuffix(derefType(fa.X.Type()).String(), "forkexec.Runner") {
							if _, have := stores[fieldName(fa.X.Type(), fa.Field)]; !have || sf == fn {
								stores[fieldName(fa.X.Type(), fa.Field)] = st.Val
							}
						}
					}
				}
			}
		}
		var fs []string
		for f := range w.fields {
			fs = append(fs, f)
		}
		sort.Strings(fs)
		for _, f := range fs {
			exp := w.fields[f]
			v, ok := stores[f]
			key := w.rel + "." + fn.Name() + ":Runner." + f
			if !ok {
				c.Fail("O10/callers", key, p.Pos(fn.Pos()), "field "+f+" is not set in the forkexec.Runner literal")
				continue
			}
			d := describe(v)
			good := false
			switch exp {
			case "true":
				b, isB := constBool(v)
				good = isB && b
			case "const":
				cv, isC := constInt(v)
				good = isC && cv&p.Unix("CLONE_NEWUSER") != 0 && cv&p.Unix("CLONE_NEWNS") != 0 && cv&p.Unix("CLONE_NEWPID") != 0
			case "SockFprog":
				good = strings.Contains(d, "SockFprog")
			default:
				good = strings.HasSuffix(d, exp)
			}
			c.Cond(good, "O10/callers", key, p.Pos(v.Pos()), f+" = "+d, f+" = "+d+" (expected "+exp+")")
		}
	}
	c.Expect("O10/callers", 20)
	// SockFprog on an empty filter yields nil (no index of element 0 on an empty slice)
	if fn := p.Func("pkg/seccomp", "Filter.SockFprog"); fn != nil {
		okGuard := false
		for _, b := range fn.Blocks {
			for _, in := range b.Instrs {
				if ia, ok := in.(*ssa.IndexAddr); ok {
					if idx, isC := constInt(ia.Index); isC && idx == 0 {
						// must be control dependent on len != 0
						g := controlDeps(fn).guardOf(b)
						okGuard = strings.Contains(g.String(), "len(") && g.Op != 'T'
					}
				}
			}
		}
		c.Cond(okGuard, "O10/callers", "pkg/seccomp.SockFprog:empty-filter", p.Pos(fn.Pos()), "element 0 is taken only of a non-empty filter", "SockFprog indexes element 0 without a length guard (panics when no filter is configured)")
	}
}

// e1SeccompObligations: seccomp load exactly once iff a filter is given, with the right
// arguments, before exec; with ptrace: TRACEME < self-SIGSTOP < filter load.
func e1SeccompObligations(x *e1ctx, rule string) {
	c, r, p := x.c, x.r, x.c.P
	secNil, ptrace := r.NilF("Seccomp"), r.A("Ptrace")
	S := x.sel("seccomp", nil)
	execs := x.execEvents()
	x.iffExactlyOne(rule, "seccomp(SET_MODE_FILTER)", fNot(secNil), S, "the seccomp filter load")
	for _, e := range S {
		op, ok0 := e.argInt(0)
		fl, ok1 := e.argInt(1)
		c.Cond(ok0 && op == 1 && ok1 && fl&1 == 1, rule, "args:"+e.Site, x.pos(e), "seccomp(SECCOMP_SET_MODE_FILTER, TSYNC, …)",
			fmt.Sprintf("seccomp operation/flags are (%s, %s), want (1, ⊇TSYNC)", e.argDesc(0), e.argDesc(1)))
		c.Cond(e.argDesc(2) == r.R+".Seccomp", rule, "filter:"+e.Site, x.pos(e), "filter argument is the caller's Seccomp program",
			"filter argument is "+e.argDesc(2)+", not "+r.R+".Seccomp")
	}
	x.ordered(rule, "seccomp<exec", S, execs, "seccomp load", "exec")
	sigstop := p.Sys("SIGSTOP")
	stops := x.sel("kill", func(e *e1Event) bool { v, ok := e.argInt(1); return ok && v == sigstop })
	traceme := x.sel("ptrace", func(e *e1Event) bool { v, ok := e.argInt(0); return ok && v == p.Sys("PTRACE_TRACEME") })
	// with Ptrace and a filter: TRACEME < SIGSTOP < seccomp load
	x.iffExactlyOne(rule, "ptrace(TRACEME)", ptrace, traceme, "ptrace(PTRACE_TRACEME)")
	x.iffExactlyOne(rule, "kill(self,SIGSTOP)", fOr(r.A("StopBeforeSeccomp"), fAnd(fNot(secNil), ptrace)), stops, "the self-SIGSTOP before the filter")
	for _, s := range S {
		// if Ptrace ∧ filter: some stop and traceme must precede s whenever s executes
		for _, grp := range []struct {
			evs  []*e1Event
			what string
		}{{stops, "kill(self,SIGSTOP)"}, {traceme, "PTRACE_TRACEME"}} {
			var pre []*Form
			for _, e := range grp.evs {
				if evBeforeE1(e, s) {
					pre = append(pre, e.Guard)
				}
			}
			x.valid(rule, grp.what+"<"+s.Site, x.pos(s), fImp(fAnd(s.Guard, ptrace), anyOf(pre)),
				"with ptrace, "+grp.what+" precedes the filter load "+s.Site, "with ptrace, the filter load "+s.Site+" is not preceded by "+grp.what)
		}
	}
	for _, st := range stops {
		var pre []*Form
		for _, e := range traceme {
			if evBeforeE1(e, st) {
				pre = append(pre, e.Guard)
			}
		}
		x.valid(rule, "TRACEME<"+st.Site, x.pos(st), fImp(fAnd(st.Guard, ptrace, fNot(secNil)), anyOf(pre)),
			"with ptrace+filter, PTRACE_TRACEME precedes the self-stop", "with ptrace+filter, the self-stop is not preceded by PTRACE_TRACEME")
	}

}
