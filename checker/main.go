package main

import (
	"encoding/json"
	"flag"
	"fmt"
	"os"
	"runtime/debug"
	"sort"
	"strconv"
	"strings"
)

type checkFn func(c *Check)

var registry = map[string]checkFn{}
var explain = map[string]string{}

func register(id, expl string, f checkFn) {
	registry[id] = f
	explain[id] = expl
}

var onlyRule string

// pinEnv selects the pinned offline toolchain for go/packages (which shells out to `go`).
func pinEnv() {
	const tc = "/opt/veriftools/go1.26.8/bin"
	if st, err := os.Stat(tc); err == nil && st.IsDir() && !strings.HasPrefix(os.Getenv("PATH"), tc+":") {
		os.Setenv("PATH", tc+":"+os.Getenv("PATH"))
	}
	for k, v := range map[string]string{"GOTOOLCHAIN": "local", "GOFLAGS": "-mod=mod", "GOPROXY": "off", "GOSUMDB": "off", "GOWORK": "off"} {
		os.Setenv(k, v)
	}
}

func main() {
	pinEnv()
	if len(os.Args) < 2 {
		usage()
	}
	switch os.Args[1] {
	case "check":
		os.Exit(cmdCheck(os.Args[2:]))
	case "checkall":
		// self-test helper (seed matrix, neutral refactors): one load, every check
		os.Exit(cmdCheckAll(os.Args[2:]))
	case "baseline":
		// regenerate anchors_baseline.json from the current tree (maintenance; rebuild afterwards)
		os.Exit(cmdBaseline(os.Args[2:]))
	case "devrename":
		os.Exit(devRename(os.Args[2:]))
	case "list":
		var ids []string
		for id := range registry {
			ids = append(ids, id)
		}
		sort.Strings(ids)
		fmt.Println(strings.Join(ids, "\n"))
	case "dump":
		os.Exit(cmdDump(os.Args[2:]))
	default:
		usage()
	}
}

func usage() {
	fmt.Fprintln(os.Stderr, "usage: gsverif check <ID> [--tier quick|thorough] [--only rule] | list | dump <what>")
	os.Exit(2)
}

func cmdCheck(args []string) int {
	if len(args) < 1 {
		usage()
	}
	id := args[0]
	fs := flag.NewFlagSet("check", flag.ExitOnError)
	tier := fs.String("tier", envOr("VERIF_TIER", "quick"), "quick|thorough")
	only := fs.String("only", "", "evaluate/print only this rule")
	arch := fs.String("arch", "amd64", "GOARCH to load")
	replay := fs.String("replay", "", "replay file written by an earlier failing run: re-evaluate that obligation on the current tree")
	fs.Parse(args[1:])
	onlyRule = *only
	if *replay != "" {
		return cmdReplay(id, *replay)
	}
	f, ok := registry[id]
	if !ok {
		fmt.Fprintf(os.Stderr, "unknown property %s\n", id)
		return 2
	}
	archs := []string{*arch}
	if *tier == "thorough" {
		if extra, ok := thoroughArchs[id]; ok {
			archs = append(archs, extra...)
		} else {
			// every rule is re-evaluated on the arm64 build (build-tagged files, different syscall tables)
			archs = append(archs, "arm64")
		}
	}
	seed, _ := strconv.Atoi(os.Getenv("VERIF_SEED"))
	status := 0
	var primary *Check
	for i, a := range archs {
		c := runOne(id, *tier, a, seed, f)
		if i == 0 {
			primary = c
		} else {
			// fold secondary-arch obligations into the primary evidence
			for _, o := range c.Obs {
				o.Key = o.Key + " [" + a + "]"
				o.Rule = strings.TrimPrefix(o.Rule, id+".")
				primary.Obs = append(primary.Obs, Obligation{Rule: id + "." + o.Rule, Key: o.Key, Pos: o.Pos, Status: o.Status, Msg: o.Msg, Detail: o.Detail})
			}
			primary.Extra["extra_goarch_"+a] = len(c.Obs)
		}
	}
	status = primary.Finish()
	return status
}

func cmdCheckAll(args []string) int {
	fs := flag.NewFlagSet("checkall", flag.ExitOnError)
	tier := fs.String("tier", envOr("VERIF_TIER", "quick"), "quick|thorough")
	fs.Parse(args)
	p, err := Load(RepoDir(), "amd64")
	var ids []string
	for id := range registry {
		ids = append(ids, id)
	}
	sort.Strings(ids)
	seed, _ := strconv.Atoi(os.Getenv("VERIF_SEED"))
	status := 0
	for _, id := range ids {
		c := NewCheck(id, *tier, p)
		c.Seed = seed
		c.Explain = explain[id]
		if err != nil {
			c.Undecided("E0/load", "packages.Load[amd64]", "-", err.Error())
		} else {
			func() {
				defer func() {
					if r := recover(); r != nil {
						c.Undecided("E0/panic", "analyser[amd64]", "-", fmt.Sprintf("analyser panic: %v\n%s", r, firstLines(string(debug.Stack()), 14)))
					}
				}()
				walkerTruncations = nil
				runRegistered(id, c, false)
				noteTruncations(c)
			}()
		}
		if st := c.Finish(); st > status {
			status = st
		}
	}
	return status
}

func runOne(id, tier, arch string, seed int, f checkFn) (c *Check) {
	p, err := Load(RepoDir(), arch)
	c = NewCheck(id, tier, p)
	c.Seed = seed
	c.Explain = explain[id]
	if err != nil {
		c.Undecided("E0/load", "packages.Load["+arch+"]", "-", err.Error())
		return c
	}
	defer func() {
		if r := recover(); r != nil {
			c.Undecided("E0/panic", "analyser["+arch+"]", "-", fmt.Sprintf("analyser panic: %v\n%s", r, firstLines(string(debug.Stack()), 14)))
		}
	}()
	walkerTruncations = nil
	runRegistered(id, c, false)
	noteTruncations(c)
	return c
}

func noteTruncations(c *Check) {
	seen := map[string]bool{}
	for _, fn := range walkerTruncations {
		if !seen[fn] {
			seen[fn] = true
			c.Undecided("E0/walker-limit", fn, "-", "the path-by-path exploration of "+fn+" hit its path/step limit: tables extracted from it are incomplete")
		}
	}
	walkerTruncations = nil
}

func firstLines(s string, n int) string {
	ls := strings.Split(s, "\n")
	if len(ls) > n {
		ls = ls[:n]
	}
	return strings.Join(ls, "\n")
}

func envOr(k, d string) string {
	if v := os.Getenv(k); v != "" {
		return v
	}
	return d
}

// thoroughArchs lists the additional GOARCH loads of the thorough tier (default: arm64). The checks built on the
// launch sequence are re-evaluated on the 32-bit arm build as well (different syscall tables and word size).
var thoroughArchs = map[string][]string{
	"C04": {"arm64", "arm"}, "C05": {"arm64", "arm"}, "C06": {"arm64", "arm"}, "C07": {"arm64", "arm"},
	"C08": {"arm64", "arm"}, "C13": {"arm64", "arm"}, "C16": {"arm64", "arm"},
}

func cmdBaseline(args []string) int {
	out := "anchors_baseline.json"
	if len(args) > 0 {
		out = args[0]
	}
	bl := anchorBaseline{Arch: map[string]map[string]*entDesc{}}
	for _, a := range []string{"amd64", "arm64", "arm"} {
		p, _, err := loadOnce(RepoDir(), a, nil)
		if err != nil {
			fmt.Fprintln(os.Stderr, err)
			return 2
		}
		bl.Arch[a] = stripForBaseline(describeEntities(p.Pkgs, nil, nil))
		fmt.Fprintf(os.Stderr, "%s: %d declarations\n", a, len(bl.Arch[a]))
	}
	b, _ := json.MarshalIndent(bl, "", " ")
	if err := os.WriteFile(out, append(b, '\n'), 0o644); err != nil {
		fmt.Fprintln(os.Stderr, err)
		return 2
	}
	return 0
}

// cmdReplay re-evaluates the obligation recorded in a replay file on the
// current tree (same GOARCH and tier), prints it with its detail record, and
// exits 1 with a VIOLATION line if it still fails. Evidence and replay files
// are left untouched.
func cmdReplay(id, path string) int {
	b, err := os.ReadFile(path)
	if err != nil {
		fmt.Fprintln(os.Stderr, err)
		return 2
	}
	var rec struct {
		Property, Rule, Key, Tier, Goarch string
	}
	if err := json.Unmarshal(b, &rec); err != nil {
		fmt.Fprintln(os.Stderr, "replay file:", err)
		return 2
	}
	if rec.Property != id {
		fmt.Fprintf(os.Stderr, "replay file is for %s, not %s\n", rec.Property, id)
		return 2
	}
	f, ok := registry[id]
	if !ok {
		fmt.Fprintf(os.Stderr, "unknown property %s\n", id)
		return 2
	}
	arch := rec.Goarch
	key := rec.Key
	if i := strings.LastIndex(key, " ["); i >= 0 && strings.HasSuffix(key, "]") {
		arch, key = key[i+2:len(key)-1], key[:i]
	}
	if arch == "" {
		arch = "amd64"
	}
	if rec.Tier == "" {
		rec.Tier = "quick"
	}
	c := runOne(id, rec.Tier, arch, 0, f)
	found := false
	status := 0
	for _, o := range c.Obs {
		if o.Rule != rec.Rule || o.Key != key {
			continue
		}
		found = true
		fmt.Printf("REPLAY %s %s @ %s [%s]: %s: %s\n", o.Rule, o.Key, o.Pos, arch, o.Status, o.Msg)
		if o.Detail != nil {
			d, _ := json.MarshalIndent(o.Detail, "", " ")
			fmt.Println(string(d))
		}
		if o.Status == "fail" || o.Status == "undecided" {
			status = 1
		}
	}
	if !found {
		fmt.Printf("REPLAY %s %s: the obligation no longer exists on the current tree (rule instances changed); run the full check\n", rec.Rule, key)
		return 0
	}
	if status == 1 {
		fmt.Printf("VIOLATION property=%s replay=%s\n", id, path)
	} else {
		fmt.Println("REPLAY: not reproduced on the current tree")
	}
	return status
}
