package main

// C19 — the control socket delivers messages, descriptors and credentials intact or not at all.

import (
	"fmt"
	"go/token"
	"go/types"
	"strings"

	"golang.org/x/tools/go/ssa"
)

func init() {
	register("C19", "Decides on the raw socket and the gob-framed layer: (1) SendMsg writes UnixRights(all Fds) exactly when descriptors are attached and UnixCredentials(Cred) exactly when credentials are given, into the control buffer handed to WriteMsgUnix together with the payload, and returns its error; (2) every success return of RecvMsg lies behind the test of the receive flags against a mask ⊇ MSG_TRUNC|MSG_CTRUNC (a truncated message is never delivered); (3) rejected messages do not leak descriptors: the truncation path closes every SCM_RIGHTS descriptor found in the received control data (the closer visits every control message, no early exit), parse failures close what was parsed, a gob decode failure closes the message's descriptors; (4) construction: SOCK_SEQPACKET|SOCK_CLOEXEC pair, wrapped sockets non-blocking and close-on-exec, SO_PASSCRED enabled on the host end before the container is started; (5) framing: the send buffer is reset before every encode, the size test against the shared buffer size dominates the socket send, one Encode per send and one Decode per receive on a receive buffer of the same size; encoder typestate: an encoder whose output was rejected must not be reused. Does not decide byte-level fidelity of gob or SEQPACKET ordering/wholeness.", checkC19)
}

func checkC19(c *Check) {
	p := c.P
	const us = "pkg/unixsocket"
	// ---------- 1: send composes both ancillary records ----------
	if sm := p.Func(us, "Socket.SendMsg"); sm == nil {
		c.Undecided("1/send-ancillary", us+".SendMsg", "-", "function not found")
	} else {
		key := us + ".SendMsg"
		cd := controlDeps(sm)
		msgP := sm.Params[2].Name()
		var rights, creds, wr ssa.CallInstruction
		for _, ci := range callInstrs(sm) {
			n, _ := calleeOf(ci)
			switch {
			case n == "syscall.UnixRights":
				rights = ci
			case n == "syscall.UnixCredentials":
				creds = ci
			case strings.HasSuffix(n, "UnixConn).WriteMsgUnix"):
				wr = ci
			}
		}
		if rights == nil || creds == nil || wr == nil {
			c.Fail("1/send-ancillary", key+":steps", p.Pos(sm.Pos()), fmt.Sprintf("SendMsg lacks a step (rights:%v credentials:%v sendmsg:%v)", rights != nil, creds != nil, wr != nil))
		} else {
			cr := extraConds(cd, rights.Block())
			okR := len(cr) == 1 && strings.Contains(cr[0], msgP+".Fds) == 0") && strings.HasPrefix(cr[0], "¬")
			c.Cond(okR && strings.HasSuffix(describe(rights.Common().Args[0]), msgP+".Fds"), "1/send-ancillary", key+":rights", p.Pos(rights.Pos()), "all attached descriptors are sent whenever there are any", "descriptors are attached under "+strings.Join(cr, " ∧ ")+" with argument "+describe(rights.Common().Args[0]))
			cc := extraConds(cd, creds.Block())
			okC := len(cc) == 1 && strings.Contains(cc[0], msgP+".Cred == nil") && strings.HasPrefix(cc[0], "¬")
			c.Cond(okC && strings.HasSuffix(describe(creds.Common().Args[0]), msgP+".Cred"), "1/send-ancillary", key+":credentials", p.Pos(creds.Pos()), "the sender-specified credentials are sent whenever given", "credentials are attached under "+strings.Join(cc, " ∧ ")+" with argument "+describe(creds.Common().Args[0]))
			// both are written into the buffer whose Bytes() is the oob argument; payload is the parameter
			// (a bytes.Buffer written to and read with Bytes(), or a slice grown by append: decided by data flow)
			oobArg := wr.Common().Args[2]
			okBuf := stripConv(wr.Common().Args[1]) == ssa.Value(sm.Params[1]) && flowsIntoBytes(sm, rights.(ssa.Value), oobArg) && flowsIntoBytes(sm, creds.(ssa.Value), oobArg)
			c.Cond(okBuf && len(extraConds(cd, wr.Block())) == 0 && errChecked(wr), "1/send-ancillary", key+":sendmsg", p.Pos(wr.Pos()), "payload and control buffer go out in one sendmsg whose error is returned", "the payload/control data are not passed to WriteMsgUnix unconditionally or its error is dropped")
		}
		c.Expect("1/send-ancillary", 3)
	}

	// ---------- 2/3: receive ----------
	rm := p.Func(us, "Socket.RecvMsg")
	if rm == nil {
		c.Undecided("2/truncation-rejected", us+".RecvMsg", "-", "function not found")
	} else {
		key := us + ".RecvMsg"
		cd := controlDeps(rm)
		var read ssa.CallInstruction
		for _, ci := range callInstrs(rm) {
			if n, _ := calleeOf(ci); strings.HasSuffix(n, "UnixConn).ReadMsgUnix") {
				read = ci
			}
		}
		need := p.Sys("MSG_TRUNC") | p.Sys("MSG_CTRUNC")
		// every test of the receive flags: `flags & K ==/!= 0` (one test of both bits, or one test per bit)
		type flagTest struct {
			iff  *ssa.If
			k    int64
			atom string // canonical "(flags & K) == 0"
			tIdx int    // successor index of the "some bit of K is set" edge
		}
		var tests []flagTest
		for _, b := range rm.Blocks {
			iff := blockIf(b)
			if iff == nil {
				continue
			}
			bo, ok := iff.Cond.(*ssa.BinOp)
			if !ok || (bo.Op != token.NEQ && bo.Op != token.EQL) {
				continue
			}
			and, ok := stripConv(bo.X).(*ssa.BinOp)
			if !ok || and.Op != token.AND {
				continue
			}
			m, ok := constInt(and.Y)
			if z, isZ := constInt(bo.Y); !ok || !isZ || z != 0 {
				continue
			}
			if ex, ok := stripConv(and.X).(*ssa.Extract); ok && read != nil && ex.Tuple == read.(ssa.Value) && ex.Index == 2 {
				a, _ := condLit(iff.Cond)
				t := flagTest{iff: iff, k: m, atom: a, tIdx: 0}
				if bo.Op == token.EQL {
					t.tIdx = 1
				}
				tests = append(tests, t)
			}
		}
		var all int64
		for _, t := range tests {
			all |= t.k
		}
		if len(tests) == 0 || all&need != need {
			c.Fail("2/truncation-rejected", key+":flag-test", p.Pos(rm.Pos()), fmt.Sprintf("the receive flags are tested against %#x only: MSG_TRUNC|MSG_CTRUNC = %#x is not covered", all, need))
		} else {
			c.OK("2/truncation-rejected", key+":flag-test", p.Pos(tests[0].iff.Pos()), "receive flags are tested against MSG_TRUNC and MSG_CTRUNC")
			n := 0
			for _, b := range rm.Blocks {
				ret, ok := b.Instrs[len(b.Instrs)-1].(*ssa.Return)
				if !ok || !isNilConst(retVal(ret, len(ret.Results)-1)) {
					continue
				}
				n++
				g := cd.guardOf(b)
				var clear int64
				for _, t := range tests {
					if v, _, _ := Valid(fImp(g, fLit(t.atom))); v {
						clear |= t.k
					}
				}
				c.Cond(clear&need == need, "2/truncation-rejected", fmt.Sprintf("%s:success-return#%d", key, n), p.Pos(ret.Pos()), "a message is delivered only if neither payload nor control data were truncated",
					fmt.Sprintf("a success return is behind tests that clear only %#x of MSG_TRUNC|MSG_CTRUNC (%#x): a message cut short can be delivered with a nil error", clear, need))
			}
			// every path that leaves through a "truncated" edge closes the descriptors that arrived before it returns
			var closer *ssa.Function
			isCloser := func(in ssa.Instruction) bool {
				if ci, ok := in.(ssa.CallInstruction); ok {
					if _, callee := calleeOf(ci); callee != nil && inModule(callee) && reachesCall(callee, 1, nameIs("syscall.Close")) {
						return true
					}
				}
				return false
			}
			for ti, t := range tests {
				tb := t.iff.Block().Succs[t.tIdx]
				for _, in := range tb.Instrs {
					if ci, ok := in.(ssa.CallInstruction); ok && isCloser(in) {
						_, closer = calleeOf(ci)
						c.Cond(strings.Contains(describe(ci.Common().Args[0]), ".recvBuff["), "3/no-leak-on-reject", fmt.Sprintf("%s:truncated-closes#%d:arg", key, ti+1), p.Pos(ci.Pos()), "the closer is given the received control data", "the closer is given "+describe(ci.Common().Args[0]))
					}
				}
				idx := t.tIdx
				blk := t.iff.Block()
				leak, trail := pathQuery{fn: rm, from: t.iff, target: isReturn, stop: isCloser, edgeOK: func(b *ssa.BasicBlock, k int) bool { return b != blk || k == idx }}.find()
				c.Cond(!leak, "3/no-leak-on-reject", fmt.Sprintf("%s:truncated-closes#%d(mask %#x)", key, ti+1, t.k), p.Pos(t.iff.Cond.Pos()), "a truncated message's descriptors are closed before the error is returned",
					"a truncation path returns without closing the descriptors the kernel already installed for the message ("+p.trail(trail)+")")
			}
			if closer != nil {
				checkControlCloser(c, closer)
			}
		}
		// parseMsg: deferred cleanup
		for _, ci := range callInstrs(rm) {
			if _, callee := calleeOf(ci); callee != nil && inModule(callee) && callee.Signature.Results().Len() == 2 && strings.HasSuffix(callee.Signature.Results().At(0).Type().String(), "unixsocket.Msg") {
				ok := false
				for _, b := range callee.Blocks {
					for _, in := range b.Instrs {
						if df, isD := in.(*ssa.Defer); isD {
							if mc, isMC := df.Call.Value.(*ssa.MakeClosure); isMC {
								cl := mc.Fn.(*ssa.Function)
								// registered before any descriptor is taken out of the control data
								if reachesCall(cl, 0, nameIs("syscall.Close")) || reachesCall(cl, 0, func(ci ssa.CallInstruction) bool { _, f := calleeOf(ci); return closesWholeList(f) }) {
									dom := true
									for _, c3 := range callInstrs(callee) {
										if n3, _ := calleeOf(c3); n3 == "syscall.ParseUnixRights" && !(b == c3.Block() || b.Dominates(c3.Block())) {
											dom = false
										}
									}
									if dom {
										ok = true
									}
								}
							}
						}
					}
				}
				if !ok {
					// or: every error return goes through a helper that closes them (explicit instead of deferred)
					nErr, covered := 0, 0
					for _, b := range callee.Blocks {
						ret, isR := b.Instrs[len(b.Instrs)-1].(*ssa.Return)
						if !isR || len(ret.Results) != 2 || isNilConst(retVal(ret, 1)) {
							continue
						}
						nErr++
						for _, in := range b.Instrs {
							if c4, isC := in.(*ssa.Call); isC {
								if hf := spawnedFn(&c4.Call); hf != nil && inModule(hf) && reachesCall(hf, 1, nameIs("syscall.Close")) {
									covered++
									break
								}
							}
						}
					}
					ok = nErr > 0 && covered == nErr
				}
				c.Cond(ok, "3/no-leak-on-reject", us+"."+callee.Name()+":cleanup", p.Pos(callee.Pos()), "a parse failure closes the descriptors parsed so far", "a failure while parsing control messages leaks the descriptors already parsed")
			}
		}
		c.Expect("2/truncation-rejected", 2)
	}
	// container layer: decode failure closes msg.Fds
	if cr := p.Func("container", "socket.RecvMsg"); cr != nil {
		var dec ssa.CallInstruction
		for _, ci := range callInstrs(cr) {
			if n, _ := calleeOf(ci); n == "(encoding/gob.Decoder).Decode" {
				dec = ci
			}
		}
		ok := false
		if dec != nil {
			if v, isV := dec.(ssa.Value); isV {
				if refs := v.Referrers(); refs != nil {
					for _, r := range *refs {
						if bo, isB := r.(*ssa.BinOp); isB && (bo.Op == token.NEQ || bo.Op == token.EQL) && isNilConst(bo.Y) {
							for _, u := range *bo.Referrers() {
								if iff, isI := u.(*ssa.If); isI {
									// on the error edge (whichever way the test is written) the message's descriptors are closed
									// (loop over them, or a helper) before the return
									eb := iff.Block().Succs[0]
									if bo.Op == token.EQL {
										eb = iff.Block().Succs[1]
									}
									found := true
									for _, c2 := range callInstrs(cr) {
										n2, callee2 := calleeOf(c2)
										isCloser := n2 == "syscall.Close" && inLoop(c2.Block()) || (callee2 != nil && inModule(callee2) && reachesCall(callee2, 1, nameIs("syscall.Close")))
										if isCloser && (eb == c2.Block() || eb.Dominates(c2.Block())) {
											found = false
										}
									}
									ok = !found
								}
							}
						}
					}
				}
			}
		}
		c.Cond(ok, "3/no-leak-on-reject", "container.socket.RecvMsg:decode-error-closes", p.Pos(cr.Pos()), "a message that fails to decode has its descriptors closed", "a message whose payload fails to decode is dropped together with its open descriptors")
	}
	c.Expect("3/no-leak-on-reject", 5)

	// ---------- 4: construction ----------
	if sp := p.Func(us, "NewSocketPair"); sp != nil {
		for _, ci := range callInstrs(sp) {
			if n, _ := calleeOf(ci); strings.HasSuffix(n, ".Socketpair") {
				dom, ok0 := constInt(ci.Common().Args[0])
				ty, ok1 := constInt(ci.Common().Args[1])
				need := p.Sys("SOCK_SEQPACKET") | p.Sys("SOCK_CLOEXEC")
				c.Cond(ok0 && dom == p.Sys("AF_LOCAL") && ok1 && ty&need == need, "4/construction", us+".NewSocketPair:type", p.Pos(ci.Pos()), "AF_LOCAL, SOCK_SEQPACKET|SOCK_CLOEXEC", fmt.Sprintf("socketpair(%d, %#x): message boundaries or close-on-exec are lost", dom, ty))
			}
		}
	}
	if ns := p.Func(us, "NewSocket"); ns != nil {
		nb, ce := false, false
		for _, ci := range callInstrs(ns) {
			n, _ := calleeOf(ci)
			if n == "syscall.SetNonblock" {
				if b, ok := constBool(ci.Common().Args[1]); ok && b {
					nb = true
				}
			}
			if n == "syscall.CloseOnExec" {
				ce = true
			}
		}
		c.Cond(nb && ce, "4/construction", us+".NewSocket", p.Pos(ns.Pos()), "wrapped descriptor is non-blocking and close-on-exec", "NewSocket does not make the descriptor non-blocking and close-on-exec")
	}
	if sc := p.Func("container", "Builder.startContainer"); sc != nil {
		ok := false
		isPass := func(c2 ssa.CallInstruction) bool {
			if n2, _ := calleeOf(c2); strings.HasSuffix(n2, "Socket).SetPassCred") {
				if v, isC := constInt(c2.Common().Args[1]); isC && v == 1 && errChecked(c2) {
					return true
				}
			}
			return false
		}
		// the option is set in startContainer itself or in a helper it calls; the (call site of the) setting precedes
		// the start of the container process
		for _, ci := range callInstrs(sc) {
			found := isPass(ci)
			if _, callee := calleeOf(ci); !found && callee != nil && inModule(callee) {
				for _, c2 := range callInstrsDeep(callee, 1) {
					if isPass(c2) {
						found = true
					}
				}
			}
			if !found {
				continue
			}
			for _, c3 := range callInstrs(sc) {
				if n3, _ := calleeOf(c3); n3 == "(os/exec.Cmd).Start" {
					ok = before(ci, c3)
				}
			}
			break
		}
		c.Cond(ok, "4/construction", "container.startContainer:passcred", p.Pos(sc.Pos()), "SO_PASSCRED is enabled on the host end before the container is started", "the host end of the control socket does not enable SO_PASSCRED(1) before the container starts: the pid relayed with the sync message would not arrive")
	}
	c.Expect("4/construction", 3)

	// ---------- 5: framing ----------
	checkFraming(c)
	// the parameters acted upon are those of this request (no field inherited from the previous message)
	checkFreshDecode(c, "7/request-is-fresh")
	checkWireTypes(c, "10/wire-types")
	// a reply that is rejected by the host after it was received (wrong length, inconsistent descriptor count) does not
	// leave its descriptors open there (C14.2)
	importObs(c, "C14", "C14.2/host-open", "12/rejected-reply-descriptors", func(o Obligation) bool { return strings.Contains(o.Key, ":cleanup") })
	c.Expect("12/rejected-reply-descriptors", 2)

	// ---------- 9: the control buffer holds the largest message the kernel can deliver ----------
	// 253 descriptors (SCM_MAX_FD) plus a credential record (the host end has SO_PASSCRED): CMSG_SPACE(253*4) +
	// CMSG_SPACE(sizeof(struct ucred)) bytes; the size is a compile-time constant so that it can be bounded
	{
		align := func(n int64) int64 { return (n + 7) &^ 7 }
		need := align(16) + align(253*4) + align(16) + align(12)
		var sizes []string
		okSize := false
		for _, fn := range p.PkgFuncs(us) {
			for _, b := range fn.Blocks {
				for _, in := range b.Instrs {
					st, ok := in.(*ssa.Store)
					if !ok {
						continue
					}
					fa, ok := st.Addr.(*ssa.FieldAddr)
					if !ok || fieldName(fa.X.Type(), fa.Field) != "recvBuff" {
						continue
					}
					switch v := st.Val.(type) {
					case *ssa.Slice:
						// make([]byte, constant) is compiled to a fixed-size array that is sliced
						if a, ok := v.X.(*ssa.Alloc); ok {
							if at, ok := a.Type().(*types.Pointer).Elem().Underlying().(*types.Array); ok {
								sizes = append(sizes, fmt.Sprint(at.Len()))
								okSize = at.Len() >= need
								continue
							}
						}
						sizes = append(sizes, describe(v))
						okSize = false
					case *ssa.MakeSlice:
						if n, isC := constInt(v.Len); isC {
							sizes = append(sizes, fmt.Sprint(n))
							okSize = n >= need
						} else {
							sizes = append(sizes, "the run-time value "+describe(v.Len))
							okSize = false
						}
					default:
						sizes = append(sizes, describe(st.Val))
						okSize = false
					}
				}
			}
		}
		c.Cond(okSize && len(sizes) > 0, "9/control-buffer-size", us+":recvBuff", us+"/", fmt.Sprintf("receive control buffer is %s bytes, a constant ≥ %d", strings.Join(sizes, ","), need),
			fmt.Sprintf("the receive control buffer has size %s; a constant of at least %d bytes is needed for the largest descriptor list plus the credential record: a full-size batch arrives truncated and is rejected, after which the environment is unusable", strings.Join(sizes, ","), need))
		c.Expect("9/control-buffer-size", 1)
	}

	// ---------- 8: what is delivered does not alias the socket's buffers ----------
	// the credentials handed to the caller are the copy made by the parser of the standard library, not a pointer
	// into the control buffer (which the next receive overwrites)
	nCred := 0
	for _, fn := range p.PkgFuncs("pkg/unixsocket") {
		for _, b := range fn.Blocks {
			for _, in := range b.Instrs {
				st, ok := in.(*ssa.Store)
				if !ok {
					continue
				}
				fa, ok := st.Addr.(*ssa.FieldAddr)
				if !ok || fieldName(fa.X.Type(), fa.Field) != "Cred" || !strings.HasSuffix(derefType(fa.X.Type()).String(), "unixsocket.Msg") {
					continue
				}
				if isNilConst(st.Val) {
					continue
				}
				nCred++
				or := valueOrigins(st.Val)
				okO := len(or) == 1 && or[0] == "syscall.ParseUnixCredentials"
				c.Cond(okO, "8/no-aliasing", "pkg/unixsocket."+fn.Name()+":Cred", p.Pos(st.Pos()), "the credential is the parser's own copy", "the credential delivered with a message is "+describe(st.Val)+" (origin "+strings.Join(or, ",")+"), not the copy returned by syscall.ParseUnixCredentials: it may point into the receive buffer and change under the caller with the next message")
			}
		}
	}
	// the two directions of one socket do not share a scratch buffer: a send that overlaps a receive (the two
	// loops of either endpoint run concurrently) would otherwise encode its control data over the one being parsed
	for _, fn := range p.PkgFuncs("pkg/unixsocket") {
		bufs := map[string]ssa.Value{}
		var pos string
		for _, b := range fn.Blocks {
			for _, in := range b.Instrs {
				st, ok := in.(*ssa.Store)
				if !ok {
					continue
				}
				fa, ok := st.Addr.(*ssa.FieldAddr)
				if !ok || !strings.HasSuffix(derefType(fa.X.Type()).String(), "unixsocket.Socket") {
					continue
				}
				if _, isSl := st.Val.Type().Underlying().(*types.Slice); isSl {
					bufs[fieldName(fa.X.Type(), fa.Field)] = st.Val
					pos = p.Pos(st.Pos())
				}
			}
		}
		if len(bufs) < 2 {
			continue
		}
		nCred++
		distinct, fresh := true, true
		seen := map[ssa.Value]string{}
		for f, v := range bufs {
			// make([]T, n): MakeSlice, or for a constant n a slice of a new array
			if sl, ok := v.(*ssa.Slice); ok {
				if a, ok := sl.X.(*ssa.Alloc); ok && a.Heap {
					v = a
				}
			}
			switch v.(type) {
			case *ssa.MakeSlice, *ssa.Alloc:
			default:
				fresh = false
			}
			if o, dup := seen[v]; dup {
				distinct = false
				_ = o
			}
			seen[v] = f
		}
		c.Cond(distinct && fresh, "8/no-aliasing", "pkg/unixsocket."+fn.Name()+":scratch-buffers", pos, "send and receive control buffers are separate allocations",
			"the socket's send and receive control buffers are one allocation: a SendMsg that overlaps a RecvMsg on the same socket overwrites the control data being parsed (wrong descriptors, wrong count)")
	}
	c.Expect("8/no-aliasing", 2)

	// what RecvMsg reports as payload length is what the kernel reported: the count of the read call, unmodified, on
	// every successful return
	if rm := p.Func("pkg/unixsocket", "Socket.RecvMsg"); rm != nil {
		var rd *ssa.Call
		for _, ci := range callInstrsDeep(rm, 1) {
			if n, _ := calleeOf(ci); strings.HasSuffix(n, ".ReadMsgUnix") || strings.HasSuffix(n, ".Recvmsg") {
				rd, _ = ci.(*ssa.Call)
			}
		}
		nRet := 0
		for _, b := range rm.Blocks {
			ret, ok := b.Instrs[len(b.Instrs)-1].(*ssa.Return)
			if !ok || len(ret.Results) < 3 || !isNilConst(retVal(ret, 2)) {
				continue
			}
			nRet++
			v := retVal(ret, 0)
			ex, isEx := v.(*ssa.Extract)
			okLen := rd != nil && isEx && ex.Tuple == ssa.Value(rd) && ex.Index == 0
			c.Cond(okLen, "11/length-as-received", fmt.Sprintf("pkg/unixsocket.RecvMsg:return@b%d", b.Index), p.Pos(ret.Pos()), "the length returned is the count the read reported",
				"a successful RecvMsg returns the length "+describe(v)+", not the count reported by the read: a payload is delivered shortened (or lengthened) with a nil error")
		}
		if nRet == 0 {
			c.Undecided("11/length-as-received", "pkg/unixsocket.RecvMsg", p.Pos(rm.Pos()), "no successful return found")
		}
		c.Expect("11/length-as-received", 1)
	}
}

// checkControlCloser: visits every control message, closes every SCM_RIGHTS descriptor, no early exit.
func checkControlCloser(c *Check, fn *ssa.Function) {
	p := c.P
	key := "pkg/unixsocket." + fn.Name()
	cd := controlDeps(fn)
	var cl ssa.CallInstruction
	for _, ci := range callInstrs(fn) {
		n, callee := calleeOf(ci)
		if n == "syscall.Close" || closesWholeList(callee) {
			cl = ci
		}
	}
	if cl == nil {
		c.Fail("3/no-leak-on-reject", key+":closes", p.Pos(fn.Pos()), "no close")
		return
	}
	// no return inside the message loop
	early := false
	for _, b := range fn.Blocks {
		if isExitBlock(b) && b != fn.Blocks[0] {
			// a return is fine only if it is the parse failure of the whole buffer (before the loop) or the normal end
			g := cd.guardOf(b)
			for _, a := range Support(g) {
				if strings.Contains(a, "ParseUnixRights") {
					early = true
				}
			}
			// return directly from inside a loop body
			for _, pr := range b.Preds {
				if inLoop(pr) && !isLoopHeader(pr) {
					early = true
				}
			}
		}
	}
	c.Cond(!early, "3/no-leak-on-reject", key+":visits-all", p.Pos(fn.Pos()), "every control message is visited", "the closer stops at the first control message it cannot use: descriptors in later control messages (e.g. after SCM_CREDENTIALS) leak")
	// the close is conditional only on level/type filters and per-message parse errors
	bad := ""
	for _, a := range extraConds(cd, cl.Block()) {
		if strings.Contains(a, ".Header.Level") || strings.Contains(a, ".Header.Type") || strings.Contains(a, "ParseUnixRights") || strings.Contains(a, "ParseSocketControlMessage") {
			continue
		}
		bad = a
	}
	c.Cond(bad == "" && inLoop(cl.Block()), "3/no-leak-on-reject", key+":closes-all", p.Pos(cl.Pos()), "every parsed descriptor is closed", "descriptors are closed only under "+bad)
}

func checkFraming(c *Check) {
	p := c.P
	sm := p.Func("container", "socket.SendMsg")
	rm := p.Func("container", "socket.RecvMsg")
	ns := p.Func("container", "newSocket")
	if sm == nil || rm == nil || ns == nil {
		c.Undecided("5/framing", "container.socket", "-", "functions not found")
		return
	}
	key := "container.socket.SendMsg"
	bufSize, _ := p.ConstInt(repoModule+"/container", "bufferSize")
	var reset, enc, send ssa.CallInstruction
	nEnc := 0
	for _, ci := range callInstrs(sm) {
		n, _ := calleeOf(ci)
		switch {
		case n == "(bytes.Buffer).Reset":
			reset = ci
		case n == "(encoding/gob.Encoder).Encode":
			enc = ci
			nEnc++
		case strings.HasSuffix(n, "unixsocket.Socket).SendMsg"):
			send = ci
		}
	}
	cd := controlDeps(sm)
	okReset := reset != nil && enc != nil && dominatesInstr(reset, enc) && len(extraConds(cd, reset.Block())) == 0 && strings.HasSuffix(describe(reset.Common().Args[0]), ".sendBuff")
	c.Cond(okReset, "5/framing", key+":reset-before-encode", p.Pos(sm.Pos()), "the send buffer is emptied before every encode", "the send buffer is not reset (unconditionally) before the message is encoded: bytes of an earlier message that was not sent are delivered in front of this one")
	c.Cond(nEnc == 1 && send != nil, "5/framing", key+":one-encode-one-send", p.Pos(sm.Pos()), "one Encode and one socket send per message", fmt.Sprintf("%d Encode calls per SendMsg", nEnc))
	// size test dominates the send
	var sizeIf *ssa.If
	for _, b := range sm.Blocks {
		if iff := blockIf(b); iff != nil {
			if bo, ok := iff.Cond.(*ssa.BinOp); ok && strings.Contains(describe(bo.X), "Len(") {
				if v, ok := constInt(bo.Y); ok && v == bufSize && bo.Op == token.GTR {
					sizeIf = iff
				}
			}
		}
	}
	okSize := sizeIf != nil && send != nil && sizeIf.Block().Dominates(send.Block()) && leadsToReturn(sizeIf.Block().Succs[0], 2)
	c.Cond(okSize, "5/framing", key+":size-check", p.Pos(sm.Pos()), "a payload larger than the receive buffer is rejected before it is sent", "the size test against the buffer size does not dominate the socket send")
	// receive buffer has the same size
	okBuf := false
	for _, b := range ns.Blocks {
		for _, in := range b.Instrs {
			if ms, ok := in.(*ssa.MakeSlice); ok {
				if v, ok := constInt(ms.Len); ok && v == bufSize {
					okBuf = true
				}
			}
			if al, ok := in.(*ssa.Alloc); ok && al.Comment == "makeslice" {
				if arr, ok := derefType(al.Type()).Underlying().(*types.Array); ok && arr.Len() == bufSize {
					okBuf = true
				}
			}
		}
	}
	c.Cond(okBuf && bufSize > 0, "5/framing", "container.newSocket:recv-buffer", p.Pos(ns.Pos()), "the receive buffer has the size the sender checks against", "the receive buffer is not make([]byte, bufferSize)")
	nDec := 0
	for _, ci := range callInstrs(rm) {
		if n, _ := calleeOf(ci); n == "(encoding/gob.Decoder).Decode" {
			nDec++
		}
	}
	c.Cond(nDec == 1, "5/framing", "container.socket.RecvMsg:one-decode", p.Pos(rm.Pos()), "one Decode per received packet", fmt.Sprintf("%d Decode calls per RecvMsg", nDec))
	c.Expect("5/framing", 5)
	// encoder typestate: on the oversize rejection the encoder (which has recorded the type as transmitted) is discarded
	if sizeIf != nil {
		rej := sizeIf.Block().Succs[0]
		renewed := false
		for _, in := range rej.Instrs {
			if st, ok := in.(*ssa.Store); ok && strings.HasSuffix(describe(st.Addr), ".encoder") {
				renewed = true
			}
		}
		c.Cond(renewed, "5/encoder-typestate", key+":oversize-keeps-encoder", p.Pos(sm.Pos()), "a rejected encode discards the encoder", "after an oversize rejection the gob encoder is kept although its output was dropped: it has recorded the message's type descriptors as transmitted, so the peer cannot decode the next message of that type")
	}
}

// closesWholeList: a helper of the module with one slice parameter that closes every element of it: its only loop
// ranges over the parameter and calls syscall.Close on the element under no other condition.
func closesWholeList(f *ssa.Function) bool {
	if f == nil || len(f.Blocks) == 0 || !inModule(f) || len(f.Params) != 1 {
		return false
	}
	if _, ok := f.Params[0].Type().Underlying().(*types.Slice); !ok {
		return false
	}
	cd := controlDeps(f)
	for _, ci := range callInstrs(f) {
		if n, _ := calleeOf(ci); n != "syscall.Close" {
			continue
		}
		if !inLoop(ci.Block()) || len(extraConds(cd, ci.Block())) != 0 {
			continue
		}
		// the element closed comes from the parameter
		d := describe(ci.Common().Args[0])
		if strings.Contains(d, f.Params[0].Name()) {
			// no return from inside the loop
			for _, b := range f.Blocks {
				if isExitBlock(b) {
					for _, pr := range b.Preds {
						if inLoop(pr) && !isLoopHeader(pr) {
							return false
						}
					}
				}
			}
			return true
		}
	}
	return false
}

// flowsIntoBytes: the byte slice src (the result of a call) is part of what sink denotes: through φ-nodes,
// re-slicing, append (either operand), and a bytes.Buffer that src is written to and sink is read from.
func flowsIntoBytes(fn *ssa.Function, src, sink ssa.Value) bool {
	seen := map[ssa.Value]bool{}
	var dep func(v ssa.Value, d int) bool
	dep = func(v ssa.Value, d int) bool {
		if v == nil || seen[v] || d > 12 {
			return false
		}
		seen[v] = true
		if v == src {
			return true
		}
		switch x := v.(type) {
		case *ssa.Phi:
			for _, e := range x.Edges {
				if dep(e, d+1) {
					return true
				}
			}
		case *ssa.Slice:
			return dep(x.X, d+1)
		case *ssa.Convert:
			return dep(x.X, d+1)
		case *ssa.ChangeType:
			return dep(x.X, d+1)
		case *ssa.Call:
			if bi, ok := x.Call.Value.(*ssa.Builtin); ok && bi.Name() == "append" {
				for _, a := range x.Call.Args {
					if dep(a, d+1) {
						return true
					}
				}
				return false
			}
			if n, _ := calleeOf(x); n == "(bytes.Buffer).Bytes" && len(x.Call.Args) == 1 {
				recv := describe(x.Call.Args[0])
				for _, ci := range callInstrs(fn) {
					if n2, _ := calleeOf(ci); n2 == "(bytes.Buffer).Write" && len(ci.Common().Args) == 2 && describe(ci.Common().Args[0]) == recv {
						if dep(ci.Common().Args[1], d+1) {
							return true
						}
					}
				}
			}
		}
		return false
	}
	return dep(sink, 0)
}
