package main

// C12 — no residue: no processes, zombies, descriptors or goroutines left behind.

import (
	"fmt"
	"go/token"
	"sort"
	"strings"

	"golang.org/x/tools/go/ssa"
)

func init() {
	register("C12", "Decides the pairing of every acquisition with its release on every path: (1) processes — the ptrace and namespace runners register, before their wait loop, a deferred function that kills the process group (and the pid) and reaps until wait4 fails; no return lies between a successful Start and that registration; in the container every return after a successful Start (other than through the transport-lost arm) has passed kill(-1,SIGKILL), the wait for the main pid and the wait-all handshake; launch failures go through kill+reap (C07); (2) descriptors — paired-release over the acquisition sites of the library (socket pairs, raw opens, os.Open/Pipe, wrapped files, received descriptor lists, started containers): along every path from a successful acquisition to a return the resource is closed, deferred-closed, handed to a goroutine that closes it, returned, or stored in the returned owner; (3) goroutines — the go statements of the library are enumerated (count asserted) and each is matched with the event that ends it: context watchers wait on a context derived in the spawning function whose cancel is deferred there; transport loops end on 'done' or socket close; the detached pipe reader ends at EOF of a close-on-exec descriptor. Does not decide numeric return-to-baseline over histories; pipe.NewPipe's reader depends on the documented caller obligation to close W.", checkC12)
}

func checkC12(c *Check) {
	p := c.P
	sigkill := p.Sys("SIGKILL")

	// ---------- 1: kill + reap on every exit ----------
	isGroupKiller := func(fn *ssa.Function) bool {
		if fn == nil || !inModule(fn) {
			return false
		}
		grp := false
		for _, ci := range callInstrs(fn) {
			if n, _ := calleeOf(ci); strings.HasSuffix(n, ".Kill") && len(ci.Common().Args) == 2 {
				if s, ok := constInt(ci.Common().Args[1]); ok && s == sigkill {
					if u, ok := stripConv(ci.Common().Args[0]).(*ssa.UnOp); ok && u.Op == token.SUB {
						grp = true
					}
				}
			}
		}
		return grp
	}
	isReaper := func(fn *ssa.Function) bool {
		if fn == nil || !inModule(fn) {
			return false
		}
		for _, ci := range callInstrs(fn) {
			if n, _ := calleeOf(ci); strings.HasSuffix(n, ".Wait4") && inLoop(ci.Block()) {
				// loop ends only when wait4 fails (other than EINTR)
				return true
			}
		}
		return false
	}
	for _, t := range []struct{ rel, fn, start string }{{"ptracer", "Tracer.trace", ""}, {"runner/unshare", "Runner.Run", "Runner).Start"}} {
		fn := p.Func(t.rel, t.fn)
		if fn == nil {
			c.Undecided("1/kill-reap", t.rel+"."+t.fn, "-", "function not found")
			continue
		}
		key := t.rel + "." + fn.Name()
		var df *ssa.Defer
		for _, b := range fn.Blocks {
			for _, in := range b.Instrs {
				if d, ok := in.(*ssa.Defer); ok {
					// the deferred function: a closure, or a named function / method of the module
					var cl *ssa.Function
					switch dv := d.Call.Value.(type) {
					case *ssa.MakeClosure:
						cl, _ = dv.Fn.(*ssa.Function)
					case *ssa.Function:
						cl = dv
					}
					if cl != nil && inModule(cl) && len(cl.Blocks) > 0 {
						k, r := false, false
						var kc, rc ssa.CallInstruction
						for _, ci := range callInstrs(cl) {
							_, callee := calleeOf(ci)
							if isGroupKiller(callee) {
								k, kc = true, ci
							}
							if isReaper(callee) {
								r, rc = true, ci
							}
						}
						if k && r && before(kc, rc) && len(extraConds(controlDeps(cl), kc.Block())) == 0 && len(extraConds(controlDeps(cl), rc.Block())) == 0 {
							df = d
						}
					}
				}
			}
		}
		if df == nil {
			c.Fail("1/kill-reap", key+":deferred-cleanup", p.Pos(fn.Pos()), "no deferred function that unconditionally kills the process group and then reaps it: processes the program left behind (or zombies) survive the run")
			continue
		}
		c.OK("1/kill-reap", key+":deferred-cleanup", p.Pos(df.Pos()), "deferred kill-group + reap registered")
		// registered before every wait and unconditionally
		okDom := len(extraCondsEE(controlDeps(fn), df.Block())) == 0
		for _, ci := range callInstrs(fn) {
			if n, _ := calleeOf(ci); strings.HasSuffix(n, ".Wait4") && !dominatesInstr(df, ci) {
				okDom = false
			}
		}
		c.Cond(okDom, "1/kill-reap", key+":registered-before-wait", p.Pos(df.Pos()), "the cleanup is registered before the first wait, on every path", "the cleanup is registered conditionally or after the wait loop started: an early return leaves the program running")
		if t.start != "" {
			var start ssa.CallInstruction
			for _, ci := range callInstrs(fn) {
				if n, _ := calleeOf(ci); strings.HasSuffix(n, t.start) {
					start = ci
				}
			}
			if start != nil {
				// from the success edge of Start no return is reachable without passing the defer
				found, trail := pathQuery{fn: fn, from: start, target: isReturn, stop: func(in ssa.Instruction) bool { return in == ssa.Instruction(df) },
					edgeOK: errEdgeFilter(start)}.find()
				c.Cond(!found, "1/kill-reap", key+":no-return-before-cleanup", p.Pos(start.Pos()), "between a successful Start and the cleanup registration there is no return", "a return between a successful Start and the registration of the cleanup: "+p.trail(trail))
			}
		}
	}
	// collectZombie loops until wait4 fails: the loop's only exit is the error edge
	for _, rel := range []string{"ptracer", "runner/unshare"} {
		for _, fn := range p.PkgFuncs(rel) {
			if fn.Parent() == nil && isReaper(fn) && fn.Signature.Results().Len() == 0 && fn.Signature.Params().Len() == 1 {
				// decided on the meaning, not the loop form: with wait4 reporting success or EINTR the reaper never
				// returns (it keeps waiting); with any other error it returns
				okLoop := true
				for _, mode := range []string{"nil", "EINTR", "other"} {
					returns := 0
					w := &walker{fn: fn, Inline: -1, MaxVisits: 3}
					w.Seed = func(w *walker, st *wstate, v ssa.Value) *absVal {
						fromWaitV := func(x ssa.Value) bool {
							for _, o := range valueOrigins(x) {
								if strings.HasSuffix(o, ".Wait4") {
									return true
								}
							}
							return false
						}
						// errors.Is(err, EINTR) is the same test as err == EINTR
						if call, isCall := v.(*ssa.Call); isCall {
							if e, tgt, ok := errorsIsConst(call); ok && fromWaitV(e) {
								if mi, ok := tgt.(*ssa.MakeInterface); ok {
									if k, isC := constInt(mi.X); isC && k == p.Sys("EINTR") {
										return avBool(mode == "EINTR")
									}
								}
							}
							return nil
						}
						bo, ok := v.(*ssa.BinOp)
						if !ok || (bo.Op != token.EQL && bo.Op != token.NEQ) {
							return nil
						}
						fromWait := func(x ssa.Value) bool {
							for _, o := range valueOrigins(x) {
								if strings.HasSuffix(o, ".Wait4") {
									return true
								}
							}
							return false
						}
						var res bool
						switch {
						case isNilConst(bo.Y) && isErrorType(bo.X.Type()) && fromWait(bo.X):
							res = mode == "nil" // err == nil
						case fromWait(bo.X):
							if mi, ok := bo.Y.(*ssa.MakeInterface); ok {
								if v, isC := constInt(mi.X); isC && v == p.Sys("EINTR") {
									res = mode == "EINTR" // err == EINTR
									break
								}
							}
							return nil
						default:
							return nil
						}
						if bo.Op == token.NEQ {
							res = !res
						}
						return avBool(res)
					}
					w.OnReturn = func(w *walker, st *wstate, ret *ssa.Return, rs []*absVal) { returns++ }
					w.Run()
					if (mode == "other") != (returns > 0) {
						okLoop = false
					}
				}
				c.Cond(okLoop, "1/kill-reap", rel+"."+fn.Name()+":until-error", p.Pos(fn.Pos()), "reaps until wait4 reports no more children", "the reaper can stop while children remain")
				// ... and it reaps the whole group: the wait target is the negated group id (or -1), with no option that
				// narrows the set of children waited for (__WCLONE, __WNOTHREAD) or makes the wait return early (WNOHANG)
				for _, ci := range callInstrs(fn) {
					if n, _ := calleeOf(ci); strings.HasSuffix(n, ".Wait4") {
						a := stripConv(ci.Common().Args[0])
						grp := false
						if u, ok := a.(*ssa.UnOp); ok && u.Op == token.SUB {
							_, grp = stripConv(u.X).(*ssa.Parameter)
						}
						if v, ok := constInt(a); ok && v == -1 {
							grp = true
						}
						opt, isC := constInt(ci.Common().Args[2])
						narrow := int64(0x80000000 | 0x20000000 | 1) // __WCLONE | __WNOTHREAD | WNOHANG
						c.Cond(grp && isC && opt&narrow == 0, "1/kill-reap", rel+"."+fn.Name()+":whole-group", p.Pos(ci.Pos()), "waits for any member of the killed group, blocking",
							fmt.Sprintf("the reaper waits for %s with options %s: processes of the run other than that target are killed but never collected (zombies pinned by the tracer)", describe(ci.Common().Args[0]), describe(ci.Common().Args[2])))
					}
				}
			}
		}
	}
	checkContainerReap(c)
	checkDestroyKillsAndReaps(c, "1/kill-reap")
	// a launch that failed after the clone is killed and collected (C07.3: helper kills, then waits with options 0,
	// retried on EINTR; every error return of the parent passes it)
	importObs(c, "C07", "C07.3/fail-kill-reap", "1/kill-reap", nil)
	c.Expect("1/kill-reap", 18)

	// ---------- 2: descriptor pairing ----------
	checkDescriptorPairing(c)
	// descriptors that arrived with a message that is then rejected are closed (the rules of C19.3)
	sub19 := NewCheck("C19", c.Tier, c.P)
	checkC19(sub19)
	n19 := 0
	for _, o := range sub19.Obs {
		if o.Rule == "C19.3/no-leak-on-reject" {
			n19++
			c.Obs = append(c.Obs, Obligation{Rule: "C12.2/rejected-message-descriptors", Key: o.Key, Pos: o.Pos, Status: o.Status, Msg: o.Msg})
		}
	}
	c.Expect("2/rejected-message-descriptors", 5)

	// ---------- 3: goroutines ----------
	checkGoroutines(c)

	// ---------- 4: nobody leaves the group that is killed and reaped ----------
	checkConfigTables(c, "4/no-group-escape", "group")
}

// errEdgeFilter drops the failure edge of an (x, err) call: the If on `err != nil`.
func errEdgeFilter(ci ssa.CallInstruction) func(b *ssa.BasicBlock, k int) bool {
	v, ok := ci.(ssa.Value)
	roots := map[ssa.Value]bool{}
	if ok {
		roots[v] = true
	}
	return func(b *ssa.BasicBlock, k int) bool {
		iff := blockIf(b)
		if iff == nil {
			return true
		}
		bo, ok := iff.Cond.(*ssa.BinOp)
		if !ok || !isNilConst(bo.Y) || bo.X.Type().String() != "error" || !dependsOn(bo.X, roots, 0) {
			return true
		}
		if bo.Op == token.NEQ && k == 0 {
			return false
		}
		if bo.Op == token.EQL && k == 1 {
			return false
		}
		return true
	}
}

// checkContainerReap: after a successful Start in the container, every non-transport-lost return passed kill(-1), the main wait and the wait-all handshake.
func checkContainerReap(c *Check) {
	p := c.P
	sigkill := p.Sys("SIGKILL")
	he := p.Func("container", "containerServer.handleExecve")
	hs := p.Func("container", "containerServer.handleExecveStarted")
	if he == nil || hs == nil {
		c.Undecided("1/kill-reap", "container.handleExecve", "-", "functions not found")
		return
	}
	type step struct {
		name string
		pred func(in ssa.Instruction) bool
	}
	steps := []step{
		{"kill(-1, SIGKILL)", func(in ssa.Instruction) bool {
			ci, ok := in.(ssa.CallInstruction)
			if !ok {
				return false
			}
			if n, _ := calleeOf(ci); n == "syscall.Kill" {
				pid, ok1 := constInt(ci.Common().Args[0])
				s, ok2 := constInt(ci.Common().Args[1])
				return ok1 && pid == -1 && ok2 && s == sigkill
			}
			return false
		}},
		{"the wait for the main pid (waitPidResult)", func(in ssa.Instruction) bool {
			if u, ok := in.(*ssa.UnOp); ok && u.Op == token.ARROW && strings.HasSuffix(describe(u.X), ".waitPidResult") {
				return true
			}
			if s, ok := in.(*ssa.Select); ok {
				// taken care of by the per-arm analysis below: the select itself is not a guaranteed receive
				_ = s
			}
			return false
		}},
		{"the wait-all request (waitAll)", func(in ssa.Instruction) bool {
			s, ok := in.(*ssa.Send)
			return ok && strings.HasSuffix(describe(s.Chan), ".waitAll")
		}},
		{"the wait-all completion (waitAllDone)", func(in ssa.Instruction) bool {
			u, ok := in.(*ssa.UnOp)
			return ok && u.Op == token.ARROW && strings.HasSuffix(describe(u.X), ".waitAllDone")
		}},
	}
	check := func(fn *ssa.Function, from ssa.Instruction, edgeOK func(*ssa.BasicBlock, int) bool) {
		cd := controlDeps(fn)
		// select arms
		doneArm := map[string]int{}   // select name -> index of the done arm
		resultArm := map[string]int{} // select name -> index of the waitPidResult arm
		for _, b := range fn.Blocks {
			for _, in := range b.Instrs {
				if s, ok := in.(*ssa.Select); ok {
					for k, st := range s.States {
						if strings.HasSuffix(describe(st.Chan), ".done") {
							doneArm[describe(s)] = k
						}
						if strings.HasSuffix(describe(st.Chan), ".waitPidResult") {
							resultArm[describe(s)] = k
						}
					}
				}
			}
		}
		n := 0
		for _, b := range fn.Blocks {
			ret, ok := b.Instrs[len(b.Instrs)-1].(*ssa.Return)
			if !ok {
				continue
			}
			if from != nil && !anyReach(from.Block(), b) {
				continue
			}
			g := cd.guardOf(b)
			exempt := false
			for sel, k := range doneArm {
				a := fmt.Sprintf("%s#0 == %d", sel, k)
				if ok2, _, _ := Valid(fImp(g, fLit(a))); ok2 {
					exempt = true
				}
			}
			// delegation to the started-state handler (possibly through the result slot when defers are present)
			if fn != hs {
				for _, in := range b.Instrs {
					if ci, ok := in.(ssa.CallInstruction); ok {
						if _, callee := calleeOf(ci); callee == hs {
							exempt = true
						}
					}
				}
			}
			// the transport was lost: the returned error is the (non-nil) error of a transport primitive, after which the init exits
			if isTransportErrorReturn(ret) {
				exempt = true
			}
			// error replies before anything was started (only when analysing from the function entry)
			if exempt {
				continue
			}
			n++
			for _, s := range steps {
				pred := s.pred
				stop := func(in ssa.Instruction) bool {
					if pred(in) {
						return true
					}
					return false
				}
				ef := edgeOK
				if s.name == steps[1].name {
					// the arm of the select that received the result counts as the wait for the main pid
					ef = func(bb *ssa.BasicBlock, k int) bool {
						if edgeOK != nil && !edgeOK(bb, k) {
							return false
						}
						if iff := blockIf(bb); iff != nil {
							a, neg := condLit(iff.Cond)
							for sel, idx := range resultArm {
								if a == fmt.Sprintf("%s#0 == %d", sel, idx) && ((k == 0) != neg) {
									return false // this edge IS the result arm: treat as satisfied (path ends)
								}
							}
						}
						return true
					}
				}
				found, trail := pathQuery{fn: fn, from: from, target: func(in ssa.Instruction) bool { return in == ssa.Instruction(ret) }, stop: stop, edgeOK: ef}.find()
				c.Cond(!found, "1/kill-reap", fmt.Sprintf("container.%s:return@b%d:%s", fn.Name(), b.Index, s.name), p.Pos(ret.Pos()), "this return has passed "+s.name,
					"a return after a program was started that has not passed "+s.name+": processes or zombies stay behind in the container; path: "+p.trail(trail))
			}
		}
	}
	// handleExecve: from the success edge of Start
	var start ssa.CallInstruction
	for _, ci := range callInstrs(he) {
		if n, _ := calleeOf(ci); strings.HasSuffix(n, "forkexec.Runner).Start") {
			start = ci
		}
	}
	if start == nil {
		c.Fail("1/kill-reap", "container.handleExecve:start", p.Pos(he.Pos()), "Start call not found")
		return
	}
	_ = check
	// Path-sensitive evaluation (constant propagation through flags such as `killed := true`): the launch handler is
	// walked from its entry with Start assumed successful, following the started-state handler; every blocking select
	// is enumerated arm by arm. On each return that is neither the transport-lost arm nor a transport error, all four
	// steps must have happened.
	var selects []*ssa.Select
	for _, f := range []*ssa.Function{he, hs} {
		for _, b := range f.Blocks {
			for _, in := range b.Instrs {
				if sl, ok := in.(*ssa.Select); ok && sl.Blocking {
					dup := false
					for _, x := range selects {
						if x == sl {
							dup = true
						}
					}
					if !dup {
						selects = append(selects, sl)
					}
				}
			}
		}
	}
	armOf := func(sl *ssa.Select, suffix string) int {
		for k, st := range sl.States {
			if strings.HasSuffix(describe(st.Chan), suffix) {
				return k
			}
		}
		return -1
	}
	type armChoice map[*ssa.Select]int
	var choices []armChoice
	var gen func(i int, cur armChoice)
	gen = func(i int, cur armChoice) {
		if i == len(selects) {
			c2 := armChoice{}
			for k, v := range cur {
				c2[k] = v
			}
			choices = append(choices, c2)
			return
		}
		for k := range selects[i].States {
			cur[selects[i]] = k
			gen(i+1, cur)
		}
	}
	gen(0, armChoice{})
	startV, _ := start.(ssa.Value)
	agg := map[string]bool{}
	aggPos := map[string]string{}
	aggStep := map[string]string{}
	defer func() {
		var keys []string
		for k := range agg {
			keys = append(keys, k)
		}
		sort.Strings(keys)
		for _, k := range keys {
			c.Cond(agg[k], "1/kill-reap", k, aggPos[k], "this return has passed "+aggStep[k]+" on every path and select arm",
				"a return after a program was started that has not passed "+aggStep[k]+" on some path: processes or zombies stay behind in the container")
		}
	}()
	roots := []*ssa.Function{he}
	if hs != he {
		roots = append(roots, hs)
	}
	for _, root := range roots {
		for _, choice := range choices {
			// only the selects of this root matter
			relevant := false
			for sl := range choice {
				if sl.Parent() == root {
					relevant = true
				}
			}
			if !relevant && len(choice) > 0 && root == hs {
				continue
			}
			onDone := false
			gotResult := false
			for sl, k := range choice {
				if k == armOf(sl, ".done") {
					onDone = true
				}
				if k == armOf(sl, ".waitPidResult") {
					gotResult = true
				}
			}
			if onDone {
				continue // the transport was lost: the init exits, the kernel reaps
			}
			w := &walker{fn: root, MaxVisits: 3, MemoStates: true, Inline: -1}
			w.Seed = func(w *walker, st *wstate, v ssa.Value) *absVal {
				if ex, ok := v.(*ssa.Extract); ok {
					if sl, isSel := ex.Tuple.(*ssa.Select); isSel && ex.Index == 0 {
						if k, ok := choice[sl]; ok {
							return avInt(int64(k))
						}
					}
					if ex.Tuple == startV && isErrorType(ex.Type()) {
						return &absVal{k: avNil}
					}
				}
				return nil
			}
			w.OnInstr = func(w *walker, st *wstate, in ssa.Instruction) {
				if in == start.(ssa.Instruction) {
					st.note("started")
				}
				// delegation to the started-state handler: that function is evaluated as a root of its own
				if ci, ok := in.(ssa.CallInstruction); ok && root != hs {
					if _, callee := calleeOf(ci); callee == hs {
						st.note("delegated")
					}
				}
				for _, stp := range steps {
					if stp.pred(in) {
						st.note(stp.name)
					}
				}
			}
			w.OnReturn = func(w *walker, st *wstate, ret *ssa.Return, rs []*absVal) {
				if root == he && !st.noted("started") {
					return // a reply sent before anything was started
				}
				if st.noted("delegated") {
					return
				}
				if isTransportErrorReturn(ret) && !(len(rs) > 0 && rs[len(rs)-1].k == avNil) {
					return
				}
				for _, stp := range steps {
					have := st.noted(stp.name) || (stp.name == steps[1].name && gotResult)
					key := fmt.Sprintf("container.%s:return@%s:%s", root.Name(), p.Pos(ret.Pos()), stp.name)
					if prev, ok := agg[key]; !ok || prev {
						agg[key] = have
						aggPos[key] = p.Pos(ret.Pos())
						aggStep[key] = stp.name
					}
				}
			}
			w.Run()
		}
	}
}

// ---------- descriptor pairing ----------

type relSpec struct {
	rule, key string
	fn        *ssa.Function
	from      ssa.Instruction // acquisition (nil = function entry)
	edgeOK    func(*ssa.BasicBlock, int) bool
	isRelease func(in ssa.Instruction) bool
	escapes   func(ret *ssa.Return) bool // the resource is handed to the caller by this return
	what      string
}

func (c *Check) pairedRelease(s relSpec) {
	p := c.P
	n := 0
	bad := 0
	for _, b := range s.fn.Blocks {
		ret, ok := b.Instrs[len(b.Instrs)-1].(*ssa.Return)
		if !ok {
			continue
		}
		if s.escapes != nil && s.escapes(ret) {
			continue
		}
		n++
		found, trail := pathQuery{fn: s.fn, from: s.from, target: func(in ssa.Instruction) bool { return in == ssa.Instruction(ret) }, stop: s.isRelease, edgeOK: s.edgeOK}.find()
		if found {
			bad++
			c.Fail(s.rule, fmt.Sprintf("%s:return@b%d", s.key, b.Index), p.Pos(ret.Pos()), s.what+" is not released on a path to this return: "+p.trail(trail))
		}
	}
	if bad == 0 {
		c.OK(s.rule, s.key, p.Pos(s.fn.Pos()), fmt.Sprintf("%s is released on every path (%d returns)", s.what, n))
	}
}

// closesValue: instruction closes (or defers / spawns the closing of) the resource described by desc.
func closesDesc(desc string) func(in ssa.Instruction) bool {
	return func(in ssa.Instruction) bool {
		ci, ok := in.(ssa.CallInstruction)
		if !ok {
			return false
		}
		n, callee := calleeOf(ci)
		args := ci.Common().Args
		isClose := strings.HasSuffix(n, ".Close") || strings.HasSuffix(n, ").Close") || strings.HasSuffix(n, ").Destroy")
		if isClose && len(args) >= 1 && (describe(args[0]) == desc || strings.HasPrefix(strings.TrimPrefix(describe(args[0]), "&"), desc+".")) {
			return true
		}
		// helper that closes every element of the list / the value
		if callee != nil && inModule(callee) && len(args) >= 1 && describe(args[len(args)-1]) == desc && reachesCall(callee, 1, func(c2 ssa.CallInstruction) bool {
			n2, _ := calleeOf(c2)
			return strings.HasSuffix(n2, ".Close")
		}) {
			return true
		}
		// goroutine / deferred closure that closes it
		if mc, ok := ci.Common().Value.(*ssa.MakeClosure); ok {
			cl := mc.Fn.(*ssa.Function)
			for _, c2 := range callInstrs(cl) {
				n2, _ := calleeOf(c2)
				if strings.HasSuffix(n2, ".Close") && len(c2.Common().Args) >= 1 {
					d2 := describe(c2.Common().Args[0])
					if d2 == desc || strings.TrimPrefix(d2, "free:") == strings.TrimPrefix(desc, "local:") || d2 == "free:"+desc {
						return true
					}
				}
			}
		}
		return false
	}
}

func checkDescriptorPairing(c *Check) {
	p := c.P
	rule := "2/descriptor-pairing"
	// A. syncWithChild: both ends of the socket pair
	if r, err := buildE1(p); err == nil && r.Parent != nil {
		fn := r.Parent
		var arr string
		for _, pr := range fn.Params {
			if pr.Type().String() == "[2]int" {
				arr = pr.Name()
			}
		}
		for _, idx := range []int{0, 1} {
			desc := fmt.Sprintf("local:%s[%d]", arr, idx)
			rel := closesDesc(desc)
			isRel := func(in ssa.Instruction) bool {
				if rel(in) {
					return true
				}
				// go func() { ...; unix.Close(p[0]) }()
				if g, ok := in.(*ssa.Go); ok {
					if gf := spawnedFn(&g.Call); gf != nil && inModule(gf) && len(gf.Blocks) > 0 {
						for _, c2 := range callInstrs(gf) {
							if n2, _ := calleeOf(c2); strings.HasSuffix(n2, ".Close") && strings.HasSuffix(describe(c2.Common().Args[0]), fmt.Sprintf("%s[%d]", arr, idx)) {
								return true
							}
						}
						// go f(p[0], …) with f closing that parameter
						for ai, a := range g.Call.Args {
							if describe(a) != desc || ai >= len(gf.Params) {
								continue
							}
							for _, c2 := range callInstrs(gf) {
								if n2, _ := calleeOf(c2); strings.HasSuffix(n2, ".Close") && len(c2.Common().Args) >= 1 && stripConv(c2.Common().Args[0]) == ssa.Value(gf.Params[ai]) {
									return true
								}
							}
						}
					}
				}
				return false
			}
			c.pairedRelease(relSpec{rule: rule, key: fmt.Sprintf("pkg/forkexec.%s:socketpair[%d]", fn.Name(), idx), fn: fn, isRelease: isRel, what: fmt.Sprintf("end %d of the sync socket pair", idx)})
			// ... and at most once: a second close (explicit, deferred, or by the goroutine the descriptor was handed
			// to) hits whatever descriptor got the recycled number in the meantime — another run's socket or pipe
			maxRel, where := 0, ""
			w := &walker{fn: fn, Inline: -1}
			w.OnInstr = func(w *walker, st *wstate, in ssa.Instruction) {
				if _, isDefer := in.(*ssa.Defer); isDefer {
					return // counted at the return
				}
				if isRel(in) {
					st.bump("released")
				}
			}
			w.OnReturn = func(w *walker, st *wstate, ret *ssa.Return, rs []*absVal) {
				n := st.count("released")
				for _, d := range st.defers {
					if rel(d) {
						n++
					}
				}
				if n > maxRel {
					maxRel, where = n, p.Pos(ret.Pos())
				}
			}
			w.Run()
			c.Cond(maxRel <= 1 && !w.Truncated, rule, fmt.Sprintf("pkg/forkexec.%s:socketpair[%d]:once", fn.Name(), idx), p.Pos(fn.Pos()), "released at most once on every path",
				fmt.Sprintf("end %d of the sync socket pair is released %d times on a path (return at %s): the later close lands on a descriptor number that may already belong to a concurrent run", idx, maxRel, where))
		}
		// Start: the pair is created last, right before the fork (no return between creation and the hand-over)
		var sp, child ssa.CallInstruction
		for _, ci := range callInstrs(r.Start) {
			n, callee := calleeOf(ci)
			if strings.HasSuffix(n, ".Socketpair") {
				sp = ci
			}
			if callee == r.Child {
				child = ci
			}
		}
		if sp != nil && child != nil {
			found, trail := pathQuery{fn: r.Start, from: sp, target: isReturn, stop: func(in ssa.Instruction) bool { return in == ssa.Instruction(child) }, edgeOK: errEdgeFilter(sp)}.find()
			c.Cond(!found, rule, "pkg/forkexec.Start:socketpair-to-fork", p.Pos(sp.Pos()), "no return between creating the sync pair and handing it to the launch code", "Start can return after creating the sync socket pair without closing it: "+p.trail(trail))
		}
	}
	// generic single-value acquisitions: (res, err) := acquire(...)
	type acq struct {
		rel, fn  string
		callee   string
		resIndex int
	}
	for _, a := range []acq{
		{"pkg/forkexec", "writeFile", "golang.org/x/sys/unix.Open", 0},
		{"container", "removeContents", "os.Open", 0},
		{"container", "readDotEnv", "os.Open", 0},
		{"pkg/cgroup", "AddProcesses", "os.OpenFile", 0},
	} {
		fn := p.Func(a.rel, a.fn)
		if fn == nil {
			c.Undecided(rule, a.rel+"."+a.fn, "-", "function not found")
			continue
		}
		for _, ci := range callInstrs(fn) {
			if n, _ := calleeOf(ci); n == a.callee {
				v := ci.(ssa.Value)
				var res ssa.Value
				for _, r := range *v.Referrers() {
					if ex, ok := r.(*ssa.Extract); ok && ex.Index == a.resIndex {
						res = ex
					}
				}
				if res == nil {
					continue
				}
				c.pairedRelease(relSpec{rule: rule, key: a.rel + "." + a.fn + ":" + a.callee, fn: fn, from: ci, edgeOK: errEdgeFilter(ci), isRelease: closesDesc(describe(res)), what: "the descriptor opened by " + a.callee})
			}
		}
	}
	// E. startContainer: ins closed on error / transferred; outs, outf always
	if sc := p.Func("container", "Builder.startContainer"); sc != nil {
		var pair, file ssa.CallInstruction
		for _, ci := range callInstrs(sc) {
			n, callee := calleeOf(ci)
			if callee != nil && inModule(callee) && callee.Signature.Results().Len() == 3 {
				pair = ci
			}
			if strings.HasSuffix(n, "unixsocket.Socket).File") {
				file = ci
			}
		}
		if pair != nil {
			v := pair.(ssa.Value)
			var ins, outs ssa.Value
			for _, r := range *v.Referrers() {
				if ex, ok := r.(*ssa.Extract); ok {
					switch ex.Index {
					case 0:
						ins = ex
					case 1:
						outs = ex
					}
				}
			}
			if ins != nil && outs != nil {
				c.pairedRelease(relSpec{rule: rule, key: "container.startContainer:host-socket", fn: sc, from: pair, edgeOK: errEdgeFilter(pair), isRelease: closesDesc(describe(ins)), what: "the host end of the control socket",
					escapes: func(ret *ssa.Return) bool { return !isNilConst(retVal(ret, 0)) }})
				c.pairedRelease(relSpec{rule: rule, key: "container.startContainer:container-socket", fn: sc, from: pair, edgeOK: errEdgeFilter(pair), isRelease: closesDesc(describe(outs)), what: "the container end of the control socket"})
			}
		}
		if file != nil {
			v := file.(ssa.Value)
			for _, r := range *v.Referrers() {
				if ex, ok := r.(*ssa.Extract); ok && ex.Index == 0 {
					c.pairedRelease(relSpec{rule: rule, key: "container.startContainer:dup-file", fn: sc, from: file, edgeOK: errEdgeFilter(file), isRelease: closesDesc(describe(ex)), what: "the duplicated socket file passed to the child"})
				}
			}
		}
	}
	// F. Builder.Build: the started container is destroyed on every error return
	if bd := p.Func("container", "Builder.Build"); bd != nil {
		for _, ci := range callInstrs(bd) {
			if n, _ := calleeOf(ci); strings.HasSuffix(n, "Builder).startContainer") {
				v := ci.(ssa.Value)
				for _, r := range *v.Referrers() {
					if ex, ok := r.(*ssa.Extract); ok && ex.Index == 0 {
						c.pairedRelease(relSpec{rule: rule, key: "container.Build:started-container", fn: bd, from: ci, edgeOK: errEdgeFilter(ci), isRelease: closesDesc(describe(ex)), what: "the started container (process, socket, goroutines)",
							escapes: func(ret *ssa.Return) bool { return !isNilConst(retVal(ret, 0)) }})
					}
				}
			}
		}
	}
	// I. handleExecve: received descriptors are released after the run
	if he := p.Func("container", "containerServer.handleExecve"); he != nil {
		ok := false
		for _, b := range he.Blocks {
			for _, in := range b.Instrs {
				if df, isD := in.(*ssa.Defer); isD {
					if _, callee := calleeOf(df); callee != nil && inModule(callee) && strings.HasSuffix(describe(df.Call.Args[0]), ".Fds") && reachesCall(callee, 0, nameIs("syscall.Close")) {
						conds := extraCondsEE(controlDeps(he), b)
						ok = len(conds) == 1 && strings.Contains(conds[0], "len(") && strings.Contains(conds[0], ".Fds)")
					}
				}
			}
		}
		c.Cond(ok, rule, "container.handleExecve:received-fds", p.Pos(he.Pos()), "descriptors received with the request are closed when the handler returns", "descriptors received with an execve request are not (always) closed by the container init: they accumulate over runs")
	}
	// K. pipe.NewPipe: the read end is closed by the collector (checked in C08), the write end is returned
	// C. NewSocketPair error paths: each raw descriptor is released exactly once on every path to an error return:
	// closed by number, or handed to a function that wraps it in an *os.File it closes itself (which releases the
	// number also when that function fails); a socket object that was already made is closed as well.
	if sp := p.Func("pkg/unixsocket", "NewSocketPair"); sp != nil {
		wraps := func(f *ssa.Function) (int, bool) {
			if f == nil {
				return 0, false
			}
			for _, ci := range callInstrs(f) {
				if nm, _ := calleeOf(ci); nm == "os.NewFile" {
					if par, ok := stripConv(ci.Common().Args[0]).(*ssa.Parameter); ok {
						for i, q := range f.Params {
							if q == par {
								return i, true
							}
						}
					}
				}
			}
			return 0, false
		}
		var paths [][]*ssa.BasicBlock
		var walk func(b *ssa.BasicBlock, cur []*ssa.BasicBlock, on map[*ssa.BasicBlock]bool)
		walk = func(b *ssa.BasicBlock, cur []*ssa.BasicBlock, on map[*ssa.BasicBlock]bool) {
			if on[b] || len(paths) > 256 {
				return
			}
			cur = append(cur, b)
			if _, ok := b.Instrs[len(b.Instrs)-1].(*ssa.Return); ok {
				paths = append(paths, append([]*ssa.BasicBlock{}, cur...))
				return
			}
			on[b] = true
			for _, sc := range b.Succs {
				walk(sc, cur, on)
			}
			delete(on, b)
		}
		if len(sp.Blocks) > 0 {
			walk(sp.Blocks[0], nil, map[*ssa.BasicBlock]bool{})
		}
		n := 0
		for _, path := range paths {
			last := path[len(path)-1]
			ret := last.Instrs[len(last.Instrs)-1].(*ssa.Return)
			if !isNilConst(retVal(ret, 0)) || blockIsErrBranchOf(last, "Socketpair") {
				continue
			}
			rel := map[string]int{}
			made, closedObj := 0, 0
			for bi, b := range path {
				for _, in := range b.Instrs {
					ci, ok := in.(ssa.CallInstruction)
					if !ok {
						continue
					}
					nm, callee := calleeOf(ci)
					if nm == "syscall.Close" || nm == "golang.org/x/sys/unix.Close" {
						rel[describe(stripConv(ci.Common().Args[0]))]++
						continue
					}
					if idx, ok := wraps(callee); ok && idx < len(ci.Common().Args) {
						rel[describe(stripConv(ci.Common().Args[idx]))]++
						// did it succeed on this path? (the path continues on the err == nil edge)
						if bi+1 < len(path) && !blockIsErrBranchOf(path[bi+1], callee.Name()) {
							made++
						}
						continue
					}
					if strings.HasSuffix(nm, ").Close") && callee != nil && inModule(callee) {
						closedObj++
					}
				}
			}
			n++
			var bad []string
			for _, end := range []string{"local:fd[0]", "local:fd[1]"} {
				if rel[end] != 1 {
					bad = append(bad, fmt.Sprintf("%s released %d times", strings.TrimPrefix(end, "local:"), rel[end]))
				}
			}
			if closedObj < made {
				bad = append(bad, fmt.Sprintf("%d socket object(s) made, %d closed", made, closedObj))
			}
			c.Cond(len(bad) == 0, rule, fmt.Sprintf("pkg/unixsocket.NewSocketPair:error-return#%d", n), p.Pos(ret.Pos()), "each end is released exactly once on this error path (closed by number or taken over by the wrapping constructor) and every socket already made is closed",
				strings.Join(bad, "; ")+" on the path to this error return (a number taken over by "+"NewSocket is released by its wrapper also when NewSocket fails)")
		}
		if n == 0 {
			c.Undecided(rule, "pkg/unixsocket.NewSocketPair:error-returns", p.Pos(sp.Pos()), "no error return found after the socketpair call")
		}
	}
	// D. NewSocket: the temporary *os.File is closed
	if ns := p.Func("pkg/unixsocket", "NewSocket"); ns != nil {
		for _, ci := range callInstrs(ns) {
			if n, _ := calleeOf(ci); n == "os.NewFile" {
				v := ci.(ssa.Value)
				c.pairedRelease(relSpec{rule: rule, key: "pkg/unixsocket.NewSocket:temp-file", fn: ns, from: ci, isRelease: closesDesc(describe(v)), what: "the temporary *os.File",
					edgeOK: func(b *ssa.BasicBlock, k int) bool {
						// file == nil edge: nothing to close
						if iff := blockIf(b); iff != nil {
							if bo, ok := iff.Cond.(*ssa.BinOp); ok && bo.X == v && isNilConst(bo.Y) {
								return !((bo.Op == token.EQL && k == 0) || (bo.Op == token.NEQ && k == 1))
							}
						}
						return true
					}})
			}
		}
	}
	c.Expect(rule, 12)
}

func blockIsErrBranchOf(b *ssa.BasicBlock, calleeSuffix string) bool {
	if len(b.Preds) != 1 {
		return false
	}
	iff := blockIf(b.Preds[0])
	if iff == nil {
		return false
	}
	return strings.Contains(describe(iff.Cond), calleeSuffix+"(")
}

// ---------- goroutines ----------

func checkGoroutines(c *Check) {
	p := c.P
	type gor struct {
		spawner *ssa.Function
		g       *ssa.Go
		body    *ssa.Function
	}
	var gs []gor
	for _, pk := range p.Pkgs {
		if strings.Contains(pk.PkgPath, "/cmd/") {
			continue
		}
		rel := strings.TrimPrefix(pk.PkgPath, repoModule+"/")
		for _, fn := range p.PkgFuncs(rel) {
			for _, b := range fn.Blocks {
				for _, in := range b.Instrs {
					if g, ok := in.(*ssa.Go); ok {
						var body *ssa.Function
						switch v := g.Call.Value.(type) {
						case *ssa.MakeClosure:
							body = v.Fn.(*ssa.Function)
						case *ssa.Function:
							body = v
						}
						gs = append(gs, gor{fn, g, body})
					}
				}
			}
		}
	}
	sort.Slice(gs, func(i, j int) bool { return p.Pos(gs[i].g.Pos()) < p.Pos(gs[j].g.Pos()) })
	for _, g := range gs {
		key := shortName(g.spawner) + ":go"
		if g.body != nil {
			key += " " + g.body.Name()
		}
		pos := p.Pos(g.g.Pos())
		if g.body == nil {
			c.Fail("3/goroutines", key, pos, "goroutine with a dynamic body")
			continue
		}
		// classify
		var doneRecv *ssa.Call // X.Done()
		hasDoneSelect, hasSocketIO, hasCopy, hasForever := false, false, false, false
		for _, ci := range callInstrs(g.body) {
			if ci.Common().IsInvoke() && ci.Common().Method.Name() == "Done" {
				doneRecv, _ = ci.(*ssa.Call)
			}
		}
		// the body's work may sit in per-round helpers of the package (`for c.sendNext() {}`)
		bodyFns := []*ssa.Function{g.body}
		for _, ci := range callInstrs(g.body) {
			if _, callee := calleeOf(ci); callee != nil && callee.Pkg == g.body.Pkg && len(callee.Blocks) > 0 && callee != g.body {
				bodyFns = append(bodyFns, callee)
			}
		}
		for _, ci := range callInstrsDeep(g.body, 1) {
			n, _ := calleeOf(ci)
			if strings.HasSuffix(n, "container.socket).RecvMsg") {
				hasSocketIO = true
			}
			if n == "io.CopyN" || strings.HasSuffix(n, "forkexec.readChildErr") {
				hasCopy = true
			}
		}
		var ops []chanOp
		for _, bf := range bodyFns {
			ops = append(ops, chanOpsOf(bf)...)
		}
		for _, op := range ops {
			if op.kind == "select" && hasSuffixAny(op.chans, ".done") {
				hasDoneSelect = true
			}
			if op.kind == "select" && (hasSuffixAny(op.chans, ".waitPid") || hasSuffixAny(op.chans, ".waitAll")) {
				hasForever = true
			}
		}
		switch {
		case doneRecv != nil:
			// the context is derived in the spawner by WithCancel and the cancel is deferred there
			ctxV := doneRecv.Call.Value
			src := ctxV
			if u, ok := ctxV.(*ssa.UnOp); ok && u.Op == token.MUL {
				ctxV = u.X
				src = ctxV
			}
			if fv, ok := ctxV.(*ssa.FreeVar); ok {
				// binding in the MakeClosure
				if mc, ok := g.g.Call.Value.(*ssa.MakeClosure); ok {
					for i, f := range g.body.FreeVars {
						if f == fv {
							src = mc.Bindings[i]
						}
					}
				}
			}
			okDerived, okCancel := false, false
			// src is (a load of) the result #0 of context.WithCancel in the spawner
			var wc *ssa.Call
			seen := map[ssa.Value]bool{}
			var find func(v ssa.Value)
			find = func(v ssa.Value) {
				if v == nil || seen[v] {
					return
				}
				seen[v] = true
				switch x := v.(type) {
				case *ssa.Extract:
					if call, ok := x.Tuple.(*ssa.Call); ok {
						if n, _ := calleeOf(call); n == "context.WithCancel" || n == "context.WithTimeout" || n == "context.WithDeadline" {
							wc = call
						}
					}
				case *ssa.UnOp:
					find(x.X)
				case *ssa.Alloc:
					if refs := x.Referrers(); refs != nil {
						for _, r := range *refs {
							if st, ok := r.(*ssa.Store); ok && st.Addr == ssa.Value(x) {
								find(st.Val)
							}
						}
					}
				case *ssa.MakeInterface:
					find(x.X)
				case *ssa.Phi:
					for _, e := range x.Edges {
						find(e)
					}
				}
			}
			find(src)
			if wc != nil && wc.Parent() == g.spawner {
				okDerived = true
				for _, r := range *wc.Referrers() {
					if ex, ok := r.(*ssa.Extract); ok && ex.Index == 1 {
						for _, u := range *ex.Referrers() {
							if df, ok := u.(*ssa.Defer); ok && df.Call.Value == ssa.Value(ex) {
								okCancel = true
							}
							// stored into a local that is deferred
							if st, ok := u.(*ssa.Store); ok {
								if a, ok := st.Addr.(*ssa.Alloc); ok {
									for _, r2 := range *a.Referrers() {
										if ld, ok := r2.(*ssa.UnOp); ok {
											for _, u2 := range *ld.Referrers() {
												if df, ok := u2.(*ssa.Defer); ok && df.Call.Value == ssa.Value(ld) {
													okCancel = true
												}
											}
										}
									}
								}
							}
						}
					}
				}
			}
			c.Cond(okDerived && okCancel, "3/goroutines", key, pos, "context watcher: waits on a context derived in the spawner whose cancel is deferred there (ends with the run)",
				"this goroutine waits on a context that is not cancelled when the run returns (no WithCancel + deferred cancel in the spawning function): one goroutine stays parked per run until the caller's context ends")
		case hasDoneSelect:
			c.OK("3/goroutines", key, pos, "transport/send loop: ends when 'done' is closed")
		case hasSocketIO:
			c.OK("3/goroutines", key, pos, "receive loop: ends on a socket error (Destroy closes the socket)")
		case hasForever:
			c.OK("3/goroutines", key, pos, "wait loop of the container init: lives as long as the init process")
		case hasCopy:
			c.OK("3/goroutines", key, pos, "reader: ends at EOF of its descriptor")
		default:
			c.Fail("3/goroutines", key, pos, "a goroutine whose termination is not tied to 'done', a cancelled derived context, a socket or an EOF")
		}
	}
	c.Cond(len(gs) == 9, "3/goroutines", "library:go-statements", "-", "9 go statements in the library", fmt.Sprintf("%d go statements in the library (9 are accounted for): a new goroutine needs an owner that ends it", len(gs)))
	c.Expect("3/goroutines", 10)
}

// isTransportErrorReturn: the return yields the known-non-nil error of a transport primitive (a function that selects on 'done').
func isTransportErrorReturn(ret *ssa.Return) bool {
	if len(ret.Results) == 0 {
		return false
	}
	v := ret.Results[len(ret.Results)-1]
	// through the result slot
	if u, ok := v.(*ssa.UnOp); ok && u.Op == token.MUL {
		for _, in := range ret.Block().Instrs {
			if st, ok := in.(*ssa.Store); ok && st.Addr == u.X {
				v = st.Val
			}
		}
	}
	var call *ssa.Call
	switch x := v.(type) {
	case *ssa.Call:
		call = x
	case *ssa.Extract:
		call, _ = x.Tuple.(*ssa.Call)
	}
	if call == nil {
		return false
	}
	_, callee := calleeOf(call)
	if callee == nil || !inModule(callee) {
		return false
	}
	hasDone := func(f *ssa.Function) bool {
		for _, op := range chanOpsOf(f) {
			if op.kind == "select" && hasSuffixAny(op.chans, ".done") {
				return true
			}
		}
		return false
	}
	tp := hasDone(callee)
	if !tp {
		for _, ci := range callInstrs(callee) {
			if _, c2 := calleeOf(ci); c2 != nil && inModule(c2) && hasDone(c2) {
				tp = true
			}
		}
	}
	if !tp {
		return false
	}
	// known non-nil on this path
	for _, d := range cdChain(controlDeps(ret.Parent()), ret.Block()) {
		if iff := blockIf(d.b); iff != nil {
			if bo, ok := iff.Cond.(*ssa.BinOp); ok && isNilConst(bo.Y) && bo.X == v {
				if (bo.Op == token.NEQ && d.succ == 0) || (bo.Op == token.EQL && d.succ == 1) {
					return true
				}
			}
		}
	}
	return false
}

// checkDestroyKillsAndReaps: no path through the environment's Destroy reaches a
// return without having killed the container init (process.Kill) and waited
// for it (process.Wait) — whatever earlier steps reported.
func checkDestroyKillsAndReaps(c *Check, rule string) {
	p := c.P
	ds := p.Func("container", "container.Destroy")
	if ds == nil {
		c.Undecided(rule, "container.Destroy", "-", "function not found")
		return
	}
	for _, step := range []string{"Kill", "Wait"} {
		want := "(os.Process)." + step
		n := 0
		isDirect := func(in ssa.Instruction) bool {
			if ci, ok := in.(ssa.CallInstruction); ok {
				if nm, _ := calleeOf(ci); nm == want {
					return true
				}
			}
			return false
		}
		isStep := func(in ssa.Instruction) bool {
			if isDirect(in) {
				return true
			}
			// a helper of the package whose every path makes the step
			if ci, ok := in.(ssa.CallInstruction); ok {
				if _, callee := calleeOf(ci); callee != nil && inModule(callee) && callee.Pkg == ds.Pkg && len(callee.Blocks) > 0 {
					skips, _ := pathQuery{fn: callee, target: isReturn, stop: isDirect}.find()
					return !skips && reachesCall(callee, 0, func(c2 ssa.CallInstruction) bool { return isDirect(c2) })
				}
			}
			return false
		}
		for _, ci := range callInstrs(ds) {
			if isStep(ci) {
				n++
			}
		}
		found, trail := pathQuery{fn: ds, target: isReturn, stop: isStep}.find()
		c.Cond(n > 0 && !found, rule, "container.Destroy:always-"+step, p.Pos(ds.Pos()), "every return of Destroy has passed process."+step,
			"Destroy can return without process."+step+" ("+p.trail(trail)+"): the container init stays alive or is left a zombie of the host")
	}
}
