package main

// C08, the command's own final classification: cmd/runprog re-derives the verdict from the measured usage. A run
// that ended Normal with more CPU time (memory) than the limit must reach the store of the time (memory) verdict.

import (
	"fmt"
	"strings"

	"golang.org/x/tools/go/ssa"
)

func checkRunprogFinalVerdict(c *Check, rule string) {
	p := c.P
	// the function of the command that stores limit verdicts depending on a usage comparison: start(), or a helper
	// the re-classification was moved into
	var start *ssa.Function
	for _, fn := range p.PkgFuncs("cmd/runprog") {
		n := 0
		for _, b := range fn.Blocks {
			for _, in := range b.Instrs {
				if st, ok := in.(*ssa.Store); ok {
					if fa, ok := st.Addr.(*ssa.FieldAddr); ok && fieldName(fa.X.Type(), fa.Field) == "Status" {
						if _, isC := constInt(st.Val); isC {
							n++
						}
					}
				}
			}
		}
		if n >= 2 && (start == nil || fn.Name() == "start") {
			start = fn
		}
	}
	if start == nil {
		c.Undecided(rule, "cmd/runprog:final-verdict", "-", "no function of the command stores limit verdicts")
		return
	}
	status := func(n string) int64 { return p.MustConst(repoModule+"/runner", n) }
	normal := status("StatusNormal")
	kinds := []struct {
		name, usage, limit string
		verdict            int64
	}{
		{"time", ".Time", "TimeLimit", status("StatusTimeLimitExceeded")},
		{"memory", ".Memory", "MemoryLimit", status("StatusMemoryLimitExceeded")},
	}
	cd := controlDeps(start)
	// the stores of a verdict constant into a Status field, with the comparison atom they depend on
	type vstore struct {
		st   *ssa.Store
		kind int
		cmp  string
	}
	var stores []vstore
	var statusAtomBase string
	for _, b := range start.Blocks {
		for _, in := range b.Instrs {
			st, ok := in.(*ssa.Store)
			if !ok {
				continue
			}
			fa, ok := st.Addr.(*ssa.FieldAddr)
			if !ok || fieldName(fa.X.Type(), fa.Field) != "Status" {
				continue
			}
			v, isC := constInt(st.Val)
			if !isC {
				continue
			}
			g := cd.guardOf(b)
			for ki, k := range kinds {
				if v != k.verdict {
					continue
				}
				for _, a := range Support(g) {
					if strings.Contains(a, k.usage) && strings.Contains(a, k.limit) {
						stores = append(stores, vstore{st, ki, a})
					}
				}
			}
			statusAtomBase = describe(fa) // &rt.Status
		}
	}
	if len(stores) == 0 {
		c.Undecided(rule, "cmd/runprog.start:final-verdict", p.Pos(start.Pos()), "no store of a limit verdict depending on a usage comparison was found")
		return
	}
	_ = statusAtomBase
	// the common dominator of these stores' sections: the nearest block that dominates all of them
	var anchor *ssa.BasicBlock
	for _, b := range start.Blocks {
		all := true
		for _, s := range stores {
			if !b.Dominates(s.st.Block()) || b == s.st.Block() {
				all = false
			}
		}
		if all && (anchor == nil || anchor.Dominates(b)) {
			anchor = b
		}
	}
	if anchor == nil {
		c.Undecided(rule, "cmd/runprog.start:final-verdict", p.Pos(start.Pos()), "the verdict stores have no common dominator")
		return
	}
	// go up to a block that is not itself conditional inside the section: the anchor's relative guard must be true
	for _, s := range stores {
		k := kinds[s.kind]
		g := cd.guardRel(s.st.Block(), anchor)
		// the atom "status == Normal" as it appears in the section
		var normAtom string
		for _, a := range Support(g) {
			if strings.HasSuffix(a, fmt.Sprintf(".Status == %d", normal)) {
				normAtom = a
			}
		}
		key := "cmd/runprog.start:" + k.name + "-verdict"
		if normAtom == "" {
			c.Fail(rule, key, p.Pos(s.st.Pos()), "the "+k.name+" verdict is not derived for runs that ended Normal")
			continue
		}
		// the comparison's polarity: the store is reached when usage exceeds the limit
		over := fLit(s.cmp)
		if okPos, _, _ := Valid(fImp(g, over)); !okPos {
			over = fNot(over)
		}
		// other kinds' comparisons are assumed "within the limit", other status atoms false
		assume := []*Form{fLit(normAtom), over}
		for _, a := range Support(g) {
			if a == normAtom || a == s.cmp {
				continue
			}
			switch {
			case strings.Contains(a, ".Status == "):
				assume = append(assume, fNot(fLit(a)))
			default:
				for ki, k2 := range kinds {
					if ki != s.kind && strings.Contains(a, k2.usage) && strings.Contains(a, k2.limit) {
						// "within the limit" = the polarity under which that kind's verdict store is NOT reached
						for _, s2 := range stores {
							if s2.kind == ki && s2.cmp == a {
								g2 := cd.guardRel(s2.st.Block(), anchor)
								if pos, _, _ := Valid(fImp(g2, fLit(a))); pos {
									assume = append(assume, fNot(fLit(a)))
								} else {
									assume = append(assume, fLit(a))
								}
							}
						}
					}
				}
			}
		}
		ok, cex, _ := Valid(fImp(fAnd(assume...), g))
		c.Cond(ok, rule, key, p.Pos(s.st.Pos()), "a Normal run over its "+k.name+" limit reaches the "+k.name+" verdict",
			"a run that ended Normal with its "+k.name+" usage over the limit (everything else within limits) does not reach the store of the "+k.name+" verdict: it is reached only under "+g.String()+"; counterexample "+cexString(cex))
	}
	c.Expect(rule, 2)
}
