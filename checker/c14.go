package main

// C14 — host file operations are index-aligned and safe against planted objects.

import (
	"fmt"
	"go/token"
	"strings"

	"golang.org/x/tools/go/ssa"
)

func init() {
	register("C14", "Decides on the batch handlers: (1) container Open — the error slice has one slot per request; on every path through one iteration exactly one of {a non-empty error is stored in slot i; the opened file is appended to the descriptor list AND to the keep-alive list} happens (guard formulas, truth table); the descriptor sent is the Fd of that same file; the regular-file pre-check is performed with Lstat (callee identity) on the same path that is then opened, and accepts only 'does not exist' or a regular file; Symlink/Delete fill one slot per item without early exit; (2) host Open — reply length check before the walk, the descriptor cursor advances exactly once per empty error string, close-on-exec before wrapping, the file is named after request i, and the deferred cleanup closes the unconsumed descriptors from the cursor on and the files already wrapped; (3) both receive loops decode every message into a freshly allocated value (gob leaves absent zero fields untouched, so a reused target would inherit the previous request's fields). Does not decide races between the Lstat and the open, nor symlinked intermediate components.", checkC14)
}

func checkC14(c *Check) {
	p := c.P
	// ---------- 1: container handleOpen ----------
	ho := p.Func("container", "containerServer.handleOpen")
	if ho == nil {
		c.Undecided("1/container-open", "container.handleOpen", "-", "function not found")
	} else {
		key := "container.handleOpen"
		// the function that holds the per-item loop: the handler itself, or a helper of the package it passes the
		// request list to (the loop split off the handler)
		hasOpen := func(f *ssa.Function) bool {
			for _, ci := range callInstrs(f) {
				if n, _ := calleeOf(ci); n == "os.OpenFile" {
					return true
				}
			}
			return false
		}
		if !hasOpen(ho) {
			for _, ci := range callInstrsDeep(ho, 2) {
				if callee := ci.Common().StaticCallee(); callee != nil && inModule(callee) && callee.Pkg == ho.Pkg && hasOpen(callee) {
					ho = callee
				}
			}
		}
		pos := p.Pos(ho.Pos())
		cd := controlDeps(ho)
		var req *ssa.Parameter
		for _, pr := range ho.Params {
			if strings.HasSuffix(pr.Type().String(), "container.OpenCmd") && strings.HasPrefix(pr.Type().String(), "[]") {
				req = pr
			}
		}
		if req == nil {
			c.Undecided("1/container-open", key+":request-list", pos, "cannot find the request-list parameter of the function that opens the files")
			return
		}
		// the three slices
		var errSlice *ssa.MakeSlice
		for _, b := range ho.Blocks {
			for _, in := range b.Instrs {
				if ms, ok := in.(*ssa.MakeSlice); ok && ms.Type().String() == "[]string" {
					errSlice = ms
				}
			}
		}
		okLen := errSlice != nil && describe(errSlice.Len) == "builtin:len("+req.Name()+")"
		c.Cond(okLen, "1/container-open", key+":one-slot-per-item", pos, "error slice has len(requests) slots", "the error slice is not make([]string, len(requests)): results lose their index alignment")
		// outcome blocks
		var errBlocks []*ssa.BasicBlock
		var fdApp, keepApp *ssa.Call
		var opened ssa.Value
		for _, b := range ho.Blocks {
			for _, in := range b.Instrs {
				switch x := in.(type) {
				case *ssa.Store:
					if ia, ok := x.Addr.(*ssa.IndexAddr); ok && errSlice != nil && ia.X == ssa.Value(errSlice) {
						errBlocks = append(errBlocks, b)
						idxOK := strings.Contains(describe(ia.Index), "rangeindex")
						c.Cond(idxOK && nonEmptyString(x.Val), "1/container-open", fmt.Sprintf("%s:error-slot@b%d", key, b.Index), p.Pos(x.Pos()), "a non-empty error is stored in the item's own slot",
							"error slot is indexed by "+describe(ia.Index)+" / may be empty: "+describe(x.Val))
					}
				case *ssa.Call:
					if bi, ok := x.Call.Value.(*ssa.Builtin); ok && bi.Name() == "append" && inLoop(b) {
						switch x.Type().String() {
						case "[]int":
							fdApp = x
						case "[]*os.File":
							keepApp = x
						}
					}
					if n, _ := calleeOf(x); n == "os.OpenFile" || n == "os.Open" || n == "os.Create" {
						if refs := x.Referrers(); refs != nil {
							for _, r := range *refs {
								if ex, ok := r.(*ssa.Extract); ok && ex.Index == 0 {
									opened = ex
								}
							}
						}
					}
				}
			}
		}
		if fdApp == nil || keepApp == nil {
			c.Fail("1/container-open", key+":success-records", pos, fmt.Sprintf("a successfully opened file must be appended to the descriptor list and to the keep-alive list (descriptor list: %v, keep-alive list: %v): without the keep-alive reference the file can be finalised (closed) before the reply is sent and its number reused", fdApp != nil, keepApp != nil))
		} else {
			gs := []*Form{cd.guardOf(fdApp.Block())}
			ok, _, _ := Valid(fIff(cd.guardOf(fdApp.Block()), cd.guardOf(keepApp.Block())))
			c.Cond(ok, "1/container-open", key+":success-records", pos, "descriptor list and keep-alive list are extended together", "descriptor list and keep-alive list are not extended under the same condition")
			for _, b := range errBlocks {
				gs = append(gs, cd.guardOf(b))
			}
			// per iteration exactly one outcome
			var loopAtoms []*Form
			for _, a := range Support(gs...) {
				if !strings.Contains(a, "rangeindex") {
					continue
				}
				all := true
				for _, g := range gs {
					if ok, _, _ := Valid(fImp(g, fLit(a))); !ok {
						all = false
					}
				}
				if all {
					loopAtoms = append(loopAtoms, fLit(a))
				}
			}
			// early exits of the whole handler (e.g. empty request) are outside the loop
			for _, a := range Support(gs...) {
				if strings.HasPrefix(a, "builtin:len("+req.Name()+") == 0") {
					loopAtoms = append(loopAtoms, fNot(fLit(a)))
				}
			}
			ok2, cex, n := Valid(fImp(fAnd(loopAtoms...), exactlyOne(gs)))
			c.Extra["assignments_enumerated"] = n
			c.Cond(ok2 && len(errBlocks) >= 2, "1/container-open", key+":one-outcome-per-item", pos, "every item yields exactly one of: error in its slot / one descriptor",
				"an item can yield both an error and a descriptor, or neither (results and descriptors go out of step); e.g. "+cexString(cex))
			// the fd appended is the Fd of the file kept alive, which is the file just opened
			fdEl, _ := firstElem(fdApp.Call.Args[1])
			keepEl, _ := firstElem(keepApp.Call.Args[1])
			okSame := false
			if fdEl != nil && keepEl != nil {
				if call, ok := stripConv(fdEl).(*ssa.Call); ok {
					if nm, _ := calleeOf(call); strings.HasSuffix(nm, "os.File).Fd") && call.Call.Args[0] == keepEl && keepEl == opened {
						okSame = true
					}
				}
			}
			c.Cond(okSame, "1/container-open", key+":same-file", p.Pos(fdApp.Pos()), "the descriptor sent is the one of the file just opened and kept alive", "the descriptor sent does not belong to the file that was opened for this item")
		}
		// pre-check on the same path, before the open
		var chk, open ssa.CallInstruction
		var chkFn *ssa.Function
		for _, ci := range callInstrs(ho) {
			n, callee := calleeOf(ci)
			if n == "os.OpenFile" {
				open = ci
			}
			if callee != nil && inModule(callee) && reachesCall(callee, 1, func(c2 ssa.CallInstruction) bool {
				n2, _ := calleeOf(c2)
				return n2 == "os.Lstat" || n2 == "os.Stat"
			}) {
				chk = ci
				chkFn = callee
			}
		}
		if chk == nil || open == nil {
			c.Fail("1/container-open", key+":pre-check", pos, "the target is not inspected before it is opened")
		} else {
			same := describe(chk.Common().Args[0]) == describe(open.Common().Args[0])
			honoured := false
			if cv, ok := chk.(ssa.Value); ok {
				at := describe(cv) + " == nil"
				honoured, _, _ = Valid(fImp(cd.guardOf(open.Block()), fLit(at)))
			}
			c.Cond(dominatesInstr(chk, open) && same && honoured, "1/container-open", key+":pre-check", p.Pos(chk.Pos()), "the same path is inspected (and refused on error) before it is opened", "the pre-check does not dominate the open of the same path, or its verdict is ignored")
			flags := describe(open.Common().Args[1])
			c.Cond(strings.HasSuffix(flags, ".Flag") && strings.HasSuffix(describe(open.Common().Args[2]), ".Perm"), "1/container-open", key+":requested-mode", p.Pos(open.Pos()), "opened with the item's own flags and permissions", "opened with "+flags+", "+describe(open.Common().Args[2]))
			checkOpenTarget(c, chkFn)
		}
		// files are created with the mode the request names: the init's umask is cleared once and never set to
		// anything else (it is process-wide: a non-zero value set for a helper stays in force for every later Open)
		nUm, badUm, umPos := 0, "", ""
		for _, fn := range p.PkgFuncs("container") {
			for _, f := range withClosures(fn) {
				for _, ci := range callInstrs(f) {
					if n, _ := calleeOf(ci); n == "syscall.Umask" || n == "golang.org/x/sys/unix.Umask" {
						nUm++
						if v, isC := constInt(ci.Common().Args[0]); (!isC || v != 0) && badUm == "" {
							badUm, umPos = describe(ci.Common().Args[0])+" in "+shortName(f), p.Pos(ci.Pos())
						}
					}
				}
			}
		}
		if umPos == "" {
			umPos = pos
		}
		c.Cond(nUm >= 1 && badUm == "", "1/container-open", "container:umask", umPos, "the init's umask is 0 and nothing changes it", "the container init sets its umask to "+badUm+" (or never clears it): Open then creates files and directories with fewer permission bits than the request names")
		c.Expect("1/container-open", 10)
	}
	// Symlink / Delete
	for _, nm := range []string{"handleSymlink"} {
		fn := p.Func("container", "containerServer."+nm)
		if fn == nil {
			continue
		}
		key := "container." + nm
		var errSlice *ssa.MakeSlice
		for _, b := range fn.Blocks {
			for _, in := range b.Instrs {
				if ms, ok := in.(*ssa.MakeSlice); ok && ms.Type().String() == "[]string" {
					errSlice = ms
				}
			}
		}
		ok := errSlice != nil && describe(errSlice.Len) == "builtin:len("+fn.Params[1].Name()+")"
		var op ssa.CallInstruction
		for _, ci := range callInstrs(fn) {
			if n, _ := calleeOf(ci); n == "os.Symlink" {
				op = ci
			}
		}
		ok = ok && op != nil && inLoop(op.Block()) && len(extraCondsEE(controlDeps(fn), op.Block())) == 0
		// no return inside the loop
		for _, b := range fn.Blocks {
			if isExitBlock(b) && inLoop(b) {
				ok = false
			}
		}
		c.Cond(ok, "1/container-open", key+":one-slot-per-item", p.Pos(fn.Pos()), "one slot per item, every item attempted", "a failing item ends the batch early or the result slice is not index-aligned")
	}

	// ---------- 2: host side ----------
	checkHostOpen(c)

	// ---------- 3: fresh decode target per message ----------
	checkFreshDecode(c, "3/fresh-decode-target")

	// ---------- 4: every file operation gets exactly one answer, its own ----------
	// (the product exploration of C10, restricted to Open / Symlink / Delete / Reset: a handler that answers twice
	// or not at all shifts every later result onto the wrong call)
	importObs(c, "C10", "C10.2/product", "4/one-answer-per-call", func(o Obligation) bool {
		for _, op := range []string{"@Open", "@Symlink", "@Delete", "@Reset"} {
			if strings.HasSuffix(o.Key, op) {
				return true
			}
		}
		return o.Status == "ok"
	})
	c.Expect("4/one-answer-per-call", 5)

	// ---------- 5: a full-size batch fits the control buffer ----------
	importObs(c, "C19", "C19.9/control-buffer-size", "5/batch-fits", nil)
	// an error of one item is reported in a reply the encoder can always produce (no unregistered interface value,
	// no untransmitted field): C19.10
	importObs(c, "C19", "C19.10/wire-types", "6/replies-encodable", nil)
	c.Expect("5/batch-fits", 1)
}

func firstElem(v ssa.Value) (ssa.Value, bool) {
	if sl, ok := v.(*ssa.Slice); ok {
		if a, ok := sl.X.(*ssa.Alloc); ok {
			if els, ok := arrayLitElems(a); ok && len(els) == 1 {
				return els[0], true
			}
		}
	}
	return nil, false
}

// checkOpenTarget: Lstat, nil only if not-exist or regular.
func checkOpenTarget(c *Check, fn *ssa.Function) {
	p := c.P
	key := "container." + fn.Name()
	var st ssa.CallInstruction
	for _, ci := range callInstrs(fn) {
		n, _ := calleeOf(ci)
		if n == "os.Lstat" || n == "os.Stat" {
			st = ci
		}
	}
	n, _ := calleeOf(st)
	samePath := stripConv(st.Common().Args[0]) == ssa.Value(fn.Params[0])
	c.Cond(n == "os.Lstat" && samePath, "1/container-open", key+":lstat", p.Pos(st.Pos()), "the final component is inspected without following it (Lstat)", "the target is inspected with "+n+": a symlink planted by a program is followed to whatever it points at")
	// nil returns only under IsNotExist / IsRegular
	cd := controlDeps(fn)
	for _, b := range fn.Blocks {
		ret, ok := b.Instrs[len(b.Instrs)-1].(*ssa.Return)
		if !ok || !isNilConst(retVal(ret, 0)) {
			continue
		}
		g := cd.guardOf(b)
		var alts []*Form
		for _, a := range Support(g) {
			if strings.Contains(a, "ErrNotExist") || strings.Contains(a, "IsNotExist") || strings.Contains(a, "IsRegular(") {
				alts = append(alts, fLit(a))
			}
		}
		ok2, _, _ := Valid(fImp(g, fOr(alts...)))
		c.Cond(ok2 && len(alts) > 0, "1/container-open", fmt.Sprintf("%s:accept@b%d", key, b.Index), p.Pos(ret.Pos()), "accepted only if the target does not exist or is a regular file", "the pre-check accepts a target under "+g.String())
	}
}

func checkHostOpen(c *Check) {
	p := c.P
	op := p.Func("container", "container.Open")
	if op == nil {
		c.Undecided("2/host-open", "container.Open", "-", "function not found")
		return
	}
	key := "container.(host)Open"
	pos := p.Pos(op.Pos())
	cd := controlDeps(op)
	req := op.Params[1]
	// length check: If comparing len(reply.BatchErrors) with len(p), error edge returns, dominates the loop
	var lenIf *ssa.If
	for _, b := range op.Blocks {
		if iff := blockIf(b); iff != nil {
			d := describe(iff.Cond)
			if strings.Contains(d, "BatchErrors)") && strings.Contains(d, "builtin:len("+req.Name()+")") {
				lenIf = iff
			}
		}
	}
	// the walk: NewFile call in a loop
	var newFile, mark ssa.CallInstruction
	for _, ci := range callInstrs(op) {
		n, _ := calleeOf(ci)
		if n == "os.NewFile" {
			newFile = ci
		}
		if n == "syscall.CloseOnExec" {
			mark = ci
		}
	}
	if newFile == nil {
		c.Fail("2/host-open", key+":walk", pos, "received descriptors are never wrapped into files")
		return
	}
	c.Cond(lenIf != nil && lenIf.Block().Dominates(newFile.Block()) && func() bool {
		_, _, ne, ok := eqEdges(lenIf)
		return ok && leadsToReturn(lenIf.Block().Succs[ne], 3)
	}(), "2/host-open", key+":length-check", pos, "reply length is checked against the request before the walk", "the reply's length is not checked against the request before results are paired")
	// file named after request i
	nameArg := describe(newFile.Common().Args[1])
	c.Cond(strings.HasPrefix(nameArg, req.Name()+"[") && strings.Contains(nameArg, "rangeindex") && strings.HasSuffix(nameArg, ".Path"), "2/host-open", key+":named-after-item", p.Pos(newFile.Pos()), "result i is named after request i", "the wrapped file is named "+nameArg)
	// fd = msg.Fds[cursor]; cursor = φ advanced by exactly one in the same block; block guarded by errStr == ""
	fdArg := stripConv(newFile.Common().Args[0])
	var cursor ssa.Value
	if u, ok := fdArg.(*ssa.UnOp); ok && u.Op == token.MUL {
		if ia, ok := u.X.(*ssa.IndexAddr); ok && strings.HasSuffix(describe(ia.X), ".Fds") {
			cursor = ia.Index
		}
	}
	okCursor := false
	if ph, ok := cursor.(*ssa.Phi); ok {
		nAdv, zero := 0, false
		for _, e := range ph.Edges {
			switch x := e.(type) {
			case *ssa.Const:
				if v, ok := constInt(x); ok && v == 0 {
					zero = true
				}
			case *ssa.BinOp:
				if one, ok := constInt(x.Y); ok && x.Op == token.ADD && x.X == ssa.Value(ph) && one == 1 {
					nAdv++
					if x.Block() != newFile.Block() {
						nAdv = -100
					}
				}
			}
		}
		okCursor = zero && nAdv == 1
	} else if ld, ok := cursor.(*ssa.UnOp); ok && ld.Op == token.MUL {
		// cursor kept in a variable shared with the cleanup closure
		if slot, ok := ld.X.(*ssa.Alloc); ok {
			nAdv, zero, other := 0, false, 0
			if refs := slot.Referrers(); refs != nil {
				for _, r := range *refs {
					st, ok := r.(*ssa.Store)
					if !ok || st.Addr != ssa.Value(slot) {
						continue
					}
					if v, ok := constInt(st.Val); ok && v == 0 && !inLoop(st.Block()) {
						zero = true
						continue
					}
					if bo, ok := st.Val.(*ssa.BinOp); ok && bo.Op == token.ADD {
						if one, ok := constInt(bo.Y); ok && one == 1 && describe(bo.X) == describe(ld) && st.Block() == newFile.Block() {
							nAdv++
							continue
						}
					}
					other++
				}
			}
			okCursor = zero && nAdv == 1 && other == 0
		}
	}
	// other form: the descriptors not yet taken are kept as a shrinking slice (`fd := pending[0]; pending = pending[1:]`)
	var pendingSlot *ssa.Alloc
	if u, ok := fdArg.(*ssa.UnOp); ok && u.Op == token.MUL && cursor == nil {
		if ia, ok := u.X.(*ssa.IndexAddr); ok {
			if idx, isC := constInt(ia.Index); isC && idx == 0 {
				if ld, ok := ia.X.(*ssa.UnOp); ok && ld.Op == token.MUL {
					if slot, ok := ld.X.(*ssa.Alloc); ok {
						pendingSlot = slot
					}
				}
			}
		}
	}
	if pendingSlot != nil {
		whole, nAdv, other := false, 0, 0
		if refs := pendingSlot.Referrers(); refs != nil {
			for _, r := range *refs {
				st, ok := r.(*ssa.Store)
				if !ok || st.Addr != ssa.Value(pendingSlot) {
					continue
				}
				if strings.HasSuffix(describe(st.Val), ".Fds") && !inLoop(st.Block()) {
					whole = true
					continue
				}
				if sl, ok := st.Val.(*ssa.Slice); ok && sl.High == nil && sl.Low != nil {
					if one, isC := constInt(sl.Low); isC && one == 1 && st.Block() == newFile.Block() {
						if ld, ok := sl.X.(*ssa.UnOp); ok && ld.X == ssa.Value(pendingSlot) {
							nAdv++
							continue
						}
					}
				}
				other++
			}
		}
		okCursor = whole && nAdv == 1 && other == 0
	}
	// the walk's success block is taken exactly for empty error strings
	if okCursor {
		g := cd.guardOf(newFile.Block())
		okCursor = false
		for _, a := range Support(g) {
			if strings.HasSuffix(a, `== ""`) {
				if ok, _, _ := Valid(fImp(g, fLit(a))); ok {
					okCursor = true
				}
			}
		}
	}
	c.Cond(okCursor, "2/host-open", key+":cursor", p.Pos(newFile.Pos()), "the descriptor cursor starts at 0 and advances exactly once per successful item", "the descriptor cursor does not start at 0 / advance exactly once per item without error: descriptors are paired with the wrong items")
	// the element taken from the received descriptors is behind a bound test of THAT index: an If comparing the
	// cursor (the very value used as the index, or a load of the same variable) with len(Fds) whose in-range edge
	// dominates the access
	okBound := false
	if cursor != nil {
		for _, b := range op.Blocks {
			iff := blockIf(b)
			if iff == nil {
				continue
			}
			bo, ok := iff.Cond.(*ssa.BinOp)
			if !ok {
				continue
			}
			sameIdx := func(v ssa.Value) bool {
				v = stripConv(v)
				return v == cursor || describe(v) == describe(cursor)
			}
			isLenFds := func(v ssa.Value) bool {
				d := describe(stripConv(v))
				return strings.HasPrefix(d, "builtin:len(") && strings.HasSuffix(d, ".Fds)")
			}
			inRange := -1
			switch {
			case sameIdx(bo.X) && isLenFds(bo.Y):
				switch bo.Op {
				case token.GEQ:
					inRange = 1
				case token.LSS:
					inRange = 0
				}
			case isLenFds(bo.X) && sameIdx(bo.Y):
				switch bo.Op {
				case token.LEQ:
					inRange = 1
				case token.GTR:
					inRange = 0
				}
			}
			if inRange >= 0 {
				if sb := b.Succs[inRange]; sb == newFile.Block() || sb.Dominates(newFile.Block()) {
					okBound = true
				}
			}
		}
	}
	if pendingSlot != nil {
		// `len(pending) == 0` is tested and the non-empty side dominates the access
		for _, b := range op.Blocks {
			iff := blockIf(b)
			if iff == nil {
				continue
			}
			bo, ok := iff.Cond.(*ssa.BinOp)
			if !ok {
				continue
			}
			arg, isLen := isLenOf(bo.X)
			zero, isC := constInt(bo.Y)
			if !isLen || !isC || zero != 0 {
				continue
			}
			if ld, ok := arg.(*ssa.UnOp); !ok || ld.X != ssa.Value(pendingSlot) {
				continue
			}
			nonEmpty := -1
			switch bo.Op {
			case token.EQL, token.LEQ:
				nonEmpty = 1
			case token.NEQ, token.GTR:
				nonEmpty = 0
			}
			if nonEmpty >= 0 {
				if sb := b.Succs[nonEmpty]; sb == newFile.Block() || sb.Dominates(newFile.Block()) {
					okBound = true
				}
			}
		}
	}
	c.Cond(okBound, "2/host-open", key+":cursor-bound", p.Pos(newFile.Pos()), "the cursor is tested against the number of received descriptors before it is used",
		"the received descriptors are indexed by a cursor that is not itself tested against their number (a different variable is tested): a batch in which a failure precedes a success is rejected as a mismatch, or a short reply panics the host")
	okMark := mark != nil && dominatesInstr(mark, newFile) && stripConv(mark.Common().Args[0]) == fdArg
	c.Cond(okMark, "2/host-open", key+":cloexec", p.Pos(newFile.Pos()), "close-on-exec is set on the descriptor before it is wrapped", "the received descriptor is wrapped without close-on-exec")
	// deferred cleanup: closes msg.Fds[cursor:] and result files when err != nil
	okCleanup := false
	for _, b := range op.Blocks {
		for _, in := range b.Instrs {
			if df, ok := in.(*ssa.Defer); ok {
				if mc, ok := df.Call.Value.(*ssa.MakeClosure); ok {
					cl := mc.Fn.(*ssa.Function)
					closesTail, closesFiles := false, false
					for _, ci := range callInstrs(cl) {
						n, callee := calleeOf(ci)
						if callee != nil && inModule(callee) && len(ci.Common().Args) == 1 {
							if sl, ok := ci.Common().Args[0].(*ssa.Slice); ok && sl.Low != nil && sl.High == nil && strings.HasSuffix(describe(sl.X), ".Fds") && strings.Contains(describe(sl.Low), "fdIndex") || ok && sl.Low != nil && sl.High == nil && strings.HasSuffix(describe(sl.X), ".Fds") {
								closesTail = reachesCall(callee, 1, nameIs("syscall.Close"))
							}
							// the shrinking-slice form: the closure closes what is left of it
							if ld, ok := ci.Common().Args[0].(*ssa.UnOp); ok && pendingSlot != nil {
								if fv, ok := ld.X.(*ssa.FreeVar); ok && closureSiteOf(fv) == ssa.Value(pendingSlot) {
									closesTail = reachesCall(callee, 1, nameIs("syscall.Close"))
								}
							}
						}
						if strings.HasSuffix(n, "os.File).Close") {
							closesFiles = true
						}
					}
					if closesTail && closesFiles && df.Block().Dominates(newFile.Block()) {
						okCleanup = true
					}
				}
			}
		}
	}
	c.Cond(okCleanup, "2/host-open", key+":cleanup", pos, "on error the unconsumed descriptors (from the cursor on) and the files already wrapped are closed", "on an error return the received descriptors are not all released (tail from the cursor + files already wrapped)")
	// the cleanup is registered before anything can go wrong with a reply that carries descriptors: every return of
	// the part that handles a non-error reply (the part dominated by "reply.Error == nil") comes after the defer
	var cleanupDefer *ssa.Defer
	for _, b := range op.Blocks {
		for _, in := range b.Instrs {
			if df, ok := in.(*ssa.Defer); ok {
				if mc, ok := df.Call.Value.(*ssa.MakeClosure); ok {
					if cl, ok := mc.Fn.(*ssa.Function); ok && reachesCall(cl, 2, nameIs("syscall.Close")) {
						cleanupDefer = df
					}
				}
			}
		}
	}
	var region *ssa.BasicBlock
	for _, b := range op.Blocks {
		if iff := blockIf(b); iff != nil {
			if bo, eq, _, ok := eqEdges(iff); ok && isNilConst(bo.Y) && strings.HasSuffix(describe(bo.X), ".Error") && len(b.Succs[eq].Preds) == 1 {
				region = b.Succs[eq]
			}
		}
	}
	if cleanupDefer == nil || region == nil {
		c.Undecided("2/host-open", key+":cleanup-covers-every-exit", pos, "the cleanup defer or the error-reply test was not found")
	} else {
		bad := ""
		for _, b := range op.Blocks {
			ret, ok := b.Instrs[len(b.Instrs)-1].(*ssa.Return)
			if !ok || !region.Dominates(b) {
				continue
			}
			if !dominatesInstr(cleanupDefer, ret) && bad == "" {
				bad = p.Pos(ret.Pos())
			}
		}
		c.Cond(bad == "", "2/host-open", key+":cleanup-covers-every-exit", p.Pos(cleanupDefer.Pos()), "every exit after a non-error reply runs the cleanup",
			"the return at "+bad+" leaves Open after a reply that may carry descriptors but before the cleanup is registered: the descriptors received with a rejected reply stay open in the host")
	}
	// Symlink: length check and 1:1 mapping
	if sy := p.Func("container", "container.Symlink"); sy != nil {
		ok := false
		for _, b := range sy.Blocks {
			if iff := blockIf(b); iff != nil {
				d := describe(iff.Cond)
				if strings.Contains(d, "BatchErrors)") && strings.Contains(d, "builtin:len("+sy.Params[1].Name()+")") {
					if _, _, ne, isEq := eqEdges(iff); isEq && leadsToReturn(b.Succs[ne], 3) {
						ok = true
					}
				}
			}
		}
		c.Cond(ok, "2/host-open", "container.(host)Symlink:length-check", p.Pos(sy.Pos()), "reply length is checked against the request", "the reply's length is not checked against the request")
	}
	c.Expect("2/host-open", 8)
}

// checkFreshDecode: both receive loops decode every message into a value
// allocated inside the loop. gob leaves fields that are absent from the wire
// (zero values are not transmitted) untouched, so a decode target that lives
// across iterations makes a request inherit the previous request's fields
// (seccomp filter, rlimits, environment, descriptor flags, open flags ...).
// Shared by every property whose guarantee is about "the parameters of THIS
// request" (C01, C07, C08, C10, C14, C19).
func checkFreshDecode(c *Check, rule string) {
	p := c.P
	for _, fk := range [][2]string{{"container", "containerServer.recvLoop"}, {"container", "container.recvLoop"}} {
		fn := p.Func(fk[0], fk[1])
		if fn == nil {
			c.Undecided(rule, fk[0]+"."+fk[1], "-", "function not found")
			continue
		}
		// the receive call: in the loop itself, or in a helper of the package the loop calls once per round (a value
		// allocated inside that helper is made anew by every call)
		var recv ssa.CallInstruction
		viaHelper := false
		var find func(f *ssa.Function, depth int, loopOK bool)
		find = func(f *ssa.Function, depth int, loopOK bool) {
			for _, ci := range callInstrs(f) {
				n, callee := calleeOf(ci)
				if strings.HasSuffix(n, "container.socket).RecvMsg") {
					if recv == nil {
						recv, viaHelper = ci, depth > 0
					}
					continue
				}
				if depth < 2 && callee != nil && callee.Pkg == fn.Pkg && len(callee.Blocks) > 0 && callee != f {
					// only helpers called from inside the loop run once per message
					if depth == 0 && !inLoop(ci.Block()) {
						continue
					}
					find(callee, depth+1, true)
				}
			}
		}
		find(fn, 0, false)
		key := fk[0] + "." + strings.ReplaceAll(fk[1], ".", "·")
		if recv == nil {
			c.Fail(rule, key, p.Pos(fn.Pos()), "receive loop does not call the socket's RecvMsg")
			continue
		}
		tgt := recv.Common().Args[1]
		if mi, ok := tgt.(*ssa.MakeInterface); ok {
			tgt = mi.X
		}
		a, isAlloc := tgt.(*ssa.Alloc)
		fresh := isAlloc && ((viaHelper && a.Parent() == recv.Parent()) || (!viaHelper && inLoop(a.Block()) && inLoop(recv.Block())))
		c.Cond(fresh, rule, key, p.Pos(recv.Pos()), "every message is decoded into a freshly allocated value",
			"messages are decoded into a value that lives across iterations: gob leaves fields absent from the wire untouched, so a request inherits fields (flags, mode, paths) of the previous one")
	}
	c.Expect(rule, 2)
}
