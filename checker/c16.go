package main

// C16 — if the controlling process dies, the sandbox dies with it.

import (
	"fmt"
	"go/token"
	"strings"

	"golang.org/x/tools/go/ssa"
)

func init() {
	register("C16", "Decides that the three death-propagation mechanisms exist, are unconditional and cover the container's blocking states: (1) the container init is started with Pdeathsig = SIGKILL and, by default, in a new pid namespace (clone flags = UnshareFlags ⊇ CLONE_NEWPID unless the caller chose flags); (2) the init registers, before serving, a deferred function all of whose paths end in os.Exit; both socket loops route every transport error to the function that closes 'done' exactly once; every blocking channel operation of the serving goroutine is a select with the done arm, or one of the kill/reap handshakes, whose bare result receives are dominated by kill(-1, SIGKILL) in the same function; (3) PTRACE_O_EXITKILL is among the options set at the first stop of every tracee (and the fork/vfork/clone auto-attach options, so descendants inherit it); (4) a launching child treats a closed sync channel (zero-length read) as fatal, so it cannot continue unsupervised when its parent died. Does not decide 'within bounded time', nor enumerate crash instants; caller-chosen clone flags without CLONE_NEWPID void mechanism 2's reach (recorded as an assumption).", checkC16)
}

func checkC16(c *Check) {
	p := c.P
	// ---------- 1: parent-death signal and pid namespace ----------
	sc := p.Func("container", "Builder.startContainer")
	if sc == nil {
		c.Undecided("1/pdeathsig", "container.startContainer", "-", "function not found")
	} else {
		key := "container.startContainer"
		fields := map[string]ssa.Value{}
		for _, b := range sc.Blocks {
			for _, in := range b.Instrs {
				if st, ok := in.(*ssa.Store); ok {
					if fa, ok := st.Addr.(*ssa.FieldAddr); ok && strings.HasSuffix(derefType(fa.X.Type()).String(), "syscall.SysProcAttr") {
						fields[fieldName(fa.X.Type(), fa.Field)] = st.Val
					}
				}
			}
		}
		pd, okc := constInt(fields["Pdeathsig"])
		c.Cond(fields["Pdeathsig"] != nil && okc && pd == p.Sys("SIGKILL"), "1/pdeathsig", key+":Pdeathsig", p.Pos(sc.Pos()), "container init gets SIGKILL when its parent dies",
			"the container init's parent-death signal is "+describeOrNil(fields["Pdeathsig"])+", not SIGKILL (the init ignores the catchable signals)")
		// clone flags
		okFlags := false
		uf, _ := p.ConstInt(repoModule+"/pkg/forkexec", "UnshareFlags")
		if ph, ok := fields["Cloneflags"].(*ssa.Phi); ok {
			def, masked := false, false
			for i, e := range ph.Edges {
				if v, ok := constInt(e); ok && v == uf && v&p.Sys("CLONE_NEWPID") != 0 {
					cdi := controlDeps(sc)
					pred := ph.Block().Preds[i]
					g := cdi.guardOf(pred)
					if pif := blockIf(pred); pif != nil && pred.Succs[0] != pred.Succs[1] {
						// the edge itself is a branch of the test (`x := default; if set { x = ... }`)
						g = fAnd(g, cdi.condForm(pif.Cond, pred.Succs[0] == ph.Block(), map[*ssa.BasicBlock]*Form{}, map[*ssa.BasicBlock]bool{}, 0))
					}
					if ok, _, _ := Valid(fImp(g, fLit(firstAtomWith(g, ".CloneFlags == 0")))); ok && firstAtomWith(g, ".CloneFlags == 0") != "?" {
						def = true
					}
				}
				if bo, ok := e.(*ssa.BinOp); ok && bo.Op == token.AND {
					masked = true
				}
			}
			okFlags = def && masked
		}
		c.Cond(okFlags, "1/pdeathsig", key+":Cloneflags", p.Pos(sc.Pos()), "default clone flags are UnshareFlags (⊇ CLONE_NEWPID): the init is pid 1 of its own pid namespace, whose death kills every process in it",
			"the container's default clone flags are not forkexec.UnshareFlags with CLONE_NEWPID: "+describeOrNil(fields["Cloneflags"]))
		c.Expect("1/pdeathsig", 2)
	}

	// ---------- 2: socket EOF ends the init ----------
	init := p.Func("container", "Init")
	if init == nil {
		c.Undecided("2/eof-exits", "container.Init", "-", "function not found")
	} else {
		var df *ssa.Defer
		var serve ssa.CallInstruction
		for _, b := range init.Blocks {
			for _, in := range b.Instrs {
				if d, ok := in.(*ssa.Defer); ok {
					df = d
				}
			}
		}
		for _, ci := range callInstrs(init) {
			if _, callee := calleeOf(ci); callee != nil && inModule(callee) && reachesCall(callee, 1, func(c2 ssa.CallInstruction) bool {
				_, c3 := calleeOf(c2)
				return c3 != nil && c3.Name() == "handleCmd"
			}) {
				serve = ci
			}
		}
		ok := false
		if df != nil && serve != nil {
			if cl := spawnedFn(&df.Call); cl != nil && inModule(cl) && len(cl.Blocks) > 0 {
				// every path of the closure ends in os.Exit: no Return reachable without passing os.Exit
				found, _ := pathQuery{fn: cl, target: isReturn, stop: func(in ssa.Instruction) bool {
					ci, isC := in.(ssa.CallInstruction)
					if !isC {
						return false
					}
					n, _ := calleeOf(ci)
					return n == "os.Exit"
				}}.find()
				ok = !found && dominatesInstr(df, serve) && len(extraCondsEE(controlDeps(init), df.Block())) <= 1
			}
		}
		c.Cond(ok, "2/eof-exits", "container.Init:exit-on-return", p.Pos(init.Pos()), "before serving, a deferred function is registered whose every path ends in os.Exit", "the init can return from serving without exiting (or the exit is registered too late): the container would outlive its controller")
	}
	// loops route errors to socketError
	for _, fk := range [][3]string{{"container", "containerServer.recvLoop", "RecvMsg"}, {"container", "containerServer.sendLoop", "SendMsg"}, {"container", "container.recvLoop", "RecvMsg"}, {"container", "container.sendLoop", "SendMsg"}} {
		fn := p.Func(fk[0], fk[1])
		if fn == nil {
			c.Undecided("2/eof-exits", "container."+fk[1], "-", "function not found")
			continue
		}
		// whenever the socket operation fails, 'done' has been closed by the time the loop function returns (decided
		// path by path with the operation's error assumed non-nil, whatever the loop's form). The operation may sit
		// in a per-round helper of the package: the helper then closes 'done' itself on every failing return, or
		// hands the error back, and the call of the helper is judged in its place.
		var judge func(f *ssa.Function, isIO func(ci ssa.CallInstruction) bool, depth int) bool
		judge = func(f *ssa.Function, isIO func(ci ssa.CallInstruction) bool, depth int) bool {
			var io ssa.CallInstruction
			for _, ci := range callInstrs(f) {
				if isIO(ci) {
					io = ci
				}
			}
			if io == nil {
				if depth >= 2 {
					return false
				}
				for _, ci := range callInstrs(f) {
					_, callee := calleeOf(ci)
					if callee == nil || callee.Pkg != f.Pkg || len(callee.Blocks) == 0 || callee == f {
						continue
					}
					has := false
					for _, c2 := range callInstrsDeep(callee, 1) {
						if isIO(c2) {
							has = true
						}
					}
					if !has {
						continue
					}
					// the helper settles it on its own ...
					if judge(callee, isIO, depth+1) {
						return true
					}
					// ... or reports the failure to its caller, which must settle it
					if hands, _ := handsErrorBack(p, callee, isIO); hands {
						return judge(f, func(c3 ssa.CallInstruction) bool { return c3 == ci }, depth+1)
					}
					return false
				}
				return false
			}
			var errV ssa.Value
			if v, isV := io.(ssa.Value); isV {
				errV = v
				if refs := v.Referrers(); refs != nil {
					for _, r := range *refs {
						if ex, isE := r.(*ssa.Extract); isE && ex.Type().String() == "error" {
							errV = ex
						}
					}
				}
			}
			failedRets, bad := 0, 0
			w := &walker{fn: f, Inline: -1, MaxVisits: 3}
			w.Seed = func(w *walker, st *wstate, v ssa.Value) *absVal {
				if v == errV {
					return &absVal{k: avPtr, key: "X:err"}
				}
				return nil
			}
			w.OnInstr = func(w *walker, st *wstate, in ssa.Instruction) {
				if ci, isC := in.(ssa.CallInstruction); isC {
					if _, callee := calleeOf(ci); callee != nil && closesDoneOnce(callee) {
						if _, failed := st.vals[errV]; failed {
							st.note("done-closed")
						}
					}
				}
			}
			w.OnReturn = func(w *walker, st *wstate, ret *ssa.Return, rs []*absVal) {
				if _, failed := st.vals[errV]; !failed {
					return
				}
				failedRets++
				if !st.noted("done-closed") {
					bad++
				}
			}
			w.Run()
			return errV != nil && failedRets > 0 && bad == 0 && !w.Truncated
		}
		ok := judge(fn, func(ci ssa.CallInstruction) bool {
			n, _ := calleeOf(ci)
			return strings.HasSuffix(n, "container.socket)."+fk[2])
		}, 0)
		c.Cond(ok, "2/eof-exits", "container."+strings.ReplaceAll(fk[1], ".", "·")+":error→done", p.Pos(fn.Pos()), "a transport error closes 'done'", "a transport error in this loop does not close 'done': blocked callers never notice the loss of the peer")
	}
	c.Expect("2/eof-exits", 5)
	checkServerBlocking(c)

	// ---------- 3: tracer death ----------
	var handle *ssa.Function
	for _, f := range p.PkgFuncs("ptracer") {
		sig := f.Signature
		if sig.Recv() != nil && sig.Results().Len() == 4 && sig.Params().Len() == 2 && strings.HasSuffix(sig.Params().At(1).Type().String(), "WaitStatus") {
			handle = f
		}
	}
	if handle != nil {
		before := len(c.Obs)
		checkPtraceOptions(c, handle)
		// re-label the shared rule's obligations under this property's rule name
		for i := before; i < len(c.Obs); i++ {
			c.Obs[i].Rule = strings.Replace(c.Obs[i].Rule, "4/options-before-continue", "3/exitkill", 1)
		}
		delete(c.Expects, c.ID+".4/options-before-continue")
		c.Expect("3/exitkill", 4)
	}

	// ---------- 4: a child whose parent vanished does not continue ----------
	if x := newE1ctx(c); x != nil {
		writes := x.sel("write", nil)
		n := 0
		for _, rd := range x.sel("read", nil) {
			n++
			z, e2 := resultTests(rd, x.r)
			_ = writes
			c.Cond(z && e2, "4/closed-channel-fatal", "result-tests:"+rd.Site, x.pos(rd), "a zero-length read (parent gone) aborts the launch", fmt.Sprintf("a read on the sync channel does not treat end-of-file as fatal (count tested: %v, errno tested: %v): a child whose parent died continues unsupervised", z, e2))
		}
		c.Expect("4/closed-channel-fatal", 3)
	}

	// ---------- 5: the launched child sees the controller's death as end-of-file ----------
	// the child closes its copy of the parent's end of the sync socket in every configuration, before its first
	// blocking read; otherwise the read never ends when the controller dies inside the callback
	if r, err := buildE1(p); err != nil {
		c.Undecided("5/child-sees-eof", "pkg/forkexec", "-", err.Error())
	} else {
		var closes, reads []*e1Event
		for _, e := range r.Events {
			switch e.Name {
			case "close":
				if isSyncChannelPeer(e.arg(0), r.Child) {
					closes = append(closes, e)
				}
			case "read":
				reads = append(reads, e)
			}
		}
		all := fFalse
		for _, e := range closes {
			all = fOr(all, e.Guard)
		}
		okAll, _, _ := Valid(all)
		pos := p.Pos(r.Child.Pos())
		if len(closes) > 0 {
			pos = p.Pos(closes[0].Call.Pos())
		}
		c.Cond(len(closes) > 0 && okAll, "5/child-sees-eof", "forkexec.child:closes-parent-end", pos, "the child closes the parent's end of the sync socket in every configuration",
			"the child closes the parent's end of the sync socket only under "+all.String()+": in the other configurations it holds that end open itself, never sees end-of-file and stays blocked (root, before seccomp and exec) when the controller dies")
		okBefore := len(closes) > 0
		for _, rd := range reads {
			before := false
			for _, cl := range closes {
				if evBeforeE1(cl, rd) {
					if v, _, _ := Valid(fImp(rd.Guard, cl.Guard)); v {
						before = true
					}
				}
			}
			if !before {
				okBefore = false
			}
		}
		c.Cond(okBefore, "5/child-sees-eof", "forkexec.child:close-before-reads", pos, "every blocking read of the child comes after that close", "a blocking read of the child is not preceded by the close of the parent's end")
	}
	c.Expect("5/child-sees-eof", 2)

	// ---------- 6: nothing about one trace outlives it ----------
	checkNoSharedState(c, "6/no-shared-state", func(path string) bool {
		return strings.HasSuffix(path, "/ptracer") || strings.HasSuffix(path, "/pkg/forkexec") || strings.HasSuffix(path, "/runner/ptrace")
	}, 3)

	// during synchronisation the child stays blocked until the callback returned: the acknowledge is written only
	// after it (C07.2), so a controller that dies inside the callback leaves a child that sees end-of-file
	importObs(c, "C07", "C07.2/parent-sync", "7/blocked-until-ack", func(o Obligation) bool {
		return strings.Contains(o.Key, "ack") || strings.Contains(o.Key, "channel-write")
	})
	c.Expect("7/blocked-until-ack", 3)
	// PTRACE_O_EXITKILL is only in force if the request that sets it is issued from the tracer's thread: the thread is
	// pinned before the tracee is started and nobody undoes the pin (C17.3)
	importObs(c, "C17", "C17.3/thread-affinity", "9/tracer-thread", nil)
	c.Expect("9/tracer-thread", 3)

	// every way out of the container's receive loop closes 'done' (end-of-file included): the init exits when the
	// controller's end of the socket goes away
	for _, fk := range []string{"containerServer.recvLoop"} {
		fn := p.Func("container", fk)
		if fn == nil {
			c.Undecided("8/init-exits", "container."+fk, "-", "function not found")
			continue
		}
		var recv ssa.CallInstruction
		for _, ci := range callInstrs(fn) {
			if n, _ := calleeOf(ci); strings.HasSuffix(n, "container.socket).RecvMsg") {
				recv = ci
			}
		}
		if recv == nil {
			c.Fail("8/init-exits", "container.recvLoop:recv", p.Pos(fn.Pos()), "receive call not found")
			continue
		}
		leaves, trail := pathQuery{fn: fn, from: recv, target: isReturn, stop: func(in ssa.Instruction) bool {
			ci, ok := in.(ssa.CallInstruction)
			if !ok {
				return false
			}
			_, callee := calleeOf(ci)
			return callee != nil && closesDoneOnce(callee)
		}}.find()
		c.Cond(!leaves, "8/init-exits", "container.recvLoop:every-exit-closes-done", p.Pos(recv.Pos()), "the receive loop ends only through the function that closes 'done'",
			"the container's receive loop can end without closing 'done' ("+p.trail(trail)+"): the serving goroutine keeps waiting and the init outlives its controller")
	}
	// the init keeps the credentials it was started with: the kernel clears the parent-death signal of a thread that
	// changes any of its uids/gids (setfsuid included)
	var credCalls []string
	for _, fn := range p.PkgFuncs("container") {
		for _, ci := range callInstrs(fn) {
			n, _ := calleeOf(ci)
			short := n[strings.LastIndex(n, ".")+1:]
			switch short {
			case "Setfsuid", "Setfsgid", "Setuid", "Setgid", "Setreuid", "Setregid", "Setresuid", "Setresgid", "Setgroups":
				if strings.HasPrefix(n, "syscall.") || strings.HasPrefix(n, "golang.org/x/sys/unix.") {
					credCalls = append(credCalls, short+"@"+p.Pos(ci.Pos()))
				}
			}
		}
	}
	c.Cond(len(credCalls) == 0, "8/init-exits", "container:no-credential-change-in-init", "container/", "the container init never changes its own credentials", "the container init changes its credentials ("+strings.Join(credCalls, ", ")+"): the kernel then clears the parent-death signal set for it, and it no longer dies with its controller")
	c.Expect("8/init-exits", 2)
}

// closesDoneOnce: the function closes a channel field inside a sync.Once.Do closure.
func closesDoneOnce(fn *ssa.Function) bool {
	for _, ci := range callInstrs(fn) {
		if n, _ := calleeOf(ci); n == "(sync.Once).Do" {
			if mc, ok := ci.Common().Args[len(ci.Common().Args)-1].(*ssa.MakeClosure); ok {
				cl := mc.Fn.(*ssa.Function)
				for _, c2 := range callInstrs(cl) {
					if n2, _ := calleeOf(c2); n2 == "builtin:close" && strings.HasSuffix(describe(c2.Common().Args[0]), ".done") {
						return true
					}
				}
			}
		}
	}
	return false
}

// chanOp describes one blocking channel operation.
type chanOp struct {
	fn    *ssa.Function
	instr ssa.Instruction
	kind  string // "send", "recv", "select"
	chans []string
}

func chanOpsOf(fn *ssa.Function) []chanOp {
	var out []chanOp
	for _, b := range fn.Blocks {
		for _, in := range b.Instrs {
			switch x := in.(type) {
			case *ssa.Send:
				out = append(out, chanOp{fn, in, "send", []string{describe(x.Chan)}})
			case *ssa.UnOp:
				if x.Op == token.ARROW {
					out = append(out, chanOp{fn, in, "recv", []string{describe(x.X)}})
				}
			case *ssa.Select:
				var cs []string
				for _, s := range x.States {
					cs = append(cs, describe(s.Chan))
				}
				if x.Blocking {
					out = append(out, chanOp{fn, in, "select", cs})
				}
			}
		}
	}
	return out
}

func hasSuffixAny(ss []string, suf string) bool {
	for _, s := range ss {
		if strings.HasSuffix(s, suf) {
			return true
		}
	}
	return false
}

// checkServerBlocking: who-may-block over the serving goroutine of the container init.
func checkServerBlocking(c *Check) {
	p := c.P
	root := p.Func("container", "containerServer.serve")
	if root == nil {
		c.Undecided("2/who-may-block", "container.serve", "-", "function not found")
		return
	}
	// functions reachable from serve within the package (static calls + closures)
	seen := map[*ssa.Function]bool{}
	var order []*ssa.Function
	var visit func(f *ssa.Function)
	visit = func(f *ssa.Function) {
		if f == nil || seen[f] || f.Blocks == nil || f.Pkg == nil || f.Pkg.Pkg.Path() != repoModule+"/container" {
			return
		}
		seen[f] = true
		order = append(order, f)
		for _, a := range f.AnonFuncs {
			visit(a)
		}
		for _, ci := range callInstrs(f) {
			if _, isGo := ci.(*ssa.Go); isGo {
				continue
			}
			_, callee := calleeOf(ci)
			visit(callee)
		}
	}
	visit(root)
	sigkill := p.Sys("SIGKILL")
	n := 0
	for _, f := range order {
		var kills []ssa.CallInstruction
		for _, ci := range callInstrs(f) {
			if nm, _ := calleeOf(ci); nm == "syscall.Kill" {
				a := ci.Common().Args
				if pid, ok := constInt(a[0]); ok && pid == -1 {
					if s, ok := constInt(a[1]); ok && s == sigkill {
						kills = append(kills, ci)
					}
				}
			}
		}
		for _, op := range chanOpsOf(f) {
			n++
			key := fmt.Sprintf("container.%s:%s(%s)", f.Name(), op.kind, strings.Join(shortChans(op.chans), ","))
			pos := p.Pos(op.instr.Pos())
			switch {
			case op.kind == "select" && hasSuffixAny(op.chans, ".done"):
				c.OK("2/who-may-block", key, pos, "select with the done arm")
			case op.kind == "send" && (hasSuffixAny(op.chans, ".waitPid") || hasSuffixAny(op.chans, ".waitAll")):
				c.OK("2/who-may-block", key, pos, "request to the dedicated wait goroutine (always receiving)")
			case op.kind == "recv" && (hasSuffixAny(op.chans, ".waitPidResult") || hasSuffixAny(op.chans, ".waitAllDone")):
				// every path to the receive passes a kill(-1, SIGKILL)
				isKill := func(in ssa.Instruction) bool {
					for _, k := range kills {
						if in == ssa.Instruction(k) {
							return true
						}
					}
					return false
				}
				tgt := op.instr
				unkilled, _ := pathQuery{fn: f, target: func(in ssa.Instruction) bool { return in == tgt }, stop: isKill}.find()
				dom := len(kills) > 0 && !unkilled
				c.Cond(dom, "2/who-may-block", key, pos, "result is awaited only after kill(-1, SIGKILL): bounded by the death of everything in the namespace",
					"the serving goroutine waits for a program's result without the done arm and without having killed everything first: if the controller dies now the init never notices")
			default:
				c.Fail("2/who-may-block", key, pos, "a blocking channel operation of the serving goroutine that neither observes 'done' nor is one of the kill/reap handshakes")
			}
		}
	}
	c.Expect("2/who-may-block", 9)
	_ = n
}

func shortChans(cs []string) []string {
	var out []string
	for _, s := range cs {
		if i := strings.LastIndex(s, "."); i >= 0 {
			s = s[i+1:]
		}
		out = append(out, s)
	}
	return out
}

// isSyncChannelPeer: v is element 0 of the socket pair whose element 1 the child uses as its sync channel.
func isSyncChannelPeer(v ssa.Value, child *ssa.Function) bool {
	d := describe(stripConv(v))
	return strings.HasSuffix(d, "[0]") && !strings.Contains(d, "Files")
}

// handsErrorBack: f calls the operation and, whenever that fails, returns a non-nil error to its caller
// (the failure is not swallowed inside f).
func handsErrorBack(p *Prog, f *ssa.Function, isIO func(ci ssa.CallInstruction) bool) (bool, ssa.CallInstruction) {
	var io ssa.CallInstruction
	for _, ci := range callInstrs(f) {
		if isIO(ci) {
			io = ci
		}
	}
	if io == nil {
		return false, nil
	}
	res := f.Signature.Results()
	if res.Len() == 0 || res.At(res.Len()-1).Type().String() != "error" {
		return false, io
	}
	v, isV := io.(ssa.Value)
	if !isV {
		return false, io
	}
	var errV ssa.Value = v
	if refs := v.Referrers(); refs != nil {
		for _, r := range *refs {
			if ex, isE := r.(*ssa.Extract); isE && ex.Type().String() == "error" {
				errV = ex
			}
		}
	}
	ok, _ := errPropagated(p, errV)
	return ok, io
}
