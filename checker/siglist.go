package main

// Shared rule: the set of signals the container init ignores.
//
// signal.Ignore sets SIG_IGN, and ignored dispositions are inherited through
// fork and exec: every program started in the container starts with these
// signals ignored. Two necessary conditions follow.
//   - The list contains no signal by which a resource limit ends a program
//     (SIGXCPU, SIGXFSZ): with those ignored a program that exceeds its limit is
//     not ended by it and the run is not reported as the matching verdict (C08).
//   - The list contains the signals on which a Go process exits by default and
//     which any process of the container may send to pid 1 (reference: package
//     os/signal, "Default behavior of signals in Go programs": SIGHUP, SIGINT,
//     SIGTERM exit; SIGQUIT, SIGILL, SIGTRAP, SIGABRT, SIGSYS exit with a stack
//     dump). Without them a sandboxed program can end the container init in the
//     middle of a call (C10).

import (
	"fmt"
	"sort"
	"strings"

	"golang.org/x/tools/go/ssa"
)

// goExitSignals: the signals on which a Go process exits when they are sent to it (os/signal, "Default behavior of
// signals in Go programs"): SIGHUP, SIGINT, SIGTERM exit; SIGQUIT, SIGILL, SIGTRAP, SIGABRT, SIGSTKFLT, SIGSYS exit
// with a stack dump; SIGBUS, SIGFPE, SIGSEGV sent by kill(2) are not synchronous and are fatal as well. (SIGEMT does
// not exist on the Linux ports this repository is analysed for; SIGSTKFLT exists on all of them.)
var goExitSignals = []string{"SIGHUP", "SIGINT", "SIGTERM", "SIGQUIT", "SIGILL", "SIGTRAP", "SIGABRT", "SIGSTKFLT", "SIGSYS", "SIGBUS", "SIGFPE", "SIGSEGV"}

func ignoredSignals(p *Prog) (*ssa.Global, []int64, string) {
	init := p.Func("container", "Init")
	if init == nil {
		return nil, nil, "container.Init not found"
	}
	// the variadic argument of signal.Ignore, reached from Init
	for _, ci := range callInstrsDeep(init, 2) {
		n, _ := calleeOf(ci)
		if n != "os/signal.Ignore" {
			continue
		}
		if len(ci.Common().Args) != 1 {
			continue
		}
		if u, ok := ci.Common().Args[0].(*ssa.UnOp); ok {
			if g, ok := u.X.(*ssa.Global); ok {
				if vals, ok := globalSliceInts(g); ok {
					return g, vals, ""
				}
				return g, nil, "the list passed to signal.Ignore is not a literal of constant signals"
			}
		}
		return nil, nil, "signal.Ignore is not called with a package-level list"
	}
	return nil, nil, "the container init never calls signal.Ignore"
}

func checkIgnoredSignals(c *Check, rule string, mustExclude, mustInclude []string) {
	p := c.P
	g, vals, why := ignoredSignals(p)
	if why != "" {
		c.Undecided(rule, "container.Init:signal.Ignore", "-", why)
		return
	}
	have := map[int64]bool{}
	for _, v := range vals {
		have[v] = true
	}
	key := "container." + g.Name()
	pos := p.Pos(g.Pos())
	if len(mustExclude) > 0 {
		var bad []string
		for _, n := range mustExclude {
			if have[p.Sys(n)] {
				bad = append(bad, n)
			}
		}
		sort.Strings(bad)
		c.Cond(len(bad) == 0, rule, key+":excludes-limit-signals", pos, fmt.Sprintf("the ignored set (%d signals) contains no limit signal", len(vals)),
			"the container init ignores "+strings.Join(bad, ", ")+"; ignored dispositions are inherited through exec, so programs in the container are no longer ended by that limit and the run is not reported as the matching verdict")
	}
	if len(mustInclude) > 0 {
		var missing []string
		for _, n := range mustInclude {
			if !have[p.Sys(n)] {
				missing = append(missing, n)
			}
		}
		sort.Strings(missing)
		c.Cond(len(missing) == 0, rule, key+":covers-go-exit-signals", pos, "every signal on which a Go process exits by default is ignored by the init",
			"the container init does not ignore "+strings.Join(missing, ", ")+": a sandboxed program can send it to pid 1 and end the init in the middle of a call (every later call fails although the transport was not lost)")
	}
}
