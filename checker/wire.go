package main

// Shared rule: every field of every type that crosses the control socket is transmitted. encoding/gob sends only
// exported fields (an embedded struct counts under its type name) and refuses interface values whose dynamic type
// was not registered; a field that violates either is silently zero on the other side or makes the encoder fail for
// exactly the messages that carry it.

import (
	"fmt"
	"go/types"
	"sort"
	"strings"

	"golang.org/x/tools/go/ssa"
)

func wireRootTypes(p *Prog) map[string]types.Type {
	roots := map[string]types.Type{}
	var follow func(v ssa.Value, fn *ssa.Function, d int)
	follow = func(v ssa.Value, fn *ssa.Function, d int) {
		if d > 4 {
			return
		}
		switch x := v.(type) {
		case *ssa.MakeInterface:
			t := x.X.Type()
			if pt, ok := t.Underlying().(*types.Pointer); ok {
				t = pt.Elem()
			}
			roots[t.String()] = t
		case *ssa.Parameter:
			idx := -1
			for i, pr := range fn.Params {
				if pr == x {
					idx = i
				}
			}
			if idx < 0 {
				return
			}
			for _, site := range staticCallSites(fn) {
				if site.Parent() == nil || site.Parent().Pkg == nil || strings.HasSuffix(site.Parent().Pkg.Pkg.Path(), "_test") {
					continue
				}
				args := site.Common().Args
				if idx < len(args) {
					follow(args[idx], site.Parent(), d+1)
				}
			}
		case *ssa.Phi:
			for _, e := range x.Edges {
				follow(e, fn, d+1)
			}
		case *ssa.ChangeInterface:
			follow(x.X, fn, d+1)
		}
	}
	for _, fn := range p.PkgFuncs("container") {
		for _, f := range withClosures(fn) {
			for _, ci := range callInstrs(f) {
				n, _ := calleeOf(ci)
				if n != "(encoding/gob.Encoder).Encode" && n != "(encoding/gob.Decoder).Decode" {
					continue
				}
				args := ci.Common().Args
				follow(args[len(args)-1], f, 0)
			}
		}
	}
	return roots
}

func hasMethod(t types.Type, names ...string) bool {
	for _, tt := range []types.Type{t, types.NewPointer(t)} {
		ms := types.NewMethodSet(tt)
		for i := 0; i < ms.Len(); i++ {
			for _, n := range names {
				if ms.At(i).Obj().Name() == n {
					return true
				}
			}
		}
	}
	return false
}

func checkWireTypes(c *Check, rule string) {
	p := c.P
	roots := wireRootTypes(p)
	if len(roots) < 2 {
		c.Undecided(rule, "container:wire-types", "-", fmt.Sprintf("only %d message types found at the encoder/decoder", len(roots)))
		return
	}
	registered := false
	for _, fn := range p.AllFuncs() {
		if !inModule(fn) {
			continue
		}
		for _, ci := range callInstrs(fn) {
			if n, _ := calleeOf(ci); n == "encoding/gob.Register" || n == "encoding/gob.RegisterName" {
				registered = true
			}
		}
	}
	var names []string
	for n := range roots {
		names = append(names, n)
	}
	sort.Strings(names)
	seen := map[string]bool{}
	nFields := 0
	var visit func(t types.Type, path string)
	visit = func(t types.Type, path string) {
		switch u := t.(type) {
		case *types.Pointer:
			visit(u.Elem(), path)
			return
		case *types.Slice:
			visit(u.Elem(), path+"[]")
			return
		case *types.Array:
			visit(u.Elem(), path+"[]")
			return
		case *types.Map:
			visit(u.Key(), path+"[key]")
			visit(u.Elem(), path+"[]")
			return
		case *types.Alias:
			visit(types.Unalias(u), path)
			return
		}
		if n, ok := t.(*types.Named); ok {
			if seen[n.String()] {
				return
			}
			seen[n.String()] = true
			if hasMethod(n, "GobEncode", "MarshalBinary", "MarshalText") {
				return
			}
		}
		switch u := t.Underlying().(type) {
		case *types.Struct:
			for i := 0; i < u.NumFields(); i++ {
				f := u.Field(i)
				nFields++
				key := "container:wire:" + path + "." + f.Name()
				pos := p.Pos(f.Pos())
				switch {
				case !f.Exported():
					what := "field"
					if f.Embedded() {
						what = "embedded struct (its wire name is its type name)"
					}
					c.Fail(rule, key, pos, fmt.Sprintf("%s %s of %s is unexported: encoding/gob does not transmit it, the receiver sees the zero value", what, f.Name(), path))
				default:
					if _, isIface := f.Type().Underlying().(*types.Interface); isIface && !registered {
						c.Fail(rule, key, pos, fmt.Sprintf("field %s of %s has interface type %s and no concrete type is registered with gob: the encoder fails for every message in which it is set", f.Name(), path, f.Type()))
					} else {
						c.OK(rule, key, pos, "transmitted")
					}
				}
				visit(f.Type(), path+"."+f.Name())
			}
		case *types.Chan, *types.Signature:
			c.Fail(rule, "container:wire:"+path, "-", path+" has a type gob cannot transmit")
		}
	}
	for _, n := range names {
		t := roots[n]
		short := n
		if i := strings.LastIndex(n, "/"); i >= 0 {
			short = n[i+1:]
		}
		visit(t, short)
	}
	c.Expect(rule, 30)
}

// checkWrapperOwnership: a descriptor number handed to os.NewFile belongs to the *os.File from then on. In the
// function that wraps it, the wrapper is either handed on (returned, stored, given to a callee that keeps it) or
// closed on every path; it is never just dropped (its finalizer would close the NUMBER at some later garbage
// collection, when the number may belong to another open file), and the raw number is not closed behind its back.
func checkWrapperOwnership(c *Check, rule string) {
	p := c.P
	n := 0
	nonOwning := func(name string) bool {
		return name == "net.FileConn" || name == "net.FilePacketConn" || name == "net.FileListener"
	}
	for _, fn := range p.AllFuncs() {
		if !inModule(fn) || fn.Pkg == nil || strings.HasSuffix(fn.Pkg.Pkg.Path(), "_test") || strings.Contains(fn.Pkg.Pkg.Path(), "/cmd/") {
			continue
		}
		for _, ci := range callInstrs(fn) {
			if nm, _ := calleeOf(ci); nm != "os.NewFile" {
				continue
			}
			wrap, ok := ci.(*ssa.Call)
			if !ok {
				continue
			}
			n++
			key := shortName(fn) + ":os.NewFile"
			// all values that denote the wrapper: the call result and φ-nodes over it
			alias := map[ssa.Value]bool{wrap: true}
			escapes := false
			var closes []ssa.Instruction
			work := []ssa.Value{wrap}
			for len(work) > 0 {
				v := work[0]
				work = work[1:]
				if v.Referrers() == nil {
					continue
				}
				for _, r := range *v.Referrers() {
					switch x := r.(type) {
					case *ssa.Phi:
						if !alias[x] {
							alias[x] = true
							work = append(work, x)
						}
					case *ssa.BinOp:
						// comparison with nil
					case *ssa.If:
					case *ssa.DebugRef:
					case ssa.CallInstruction:
						cc := x.Common()
						nm, callee := calleeOf(x)
						isRecv := len(cc.Args) > 0 && cc.Args[0] == v && callee != nil && callee.Signature.Recv() != nil
						switch {
						case nm == "(os.File).Close" && isRecv:
							closes = append(closes, x)
						case isRecv && strings.HasPrefix(nm, "(os.File)."):
							// a method of the wrapper: does not take it over
						case nonOwning(nm):
						default:
							escapes = true
						}
					case *ssa.MakeClosure:
						// captured: closed there?
						if cf, ok := x.Fn.(*ssa.Function); ok {
							found := false
							for _, c2 := range callInstrs(cf) {
								if n2, _ := calleeOf(c2); n2 == "(os.File).Close" {
									found = true
								}
							}
							if found {
								for _, r2 := range *x.Referrers() {
									closes = append(closes, r2)
								}
							} else {
								escapes = true
							}
						}
					default:
						escapes = true // returned, stored, converted, appended
					}
				}
			}
			if !escapes {
				isClose := func(in ssa.Instruction) bool {
					for _, cl := range closes {
						if cl == in {
							return true
						}
					}
					return false
				}
				leaks, trail := pathQuery{fn: fn, from: wrap, target: isReturnOrPanic, stop: isClose, edgeOK: func(b *ssa.BasicBlock, succ int) bool {
					// the "wrapper is nil" edge needs no close
					if iff := blockIf(b); iff != nil {
						if bo, eq, _, ok := eqEdges(iff); ok && succ == eq && ((alias[bo.X] && isNilConst(bo.Y)) || (alias[bo.Y] && isNilConst(bo.X))) {
							return false
						}
					}
					return true
				}}.find()
				c.Cond(!leaks, rule, key+":closed-or-handed-on", p.Pos(wrap.Pos()), "the wrapper is closed on every path", "the *os.File made from the descriptor is neither handed on nor closed ("+p.trail(trail)+"): its finalizer closes the descriptor number at a later garbage collection, when the number may denote another open file of the process")
			} else {
				c.OK(rule, key+":closed-or-handed-on", p.Pos(wrap.Pos()), "the wrapper is handed on")
			}
			// the raw number is not closed behind the wrapper's back
			raw := stripConv(wrap.Call.Args[0])
			rawClosed := ""
			for _, c2 := range callInstrs(fn) {
				if n2, _ := calleeOf(c2); n2 == "syscall.Close" || n2 == "golang.org/x/sys/unix.Close" {
					if stripConv(c2.Common().Args[0]) == raw && anyReach(wrap.Block(), c2.Block()) && !isNilGuarded(c2, alias) {
						rawClosed = p.Pos(c2.Pos())
					}
				}
			}
			c.Cond(rawClosed == "", rule, key+":no-raw-close", p.Pos(wrap.Pos()), "the wrapped number is not closed by number", "the descriptor wrapped at "+p.Pos(wrap.Pos())+" is also closed by number at "+rawClosed+": it is closed twice, the second time possibly after the number was reused")
		}
	}
	if n == 0 {
		c.Undecided(rule, "module:os.NewFile", "-", "no os.NewFile site found")
	}
	// A function that wraps one of its parameters takes the number over: its wrapper's Close (or whoever it hands
	// the wrapper to) releases it, also when the function fails. A caller that closes the same number by hand after
	// such a call releases it twice.
	consumes := map[*ssa.Function]int{}
	for _, fn := range p.AllFuncs() {
		if !inModule(fn) || fn.Pkg == nil || strings.HasSuffix(fn.Pkg.Pkg.Path(), "_test") {
			continue
		}
		for _, ci := range callInstrs(fn) {
			if nm, _ := calleeOf(ci); nm != "os.NewFile" {
				continue
			}
			if par, ok := stripConv(ci.Common().Args[0]).(*ssa.Parameter); ok {
				for i, q := range fn.Params {
					if q == par {
						consumes[fn] = i
					}
				}
			}
		}
	}
	nc := 0
	for _, fn := range p.AllFuncs() {
		if !inModule(fn) || fn.Pkg == nil || strings.HasSuffix(fn.Pkg.Pkg.Path(), "_test") {
			continue
		}
		calls := callInstrs(fn)
		for _, ci := range calls {
			_, callee := calleeOf(ci)
			idx, ok := consumes[callee]
			if callee == nil || !ok || idx >= len(ci.Common().Args) {
				continue
			}
			call, isCall := ci.(*ssa.Call)
			if !isCall {
				continue
			}
			nc++
			arg := stripConv(ci.Common().Args[idx])
			argD := describe(arg)
			bad := ""
			for _, c2 := range calls {
				if n2, _ := calleeOf(c2); n2 != "syscall.Close" && n2 != "golang.org/x/sys/unix.Close" {
					continue
				}
				a2 := stripConv(c2.Common().Args[0])
				if a2 != arg && describe(a2) != argD {
					continue
				}
				after := false
				if c2.Block() == call.Block() {
					ic, i2 := -1, -1
					for k, in := range call.Block().Instrs {
						if in == ssa.Instruction(call) {
							ic = k
						}
						if in == c2.(ssa.Instruction) {
							i2 = k
						}
					}
					after = i2 > ic
				} else {
					after = anyReach(call.Block(), c2.Block())
				}
				if after {
					bad = p.Pos(c2.Pos())
				}
			}
			c.Cond(bad == "", rule, shortName(fn)+":"+shortName(callee)+"("+argD+"):no-raw-close-after-handover", p.Pos(call.Pos()),
				"the number handed to a function that wraps it is not closed by number afterwards",
				shortName(callee)+" wraps its argument in an *os.File and closes that on every path, also when it fails; the caller closes the same number again at "+bad+": a double close, the second possibly after the number was reused by another goroutine")
		}
	}
	if nc == 0 {
		c.Undecided(rule, "module:handover", "-", "no call hands a number to a wrapping function")
	}
	c.Expect(rule, 6)
}

// isNilGuarded: the call runs only where the wrapper was found to be nil (os.NewFile refused the number).
func isNilGuarded(ci ssa.CallInstruction, alias map[ssa.Value]bool) bool {
	cd := controlDeps(ci.Parent())
	for _, e := range cdChain(cd, ci.Block()) {
		if iff := blockIf(e.b); iff != nil {
			if bo, eq, _, ok := eqEdges(iff); ok && e.succ == eq && ((alias[bo.X] && isNilConst(bo.Y)) || (alias[bo.Y] && isNilConst(bo.X))) {
				return true
			}
		}
	}
	return false
}
