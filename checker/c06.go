package main

// C06 — the program's descriptor table is exactly the caller's list.

import (
	"fmt"
	"go/token"
	"go/types"
	"sort"
	"strings"

	"golang.org/x/tools/go/ssa"
)

func init() {
	register("C06", "Structural necessary conditions of the descriptor shuffle: (1) who-may-write — after the clone the child stores only into locals, fresh allocations and the copied descriptor slice, never through the caller's Runner or package variables (under CLONE_VM such a store changes the caller); (2) scratch discipline — every dup3 into the scratch cursor carries O_CLOEXEC, every dup3 into a final slot carries flags 0, the in-place arm clears FD_CLOEXEC, and every scratch allocation is preceded by skip loops over each live reserved descriptor (sync channel, exec descriptor) other than the one being moved; (3) the scratch cursor starts above max(len(list), max(list)) using a SIGNED comparison (so the close marker never raises it) and the list is copied into a fresh slice; (4) every internally created or received descriptor is close-on-exec (socket pairs, id-map files, descriptors received in the container before Start, all descriptors of the container init, descriptors received by the host); (5) pass 2 handles every slot by exactly one of close/fcntl/dup3. Does not decide the full value-level case analysis of the two-pass shuffle.", checkC06)
}

func checkC06(c *Check) {
	x := newE1ctx(c)
	if x == nil {
		return
	}
	r, p := x.r, c.P
	child := r.Child

	// ---------- 1: who-may-write ----------
	nStores := 0
	for _, st := range r.Stores {
		root, kind := storeRoot(st.Addr)
		nStores++
		key := "store:" + describe(st.Addr)
		switch kind {
		case "local", "fresh":
			c.OK("1/no-write-back", key, p.Pos(st.Pos()), "store into "+kind+" memory")
		case "param":
			// before the clone the parent may not modify the configuration either
			c.Fail("1/no-write-back", key, p.Pos(st.Pos()), "the launch code writes through parameter "+root+": with CLONE_VM this modifies the caller's configuration (a second Start of the same Runner behaves differently)")
		case "global":
			c.Fail("1/no-write-back", key, p.Pos(st.Pos()), "the launch code writes package variable "+root+" (shared with the parent under CLONE_VM and with concurrent launches)")
		default:
			c.Undecided("1/no-write-back", key, p.Pos(st.Pos()), "cannot classify the target of this store: "+describe(st.Addr))
		}
	}
	c.Expect("1/no-write-back", 5)

	// ---------- 3: prepareFds ----------
	var prep *ssa.Call
	for _, ci := range callInstrs(child) {
		if call, ok := ci.(*ssa.Call); ok {
			if _, callee := calleeOf(call); callee != nil && inModule(callee) && callee.Signature.Results().Len() == 2 &&
				callee.Signature.Results().At(0).Type().String() == "[]int" && callee.Signature.Results().At(1).Type().String() == "int" {
				prep = call
			}
		}
	}
	if prep == nil {
		c.Undecided("3/scratch-base", "forkexec.prepareFds", p.Pos(child.Pos()), "cannot resolve the function that copies the descriptor list and computes the scratch cursor")
		return
	}
	checkPrepareFds(c, prep)

	// cursor = phi chain from result #1 of prep; list = result #0
	var cursorRoot, listRoot ssa.Value
	if refs := prep.Referrers(); refs != nil {
		for _, ref := range *refs {
			if ex, ok := ref.(*ssa.Extract); ok {
				if ex.Index == 1 {
					cursorRoot = ex
				} else {
					listRoot = ex
				}
			}
		}
	}
	isCursor := func(v ssa.Value) bool {
		return cursorRoot != nil && dependsOn(stripConv(v), map[ssa.Value]bool{cursorRoot: true}, 0) && !isListElem(stripConv(v), listRoot)
	}

	// ---------- 2: scratch discipline ----------
	oCloexec := p.Sys("O_CLOEXEC")
	dups := x.sel("dup3", nil)
	var scratch, final []*e1Event
	for _, e := range dups {
		tgt := e.arg(1)
		fl, okf := e.argInt(2)
		switch {
		case isCursor(tgt):
			scratch = append(scratch, e)
			c.Cond(okf && fl&oCloexec != 0, "2/scratch-discipline", "cloexec:"+e.Site, x.pos(e), "scratch duplicate is close-on-exec", "a scratch duplicate is created without O_CLOEXEC: it stays open in the program")
		default:
			final = append(final, e)
			c.Cond(okf && fl == 0, "2/scratch-discipline", "final-flags:"+e.Site, x.pos(e), "final slot duplicate has close-on-exec cleared (flags 0)", fmt.Sprintf("dup3 into a final slot carries flags %s: the slot would be closed at exec", e.argDesc(2)))
			c.Cond(isListElem(stripConv(e.arg(0)), listRoot), "2/scratch-discipline", "final-source:"+e.Site, x.pos(e), "final slot i is duplicated from list entry i", "final slot is duplicated from "+e.argDesc(0))
		}
	}
	c.Cond(len(scratch) >= 3 && len(final) >= 1, "2/scratch-discipline", "dup3-sites", p.Pos(child.Pos()), fmt.Sprintf("%d scratch and %d final dup3 sites", len(scratch), len(final)),
		fmt.Sprintf("expected ≥3 scratch and ≥1 final dup3 sites, found %d and %d", len(scratch), len(final)))
	// fcntl(F_SETFD, 0) in the in-place arm
	fsetfd := p.Sys("F_SETFD")
	fc := x.sel("fcntl", func(e *e1Event) bool { v, ok := e.argInt(1); return ok && v == fsetfd })
	for _, e := range fc {
		v, ok := e.argInt(2)
		c.Cond(ok && v == 0, "2/scratch-discipline", "fcntl-clear:"+e.Site, x.pos(e), "fcntl(F_SETFD, 0) clears close-on-exec for an entry already in place", "fcntl(F_SETFD) sets flags "+e.argDesc(2))
	}
	for _, e := range fc {
		// the descriptor whose flag is cleared is the one that was found to sit at its own slot: the guard contains
		// the equality "<that descriptor> == <slot index>" about the very value handed to fcntl
		subj := describe(stripConv(e.arg(0)))
		okSubj := false
		for _, a := range Support(e.Guard) {
			if (strings.HasPrefix(a, subj+" == ") || strings.HasSuffix(a, " == "+subj)) && !strings.HasSuffix(a, "== -1") {
				if v, _, _ := Valid(fImp(e.Guard, fLit(a))); v {
					okSubj = true
				}
			}
		}
		c.Cond(okSubj, "2/scratch-discipline", "fcntl-subject:"+e.Site, x.pos(e), "the in-place test is about the descriptor whose flag is cleared",
			"fcntl clears close-on-exec of "+subj+" under "+e.Guard.String()+", which does not test that same value against its slot: after pass 1 moved an entry to a scratch slot the flag is cleared on the scratch duplicate (it leaks into the program) or on nothing")
	}
	c.Cond(len(fc) == 1, "2/scratch-discipline", "fcntl-site", p.Pos(child.Pos()), "in-place arm present", fmt.Sprintf("%d fcntl(F_SETFD) sites (expected 1): an entry already at its slot keeps close-on-exec", len(fc)))

	// skip loops: reserved descriptors other than the source
	isExecFd := func(v ssa.Value) bool {
		d := describe(stripConv(v))
		if d == r.R+".ExecFile" {
			return true
		}
		if ph, ok := stripConv(v).(*ssa.Phi); ok {
			for _, e := range ph.Edges {
				if describe(stripConv(e)) == r.R+".ExecFile" {
					return true
				}
			}
		}
		return false
	}
	for _, e := range scratch {
		src := e.arg(0)
		need := map[string]bool{}
		if !isSyncChannel(src, child) {
			need["sync channel"] = true
		}
		if !isExecFd(src) {
			need["exec descriptor"] = true
		}
		have := map[string]bool{}
		for _, b := range child.Blocks {
			iff := blockIf(b)
			if iff == nil || !inLoop(b) || b == e.Block || !fwdReach(b, e.Block) || fwdReach(e.Block, b) {
				continue
			}
			// the loop must sit directly before this allocation: no other scratch dup3 between
			between := false
			for _, o := range scratch {
				if o != e && o.Block != e.Block && fwdReach(b, o.Block) && fwdReach(o.Block, e.Block) {
					between = true
				}
			}
			if between {
				continue
			}
			bo, ok := iff.Cond.(*ssa.BinOp)
			if !ok || bo.Op != token.EQL {
				continue
			}
			// the operand that is the slot value of this allocation (the other one is the reserved descriptor)
			var other, cur ssa.Value
			tgt := stripConv(e.arg(1))
			switch {
			case stripConv(bo.X) == tgt:
				other, cur = bo.Y, bo.X
			case stripConv(bo.Y) == tgt:
				other, cur = bo.X, bo.Y
			case isCursor(bo.X):
				other, cur = bo.Y, bo.X
			case isCursor(bo.Y):
				other, cur = bo.X, bo.Y
			default:
				continue
			}
			// the value the loop has stepped past the reserved descriptors is the very value used as the slot:
			// a skip made once before an allocating loop does not protect the slots of its later rounds
			if stripConv(cur) != stripConv(e.arg(1)) {
				continue
			}
			if isSyncChannel(other, child) {
				have["sync channel"] = true
			}
			if isExecFd(other) {
				have["exec descriptor"] = true
			}
		}
		var missing []string
		for k := range need {
			if !have[k] {
				missing = append(missing, k)
			}
		}
		sort.Strings(missing)
		c.Cond(len(missing) == 0, "2/scratch-discipline", "skip-reserved:"+e.Site, x.pos(e), "scratch slot is advanced past every live reserved descriptor",
			"the scratch slot chosen for this duplicate is not advanced past the "+strings.Join(missing, " and the ")+": dup3 would silently replace it")
	}
	c.Expect("2/scratch-discipline", 12)

	// ---------- 5: pass 2 completeness ----------
	var pass2 []*e1Event
	for _, e := range final {
		pass2 = append(pass2, e)
	}
	pass2 = append(pass2, fc...)
	for _, e := range x.sel("close", nil) {
		if _, isConst := e.argInt(0); !isConst && !isSyncChannelDirect(e.arg(0)) {
			pass2 = append(pass2, e)
		}
	}
	if len(pass2) >= 3 {
		// the loop-membership atom: common to all three guards
		common := commonAtoms(guardsOf(pass2))
		var loopG []*Form
		for _, a := range common {
			loopG = append(loopG, fLit(a))
		}
		x.valid("5/pass2-complete", "each-slot-one-action", x.pos(pass2[0]), fImp(fAnd(loopG...), exactlyOne(guardsOf(pass2))),
			"every slot is handled by exactly one of close / fcntl / dup3", "some slot of the caller's list is handled by none or by more than one of close/fcntl/dup3")
	} else {
		c.Fail("5/pass2-complete", "each-slot-one-action", p.Pos(child.Pos()), "pass 2 does not consist of a close, an fcntl and a dup3 arm")
	}
	c.Expect("5/pass2-complete", 1)

	// ---------- 4: everything internal is close-on-exec ----------
	checkCloexecSites(c, r)
	c.Extra["assignments_enumerated"] = x.nEnum

	// a descriptor list that does not fit the control buffer is rejected, never delivered short (C19.2), and every
	// descriptor the framework creates is born close-on-exec, memfd included (C17.1)
	importObs(c, "C19", "C19.2/truncation-rejected", "6/list-delivered-whole", nil)
	c.Expect("6/list-delivered-whole", 2)
	importObs(c, "C17", "C17.1/fork-lock", "7/born-cloexec", func(o Obligation) bool { return strings.Contains(o.Key, "cloexec") })
	c.Expect("7/born-cloexec", 3)
	// the request acted upon is this request (FdExec, FdCgroup and the descriptor-related flags are not inherited
	// from the previous message), and descriptor numbers are closed exactly once, by their owner
	checkFreshDecode(c, "8/request-is-fresh")
	checkWrapperOwnership(c, "9/wrapper-ownership")
}

func isSyncChannelDirect(v ssa.Value) bool {
	v = stripConv(v)
	if u, ok := v.(*ssa.UnOp); ok {
		if ia, ok := u.X.(*ssa.IndexAddr); ok {
			if _, isC := constInt(ia.Index); isC {
				if _, ok := ia.X.(*ssa.Alloc); ok {
					return true
				}
			}
		}
	}
	return false
}

func commonAtoms(gs []*Form) []string {
	if len(gs) == 0 {
		return nil
	}
	cnt := map[string]int{}
	for _, g := range gs {
		for _, a := range positiveConjuncts(g) {
			cnt[a]++
		}
	}
	var out []string
	for a, n := range cnt {
		if n == len(gs) {
			out = append(out, a)
		}
	}
	sort.Strings(out)
	return out
}

// positiveConjuncts: atoms that appear as positive top-level conjuncts.
func positiveConjuncts(f *Form) []string {
	switch f.Op {
	case 'L':
		return []string{f.Atom}
	case '&':
		var out []string
		for _, k := range f.Kids {
			out = append(out, positiveConjuncts(k)...)
		}
		return out
	}
	return nil
}

// isListElem: v is an element load of the copied list.
func isListElem(v ssa.Value, list ssa.Value) bool {
	if list == nil {
		return false
	}
	if u, ok := v.(*ssa.UnOp); ok && u.Op == token.MUL {
		if ia, ok := u.X.(*ssa.IndexAddr); ok {
			return ia.X == list
		}
	}
	return false
}

// storeRoot classifies the memory a store targets.
func storeRoot(addr ssa.Value) (string, string) {
	v := addr
	for i := 0; i < 12; i++ {
		switch x := v.(type) {
		case *ssa.Alloc:
			if x.Heap {
				return x.Comment, "fresh"
			}
			return x.Comment, "local"
		case *ssa.Global:
			return x.Pkg.Pkg.Name() + "." + x.Name(), "global"
		case *ssa.Parameter:
			return x.Name(), "param"
		case *ssa.FieldAddr:
			v = x.X
		case *ssa.IndexAddr:
			v = x.X
		case *ssa.UnOp:
			if x.Op != token.MUL {
				return "", "?"
			}
			v = x.X // a loaded pointer: follow to where the pointer came from
		case *ssa.Extract:
			// result of a call: fresh if the callee returns a fresh allocation (checked in rule 3)
			if call, ok := x.Tuple.(*ssa.Call); ok {
				if _, callee := calleeOf(call); callee != nil && inModule(callee) {
					return callee.Name() + "()", "fresh"
				}
			}
			return "", "?"
		case *ssa.MakeSlice:
			return "make", "fresh"
		case *ssa.Convert:
			v = x.X
		case *ssa.ChangeType:
			v = x.X
		case *ssa.Slice:
			v = x.X
		case *ssa.Phi:
			// all edges must agree
			kinds := map[string]bool{}
			root := ""
			for _, e := range x.Edges {
				r, k := storeRoot(e)
				kinds[k] = true
				root = r
			}
			if len(kinds) == 1 {
				for k := range kinds {
					return root, k
				}
			}
			return "", "?"
		default:
			return "", "?"
		}
	}
	return "", "?"
}

func checkPrepareFds(c *Check, call *ssa.Call) {
	p := c.P
	_, fn := calleeOf(call)
	key := "pkg/forkexec." + fn.Name()
	pos := p.Pos(fn.Pos())
	var ret *ssa.Return
	for _, b := range fn.Blocks {
		if r, ok := b.Instrs[len(b.Instrs)-1].(*ssa.Return); ok {
			if ret != nil {
				c.Undecided("3/scratch-base", key+":returns", pos, "more than one return")
				return
			}
			ret = r
		}
	}
	if ret == nil || len(ret.Results) != 2 {
		c.Undecided("3/scratch-base", key+":returns", pos, "unexpected result shape")
		return
	}
	ms, isMake := ret.Results[0].(*ssa.MakeSlice)
	c.Cond(isMake && strings.HasPrefix(describe(ms.Len), "builtin:len("), "3/scratch-base", key+":fresh-copy", pos, "the list is copied into a fresh slice of the same length", "the returned list is not a fresh make([]int, len(files)): stores into it could reach the caller's slice")
	// cursor = φ + 1
	add, ok := ret.Results[1].(*ssa.BinOp)
	one := int64(0)
	if ok {
		one, _ = constInt(add.Y)
	}
	if !ok || add.Op != token.ADD || one != 1 {
		c.Fail("3/scratch-base", key+":cursor+1", pos, "the scratch cursor is not (maximum + 1): "+describe(ret.Results[1]))
		return
	}
	c.OK("3/scratch-base", key+":cursor+1", pos, "cursor = maximum + 1")
	phi, ok := add.X.(*ssa.Phi)
	if !ok {
		c.Fail("3/scratch-base", key+":cursor-init", pos, "cursor is not accumulated over the list")
		return
	}
	initOK := false
	for _, e := range phi.Edges {
		if strings.HasPrefix(describe(e), "builtin:len(") {
			initOK = true
		}
	}
	c.Cond(initOK, "3/scratch-base", key+":cursor-init", pos, "cursor starts at len(list)", "cursor does not start at len(list): scratch slots could fall inside 0..n-1")
	// the raising comparison: cursor < int(elem), signed, and assignment cursor = int(elem)
	raised := false
	signed := false
	for _, b := range fn.Blocks {
		iff := blockIf(b)
		if iff == nil || isLoopHeader(b) {
			continue
		}
		bo, ok := iff.Cond.(*ssa.BinOp)
		if !ok {
			continue
		}
		if (bo.Op == token.LSS && stripConv(bo.X) == ssa.Value(phi)) || (bo.Op == token.GTR && stripConv(bo.Y) == ssa.Value(phi)) {
			raised = true
			if bt, ok := bo.X.Type().Underlying().(*types.Basic); ok && bt.Info()&types.IsUnsigned == 0 {
				signed = true
			}
		}
	}
	// second form: cursor = max(cursor, int(elem)) with signed operands
	for _, e := range phi.Edges {
		if call, ok := stripConv(e).(*ssa.Call); ok {
			if bi, ok := call.Call.Value.(*ssa.Builtin); ok && bi.Name() == "max" && len(call.Call.Args) == 2 {
				hasCur, other := false, ssa.Value(nil)
				for _, a := range call.Call.Args {
					if stripConv(a) == ssa.Value(phi) {
						hasCur = true
					} else {
						other = a
					}
				}
				if hasCur && other != nil {
					raised = true
					if bt, ok := call.Type().Underlying().(*types.Basic); ok && bt.Info()&types.IsUnsigned == 0 {
						signed = true
					}
				}
			}
		}
	}
	c.Cond(raised, "3/scratch-base", key+":cursor-raised", pos, "cursor is raised to every list entry above it", "cursor is not raised to the list entries: a scratch slot could collide with a listed descriptor")
	c.Cond(signed, "3/scratch-base", key+":signed-compare", pos, "the comparison is signed, so the close marker (-1) never raises the cursor", "the comparison is unsigned: the close marker (all ones) becomes the maximum and the cursor wraps to 0")
	// every element is copied (store into the fresh slice inside the loop, unconditionally)
	copied := false
	cd := controlDeps(fn)
	for _, b := range fn.Blocks {
		for _, in := range b.Instrs {
			if st, ok := in.(*ssa.Store); ok {
				if ia, ok := st.Addr.(*ssa.IndexAddr); ok && ia.X == ret.Results[0] {
					copied = len(extraConds(cd, b)) == 0
				}
			}
		}
	}
	c.Cond(copied, "3/scratch-base", key+":copy-all", pos, "every entry is copied unconditionally", "not every list entry is copied")
	c.Expect("3/scratch-base", 6)
}

func checkCloexecSites(c *Check, r *e1Result) {
	p := c.P
	sockCloexec := p.Sys("SOCK_CLOEXEC")
	// socket pairs
	n := 0
	for _, rel := range []string{"pkg/forkexec", "pkg/unixsocket", "container"} {
		for _, fn := range p.PkgFuncs(rel) {
			for _, ci := range callInstrs(fn) {
				nm, _ := calleeOf(ci)
				switch {
				case strings.HasSuffix(nm, ".Socketpair"):
					n++
					v, ok := constInt(ci.Common().Args[1])
					c.Cond(ok && v&sockCloexec != 0, "4/cloexec", rel+"."+fn.Name()+":Socketpair", p.Pos(ci.Pos()), "socket pair is created close-on-exec", "socket pair is created without SOCK_CLOEXEC: both ends leak into every program started meanwhile")
				case nm == "golang.org/x/sys/unix.Open" || nm == "syscall.Open":
					n++
					v, ok := constInt(ci.Common().Args[1])
					c.Cond(ok && v&p.Sys("O_CLOEXEC") != 0, "4/cloexec", rel+"."+fn.Name()+":Open", p.Pos(ci.Pos()), "raw open is close-on-exec", "raw open without O_CLOEXEC")
				}
			}
		}
	}
	// container handleExecve: received descriptors marked close-on-exec before Start
	if he := p.Func("container", "containerServer.handleExecve"); he != nil {
		var start ssa.CallInstruction
		var mark ssa.CallInstruction
		for _, ci := range callInstrs(he) {
			nm, callee := calleeOf(ci)
			if strings.HasSuffix(nm, "forkexec.Runner).Start") {
				start = ci
			}
			if callee != nil && inModule(callee) && marksCloexecAll(callee) && strings.Contains(describe(ci.Common().Args[0]), ".Fds") {
				mark = ci
			}
		}
		ok := start != nil && mark != nil && before(mark, start)
		if ok {
			// only skipped when there are no descriptors
			ec := extraCondsEE(controlDeps(he), mark.Block())
			for _, a := range ec {
				if !strings.Contains(a, "len(") || !strings.Contains(a, "Fds") {
					ok = false
				}
			}
		}
		c.Cond(ok, "4/cloexec", "container.handleExecve:received-fds", p.Pos(he.Pos()), "descriptors received with the request are marked close-on-exec before the program is started", "descriptors received with the request are not (all, unconditionally) marked close-on-exec before Start: extra descriptors stay open in the program")
		n++
	}
	// container Init: all descriptors + the control socket before serving
	if init := p.Func("container", "Init"); init != nil {
		var all, serve ssa.CallInstruction
		for _, ci := range callInstrs(init) {
			_, callee := calleeOf(ci)
			if callee == nil || !inModule(callee) {
				continue
			}
			// the sweep over /proc/self/fd: this callee, or a helper it calls (split-off preparation step)
			sweep := callee
			if !readsProcSelfFd(callee) {
				sweep = nil
				for _, c2 := range callInstrsDeep(callee, 1) {
					if _, c3 := calleeOf(c2); c3 != nil && inModule(c3) && readsProcSelfFd(c3) {
						sweep = c3
					}
				}
			}
			if sweep != nil {
				all = ci
				fn := sweep
				// every entry is marked, unconditionally
				okAll := false
				for _, c2 := range callInstrs(fn) {
					if nm, _ := calleeOf(c2); nm == "syscall.CloseOnExec" {
						okAll = len(extraConds(controlDeps(fn), c2.Block())) == 0 && inLoop(c2.Block())
					}
				}
				c.Cond(okAll, "4/cloexec", "container."+fn.Name()+":every-entry", p.Pos(fn.Pos()), "every descriptor of the container init is marked close-on-exec", "not every descriptor of the container init is marked close-on-exec (some are skipped): they stay open in every program run in the container")
				n++
				// … and the loop runs over the whole listing: the element looked at is an element of what the
				// directory read returned, indexed from 0 up to its length (no sub-slice, no shortened bound)
				var listing ssa.Value
				for _, c2 := range callInstrs(fn) {
					if nm, _ := calleeOf(c2); nm == "os.ReadDir" || nm == "(os.File).ReadDir" || nm == "(os.File).Readdirnames" || nm == "(os.File).Readdir" {
						if call, ok := c2.(*ssa.Call); ok {
							for _, r := range *call.Referrers() {
								if ex, ok := r.(*ssa.Extract); ok && ex.Index == 0 {
									listing = ex
								}
							}
						}
					}
				}
				whole, why := listing != nil, "the directory listing was not found"
				if listing != nil {
					nIdx := 0
					for _, r := range *listing.Referrers() {
						switch x := r.(type) {
						case *ssa.Slice:
							whole, why = false, "the loop runs over a sub-slice of the listing ("+describe(x)+")"
						case *ssa.IndexAddr:
							nIdx++
							// index = rangeindex φ (+1) starting at 0, bound = len(listing)
							okIdx := false
							if bo, ok := x.Index.(*ssa.BinOp); ok && bo.Op == token.ADD {
								if ph, ok := bo.X.(*ssa.Phi); ok {
									if one, ok := constInt(bo.Y); ok && one == 1 {
										for _, e := range ph.Edges {
											if v, ok := constInt(e); ok && v == -1 {
												okIdx = true
											}
										}
									}
								}
								for _, r2 := range *bo.Referrers() {
									if cmp, ok := r2.(*ssa.BinOp); ok && cmp.Op == token.LSS && cmp.X == ssa.Value(bo) {
										if describe(cmp.Y) != "builtin:len("+describe(listing)+")" {
											okIdx = false
											why = "the loop bound is " + describe(cmp.Y) + ", not the length of the listing"
										}
									}
								}
							} else if ph, ok := x.Index.(*ssa.Phi); ok {
								for _, e := range ph.Edges {
									if v, ok := constInt(e); ok && v == 0 {
										okIdx = true
									}
								}
								for _, r2 := range *ph.Referrers() {
									if cmp, ok := r2.(*ssa.BinOp); ok && cmp.Op == token.LSS && cmp.X == ssa.Value(ph) {
										if describe(cmp.Y) != "builtin:len("+describe(listing)+")" {
											okIdx = false
											why = "the loop bound is " + describe(cmp.Y) + ", not the length of the listing"
										}
									}
								}
							}
							if !okIdx {
								whole = false
								if why == "the directory listing was not found" {
									why = "the listing is not indexed from its first to its last entry"
								}
							}
						}
					}
					if nIdx == 0 && whole {
						whole, why = false, "no element of the listing is looked at"
					}
				}
				c.Cond(whole, "4/cloexec", "container."+fn.Name()+":whole-listing", p.Pos(fn.Pos()), "the sweep visits every entry of the descriptor listing", "the close-on-exec sweep of the container init does not visit every entry: "+why+" — an inherited descriptor (a host directory, a socket) stays open in every program run in the container")
				n++
			}
			if strings.HasSuffix(callee.Name(), "serve") || reachesCall(callee, 1, func(c2 ssa.CallInstruction) bool {
				_, c3 := calleeOf(c2)
				return c3 != nil && c3.Name() == "handleCmd"
			}) {
				serve = ci
			}
		}
		c.Cond(all != nil && serve != nil && before(all, serve), "4/cloexec", "container.Init:before-serve", p.Pos(init.Pos()), "descriptors are marked before the first command is served", "the container init serves commands before marking its descriptors close-on-exec")
		n++
	}
	// unixsocket.NewSocket marks its descriptor
	if ns := p.Func("pkg/unixsocket", "NewSocket"); ns != nil {
		ok := false
		for _, ci := range callInstrs(ns) {
			if nm, _ := calleeOf(ci); nm == "syscall.CloseOnExec" {
				if _, isParam := ci.Common().Args[0].(*ssa.Parameter); isParam && len(extraConds(controlDeps(ns), ci.Block())) == 0 {
					ok = true
				}
			}
		}
		c.Cond(ok, "4/cloexec", "pkg/unixsocket.NewSocket", p.Pos(ns.Pos()), "wrapped socket descriptor is close-on-exec", "NewSocket does not mark the descriptor close-on-exec")
		n++
	}
	// host Open: CloseOnExec on each received descriptor before wrapping it
	if op := p.Func("container", "container.Open"); op != nil {
		var mark, wrap ssa.CallInstruction
		for _, ci := range callInstrs(op) {
			nm, _ := calleeOf(ci)
			if nm == "syscall.CloseOnExec" {
				mark = ci
			}
			if nm == "os.NewFile" {
				wrap = ci
			}
		}
		ok := mark != nil && wrap != nil && dominatesInstr(mark, wrap) && stripConv(wrap.Common().Args[0]) == stripConv(mark.Common().Args[0])
		c.Cond(ok, "4/cloexec", "container.Open:received-fds", p.Pos(op.Pos()), "each received descriptor is marked close-on-exec before it is wrapped", "a received descriptor is wrapped without being marked close-on-exec")
		n++
	}
	c.Expect("4/cloexec", 8)
	_ = n
}

func marksCloexecAll(fn *ssa.Function) bool {
	for _, ci := range callInstrs(fn) {
		if nm, _ := calleeOf(ci); nm == "syscall.CloseOnExec" {
			return inLoop(ci.Block()) && len(extraConds(controlDeps(fn), ci.Block())) == 0
		}
	}
	return false
}

func readsProcSelfFd(fn *ssa.Function) bool {
	for _, ci := range callInstrs(fn) {
		for _, a := range ci.Common().Args {
			if s, ok := constString(a); ok && s == "/proc/self/fd" {
				return true
			}
		}
	}
	return false
}
