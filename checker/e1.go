package main

// E1 — launch-sequence analyser. Turns the forked child's code (the function
// called by (*forkexec.Runner).Start that issues the clone) into a list of raw
// syscall events, each with (a) the boolean guard under which it executes on
// the success path, as a formula over configuration atoms and data atoms,
// computed from control dependences with failure edges removed, (b) its
// constant / access-path argument descriptors, (c) the disposition of its
// failure edge. Obligations over all 2^k configurations are then decided by
// exhaustive truth-table enumeration of the atoms a formula mentions.

import (
	"fmt"
	"go/ast"
	"go/constant"
	"go/token"
	"go/types"
	"sort"
	"strings"

	"golang.org/x/tools/go/ssa"
)

type e1Event struct {
	Call     *ssa.Call
	Nr       int64
	Name     string
	Args     []ssa.Value // syscall arguments (after the number)
	Block    *ssa.BasicBlock
	Guard    *Form
	InLoop   bool
	Checked  bool   // some failure edge tests this call's results
	FailLoc  string // name of the ErrorLocation constant passed on the failure edge
	FailLocV int64
	FailIdx  string // index argument (for the WithIndex variant), "" otherwise
	Site     string // stable-ish key: name#ordinal among same-name events in program order
	// At is the instruction of the child function at which the event happens: the raw syscall itself, or — for an
	// event inside a helper the child calls — the call of that helper. Seq orders the events of one helper call.
	At    ssa.Instruction
	Seq   int
	Via   *ssa.Function // the helper, nil for direct events
	inner *Form         // guard inside the helper (atoms prefixed with the helper's name)
}

// evBeforeE1: program order of two events of the launch sequence.
func evBeforeE1(a, b *e1Event) bool {
	if a.At != b.At {
		return before(a.At, b.At)
	}
	return a.Seq < b.Seq
}

func (e *e1Event) arg(i int) ssa.Value {
	if i < len(e.Args) {
		return e.Args[i]
	}
	return nil
}

func (e *e1Event) argInt(i int) (int64, bool) {
	if a := e.arg(i); a != nil {
		return constInt(a)
	}
	return 0, false
}

func (e *e1Event) argDesc(i int) string {
	if a := e.arg(i); a != nil {
		return describe(a)
	}
	return ""
}

type e1Result struct {
	p        *Prog
	Start    *ssa.Function
	Child    *ssa.Function
	Parent   *ssa.Function // syncWithChild role
	ExitFns  map[*ssa.Function]bool
	Events   []*e1Event
	ByName   map[string][]*e1Event
	Atoms    map[string]string // atom -> kind (config|data)
	R        string            // name of the *Runner parameter
	ParamOf  map[string]string // role (WorkDir, HostName, DomainName, PivotRoot) -> parameter name in Child
	cd       *cdInfo
	failBlk  map[*ssa.BasicBlock]*ssa.Call
	Stores   []*ssa.Store
	LocNames map[int64]string
	sysnames map[int64]string
	Problems []string
}

func isRawSyscallName(n string) bool {
	return n == "syscall.RawSyscall" || n == "syscall.RawSyscall6" || strings.HasSuffix(n, "/vfork.RawVforkSyscall")
}

// buildE1 resolves roles and extracts events.
func buildE1(p *Prog) (*e1Result, error) {
	r := &e1Result{p: p, ByName: map[string][]*e1Event{}, Atoms: map[string]string{}, ParamOf: map[string]string{},
		ExitFns: map[*ssa.Function]bool{}, failBlk: map[*ssa.BasicBlock]*ssa.Call{}, LocNames: map[int64]string{}}
	r.sysnames = p.SyscallNames()
	r.Start = p.Func("pkg/forkexec", "Runner.Start")
	if r.Start == nil {
		return nil, fmt.Errorf("(*forkexec.Runner).Start not found")
	}
	// child role: callee of Start that calls RawVforkSyscall
	for _, ci := range callInstrs(r.Start) {
		_, callee := calleeOf(ci)
		if callee == nil || !inModule(callee) {
			continue
		}
		isChild := false
		for _, c2 := range callInstrs(callee) {
			n, _ := calleeOf(c2)
			if strings.HasSuffix(n, "/vfork.RawVforkSyscall") {
				isChild = true
			}
		}
		if isChild {
			r.Child = callee
			// map roles to parameters: argument k of this call is the result of a helper applied to r.<Field>
			for k, a := range ci.Common().Args {
				// which field of the Runner this argument was converted from (directly, or through a helper that
				// prepares several of them and returns them together)
				fields := runnerFieldsOf(a, 0)
				if len(fields) == 1 && k < len(callee.Params) {
					if _, isRunner := a.(*ssa.Parameter); !isRunner {
						r.ParamOf[fields[0]] = callee.Params[k].Name()
					}
				}
			}
		}
	}
	if r.Child == nil {
		return nil, fmt.Errorf("cannot resolve the function called by Start that issues the clone")
	}
	r.R = r.Child.Params[0].Name()
	// parent role: the function whose call result Start returns
	for _, ci := range callInstrs(r.Start) {
		_, callee := calleeOf(ci)
		if callee != nil && inModule(callee) && callee != r.Child && callee.Signature.Results().Len() == 2 && callee.Signature.Params().Len() >= 3 {
			r.Parent = callee
		}
	}
	// exit functions: module functions called from Child with no Return instruction that issue SYS_EXIT
	exitNr := p.Sys("SYS_EXIT")
	for _, ci := range callInstrsDeep(r.Child, 2) {
		_, callee := calleeOf(ci)
		if callee == nil || !inModule(callee) || callee.Blocks == nil {
			continue
		}
		hasRet, hasExit := false, false
		for _, b := range callee.Blocks {
			for _, in := range b.Instrs {
				if isReturnOrPanic(in) {
					hasRet = true
				}
				if c, ok := in.(*ssa.Call); ok {
					if n, _ := calleeOf(c); isRawSyscallName(n) {
						if v, ok := constInt(c.Call.Args[0]); ok && v == exitNr {
							hasExit = true
						}
					}
				}
			}
		}
		if !hasRet && hasExit {
			r.ExitFns[callee] = true
		}
	}
	// a function every path of which ends in a call of an exit function does not return either
	for changed := true; changed; {
		changed = false
		for _, ci := range callInstrsDeep(r.Child, 2) {
			_, callee := calleeOf(ci)
			if callee == nil || !inModule(callee) || callee.Blocks == nil || r.ExitFns[callee] {
				continue
			}
			callsExit := false
			isExitCall := func(in ssa.Instruction) bool {
				if c2, ok := in.(ssa.CallInstruction); ok {
					if _, c3 := calleeOf(c2); c3 != nil && r.ExitFns[c3] {
						return true
					}
				}
				return false
			}
			for _, c2 := range callInstrs(callee) {
				if isExitCall(c2) {
					callsExit = true
				}
			}
			if !callsExit {
				continue
			}
			if returns, _ := (pathQuery{fn: callee, target: isReturnOrPanic, stop: isExitCall}).find(); !returns {
				r.ExitFns[callee] = true
				changed = true
			}
		}
	}
	if len(r.ExitFns) == 0 {
		return nil, fmt.Errorf("no no-return child exit function found (a function called from the child whose every path ends in a SYS_EXIT loop)")
	}
	// ErrorLocation constants
	if pk := p.Pkg("pkg/forkexec"); pk != nil {
		sc := pk.Types.Scope()
		for _, n := range sc.Names() {
			if c, ok := sc.Lookup(n).(*types.Const); ok && strings.HasSuffix(c.Type().String(), "forkexec.ErrorLocation") {
				if v, ok := constant.Int64Val(c.Val()); ok {
					r.LocNames[v] = n
				}
			}
		}
	}
	r.extract()
	return r, nil
}

func (r *e1Result) extract() {
	fn := r.Child
	// events in block order
	var events []*e1Event
	execNrs := map[int64]bool{r.p.Unix("SYS_EXECVE"): true, r.p.Unix("SYS_EXECVEAT"): true}
	var execBlocks []*ssa.BasicBlock
	for _, b := range fn.Blocks {
		for _, in := range b.Instrs {
			c, ok := in.(*ssa.Call)
			if !ok {
				if st, ok := in.(*ssa.Store); ok {
					r.Stores = append(r.Stores, st)
				}
				continue
			}
			n, callee := calleeOf(c)
			if callee != nil && r.ExitFns[callee] {
				if _, dup := r.failBlk[b]; !dup {
					r.failBlk[b] = c
				}
				continue
			}
			if !isRawSyscallName(n) {
				// a helper of the package that issues raw system calls: its events happen here
				if callee != nil && inModule(callee) && callee.Pkg == fn.Pkg && len(callee.Blocks) > 0 && !strings.HasSuffix(n, "/vfork.RawVforkSyscall") {
					hev := r.helperEvents(callee, c, b)
					for _, he := range hev {
						if execNrs[he.Nr] {
							execBlocks = append(execBlocks, b)
						}
					}
					events = append(events, hev...)
				}
				continue
			}
			ev := &e1Event{Call: c, Block: b, At: c}
			if v, ok := constInt(c.Call.Args[0]); ok {
				ev.Nr = v
				ev.Name = r.sysnames[v]
				if ev.Name == "" {
					ev.Name = fmt.Sprintf("sys_%d", v)
				}
			} else {
				ev.Nr = -1
				ev.Name = "sys_?"
				r.Problems = append(r.Problems, "syscall number is not a constant at "+r.p.Pos(c.Pos()))
			}
			ev.Args = c.Call.Args[1:]
			if execNrs[ev.Nr] {
				execBlocks = append(execBlocks, b)
			}
			events = append(events, ev)
		}
	}
	// the post-exec exit block is not a failure edge
	for b := range r.failBlk {
		for _, eb := range execBlocks {
			if eb == b || fwdReach(eb, b) {
				delete(r.failBlk, b)
				break
			}
		}
	}
	// control dependences with failure edges removed
	r.cd = controlDepsFiltered(fn, func(from, to *ssa.BasicBlock) bool {
		_, isFail := r.failBlk[to]
		return isFail
	}, func(b *ssa.BasicBlock) bool {
		_, isFail := r.failBlk[b]
		return isFail
	})
	// child-side atoms: Ifs comparing phis/extracts of the clone call
	childAtoms := map[string]bool{}
	for _, b := range fn.Blocks {
		if iff := blockIf(b); iff != nil {
			if dependsOnClone(iff.Cond, 0) {
				a, _ := condLit(iff.Cond)
				childAtoms[a] = true
			}
		}
	}
	memo := map[*ssa.BasicBlock]*Form{}
	ord := map[string]int{}
	for _, ev := range events {
		g := r.cd.guardOfM(ev.Block, memo, map[*ssa.BasicBlock]bool{})
		// child side only
		isChild := false
		for _, a := range Support(g) {
			if childAtoms[a] {
				isChild = true
			}
		}
		if !isChild {
			continue // parent side (the clone itself)
		}
		ev.Guard = substTrue(g, childAtoms)
		if ev.inner != nil {
			ev.Guard = fAnd(ev.Guard, ev.inner)
		}
		for _, a := range Support(ev.Guard) {
			if _, ok := r.Atoms[a]; !ok {
				r.Atoms[a] = "data"
			}
		}
		ev.InLoop = ev.InLoop || inLoop(ev.Block)
		ord[ev.Name]++
		ev.Site = fmt.Sprintf("%s#%d", ev.Name, ord[ev.Name])
		if ev.Via == nil {
			r.failureEdge(ev)
		}
		r.Events = append(r.Events, ev)
		r.ByName[ev.Name] = append(r.ByName[ev.Name], ev)
	}
	// classify atoms
	for _, b := range fn.Blocks {
		if iff := blockIf(b); iff != nil {
			a, _ := condLit(iff.Cond)
			if _, used := r.Atoms[a]; used {
				if isConfigValue(iff.Cond, fn) {
					r.Atoms[a] = "config"
				}
			}
		}
	}
}

// dependsOnClone: v is (a comparison of) the result of RawVforkSyscall, possibly through phis.
func dependsOnClone(v ssa.Value, d int) bool {
	if d > 6 {
		return false
	}
	switch x := v.(type) {
	case *ssa.BinOp:
		return dependsOnClone(x.X, d+1) || dependsOnClone(x.Y, d+1)
	case *ssa.Phi:
		any := false
		for _, e := range x.Edges {
			if !dependsOnClone(e, d+1) {
				return false
			}
			any = true
		}
		return any
	case *ssa.Extract:
		if c, ok := x.Tuple.(*ssa.Call); ok {
			n, _ := calleeOf(c)
			return strings.HasSuffix(n, "/vfork.RawVforkSyscall")
		}
	case *ssa.Convert:
		return dependsOnClone(x.X, d+1)
	}
	return false
}

// isConfigValue: built only from the Runner parameter's fields, pointer
// parameters, constants and len().
func isConfigValue(v ssa.Value, fn *ssa.Function) bool {
	switch x := v.(type) {
	case *ssa.Const:
		return true
	case *ssa.Parameter:
		return true
	case *ssa.BinOp:
		return isConfigValue(x.X, fn) && isConfigValue(x.Y, fn)
	case *ssa.UnOp:
		if x.Op == token.MUL {
			return isConfigAddr(x.X, fn)
		}
		return isConfigValue(x.X, fn)
	case *ssa.Convert:
		return isConfigValue(x.X, fn)
	case *ssa.ChangeType:
		return isConfigValue(x.X, fn)
	case *ssa.Call:
		if b, ok := x.Call.Value.(*ssa.Builtin); ok && b.Name() == "len" {
			return isConfigValue(x.Call.Args[0], fn)
		}
	}
	return false
}

func isConfigAddr(v ssa.Value, fn *ssa.Function) bool {
	switch x := v.(type) {
	case *ssa.FieldAddr:
		if _, ok := x.X.(*ssa.Parameter); ok {
			return true
		}
		// r.Credential.Gid: field of a loaded pointer field
		if u, ok := x.X.(*ssa.UnOp); ok && u.Op == token.MUL {
			return isConfigAddr(u.X, fn)
		}
		return isConfigAddr(x.X, fn)
	case *ssa.Parameter:
		return true
	}
	return false
}

func inLoop(b *ssa.BasicBlock) bool {
	// b is in a loop iff b can reach itself
	seen := map[*ssa.BasicBlock]bool{}
	st := append([]*ssa.BasicBlock(nil), b.Succs...)
	for len(st) > 0 {
		x := st[len(st)-1]
		st = st[:len(st)-1]
		if x == b {
			return true
		}
		if seen[x] {
			continue
		}
		seen[x] = true
		st = append(st, x.Succs...)
	}
	return false
}

func substTrue(f *Form, atoms map[string]bool) *Form {
	switch f.Op {
	case 'L':
		if atoms[f.Atom] {
			return fTrue
		}
		return f
	case '!':
		return fNot(substTrue(f.Kids[0], atoms))
	case '&':
		var ks []*Form
		for _, k := range f.Kids {
			ks = append(ks, substTrue(k, atoms))
		}
		return fAnd(ks...)
	case '|':
		var ks []*Form
		for _, k := range f.Kids {
			ks = append(ks, substTrue(k, atoms))
		}
		return fOr(ks...)
	}
	return f
}

// failureEdge finds the failure disposition of an event: a failure block
// reachable from the event's block through Ifs that test this call's results.
func (r *e1Result) failureEdge(ev *e1Event) {
	uses := map[ssa.Value]bool{ev.Call: true}
	// transitive closure of values derived from the call (extracts, converts, comparisons, phis of err)
	for changed := true; changed; {
		changed = false
		for v := range uses {
			if refs := v.Referrers(); refs != nil {
				for _, ref := range *refs {
					if rv, ok := ref.(ssa.Value); ok && !uses[rv] {
						switch rv.(type) {
						case *ssa.Extract, *ssa.Convert, *ssa.BinOp, *ssa.ChangeType:
							uses[rv] = true
							changed = true
						}
					}
				}
			}
		}
	}
	// BFS over blocks from ev.Block following only Ifs whose cond is in uses
	seen := map[*ssa.BasicBlock]bool{ev.Block: true}
	q := []*ssa.BasicBlock{ev.Block}
	for steps := 0; len(q) > 0 && steps < 8; steps++ {
		b := q[0]
		q = q[1:]
		iff := blockIf(b)
		if iff == nil || !uses[iff.Cond] {
			if b != ev.Block {
				continue
			}
			if iff == nil {
				// straight-line successor (e.g. call then jump)
				if len(b.Succs) == 1 && !seen[b.Succs[0]] {
					seen[b.Succs[0]] = true
					q = append(q, b.Succs[0])
				}
				continue
			}
			continue
		}
		for _, s := range b.Succs {
			if fc, ok := r.failBlk[s]; ok {
				ev.Checked = true
				if len(fc.Call.Args) >= 2 {
					if v, ok := constInt(fc.Call.Args[1]); ok {
						ev.FailLocV = v
						ev.FailLoc = r.LocNames[v]
						if ev.FailLoc == "" {
							ev.FailLoc = fmt.Sprintf("ErrorLocation(%d)", v)
						}
					} else {
						ev.FailLoc = "?" + describe(fc.Call.Args[1])
					}
				}
				if len(fc.Call.Args) >= 4 {
					ev.FailIdx = describe(fc.Call.Args[2])
				}
				return
			}
			if !seen[s] {
				seen[s] = true
				q = append(q, s)
			}
		}
	}
}

// ---------- control dependence with an edge filter ----------

func controlDepsFiltered(fn *ssa.Function, dropEdge func(from, to *ssa.BasicBlock) bool, forceExit func(b *ssa.BasicBlock) bool) *cdInfo {
	// build a shadow function graph: we reuse controlDeps' algorithm on filtered successor lists
	n := len(fn.Blocks)
	exit := n
	preds := make([][]int, n+1)
	succs := make([][]int, n+1)
	succIdx := make([][]int, n+1) // original successor index
	for _, b := range fn.Blocks {
		if forceExit(b) {
			continue
		}
		for k, s := range b.Succs {
			if dropEdge(b, s) {
				continue
			}
			succs[b.Index] = append(succs[b.Index], s.Index)
			succIdx[b.Index] = append(succIdx[b.Index], k)
			preds[s.Index] = append(preds[s.Index], b.Index)
		}
	}
	for _, b := range fn.Blocks {
		if len(succs[b.Index]) == 0 {
			succs[b.Index] = append(succs[b.Index], exit)
			succIdx[b.Index] = append(succIdx[b.Index], -1)
			preds[exit] = append(preds[exit], b.Index)
		}
	}
	canExit := make([]bool, n+1)
	st := []int{exit}
	canExit[exit] = true
	for len(st) > 0 {
		x := st[len(st)-1]
		st = st[:len(st)-1]
		for _, p := range preds[x] {
			if !canExit[p] {
				canExit[p] = true
				st = append(st, p)
			}
		}
	}
	for i := 0; i < n; i++ {
		if !canExit[i] {
			succs[i] = append(succs[i], exit)
			succIdx[i] = append(succIdx[i], -1)
			preds[exit] = append(preds[exit], i)
		}
	}
	order := []int{}
	seen := make([]bool, n+1)
	var dfs func(int)
	dfs = func(x int) {
		seen[x] = true
		for _, p := range preds[x] {
			if !seen[p] {
				dfs(p)
			}
		}
		order = append(order, x)
	}
	dfs(exit)
	for i, j := 0, len(order)-1; i < j; i, j = i+1, j-1 {
		order[i], order[j] = order[j], order[i]
	}
	rpo := make([]int, n+1)
	for i := range rpo {
		rpo[i] = -1
	}
	for i, x := range order {
		rpo[x] = i
	}
	idom := make([]int, n+1)
	for i := range idom {
		idom[i] = -1
	}
	idom[exit] = exit
	intersect := func(a, b int) int {
		for a != b {
			for rpo[a] > rpo[b] {
				a = idom[a]
			}
			for rpo[b] > rpo[a] {
				b = idom[b]
			}
		}
		return a
	}
	for changed := true; changed; {
		changed = false
		for _, x := range order {
			if x == exit {
				continue
			}
			ni := -1
			for _, s := range succs[x] {
				if idom[s] == -1 {
					continue
				}
				if ni == -1 {
					ni = s
				} else {
					ni = intersect(ni, s)
				}
			}
			if ni != -1 && idom[x] != ni {
				idom[x] = ni
				changed = true
			}
		}
	}
	info := &cdInfo{fn: fn, ipdom: map[*ssa.BasicBlock]*ssa.BasicBlock{}, cd: map[*ssa.BasicBlock][]cdEdge{}}
	for _, b := range fn.Blocks {
		if idom[b.Index] >= 0 && idom[b.Index] < n {
			info.ipdom[b] = fn.Blocks[idom[b.Index]]
		}
	}
	for _, a := range fn.Blocks {
		if len(succs[a.Index]) < 2 {
			continue
		}
		for j, s := range succs[a.Index] {
			k := succIdx[a.Index][j]
			if k < 0 {
				continue
			}
			stop := idom[a.Index]
			for x := s; x != stop && x != exit && x >= 0; x = idom[x] {
				info.cd[fn.Blocks[x]] = append(info.cd[fn.Blocks[x]], cdEdge{a, k})
				if idom[x] == x {
					break
				}
			}
		}
	}
	return info
}

// ---------- formula helpers over events ----------

func guardsOf(evs []*e1Event) []*Form {
	var gs []*Form
	for _, e := range evs {
		gs = append(gs, e.Guard)
	}
	return gs
}

func exactlyOne(gs []*Form) *Form {
	var alts []*Form
	for i := range gs {
		cs := []*Form{gs[i]}
		for j := range gs {
			if j != i {
				cs = append(cs, fNot(gs[j]))
			}
		}
		alts = append(alts, fAnd(cs...))
	}
	return fOr(alts...)
}

func noneOf(gs []*Form) *Form {
	var cs []*Form
	for _, g := range gs {
		cs = append(cs, fNot(g))
	}
	return fAnd(cs...)
}

func anyOf(gs []*Form) *Form { return fOr(gs...) }

// atom helpers: names are built from the actual parameter names.
func (r *e1Result) A(field string) *Form     { return fLit(r.R + "." + field) }             // boolean field
func (r *e1Result) NilF(field string) *Form  { return fLit(r.R + "." + field + " == nil") } // pointer/func/slice field == nil
func (r *e1Result) ZeroF(field string) *Form { return fLit(r.R + "." + field + " == 0") }
func (r *e1Result) FlagSet(name string) *Form {
	v := r.p.Unix(name)
	return fLit(fmt.Sprintf("(%s.CloneFlags & %#x) == %#x", r.R, v, v))
}
func (r *e1Result) ParamNil(role string) *Form {
	n, ok := r.ParamOf[role]
	if !ok {
		n = "?" + role
	}
	return fLit(n + " == nil")
}

// ---------- globals' initialisers from syntax ----------

// globalBytes returns the string content of a package-level []byte("...") variable.
func globalBytes(p *Prog, g *ssa.Global) (string, bool) {
	spec, pk := globalSpec(p, g)
	if spec == nil {
		return "", false
	}
	for i, n := range spec.Names {
		if n.Name != g.Name() || i >= len(spec.Values) {
			continue
		}
		if call, ok := spec.Values[i].(*ast.CallExpr); ok && len(call.Args) == 1 {
			if tv, ok := pk.TypesInfo.Types[call.Args[0]]; ok && tv.Value != nil && tv.Value.Kind() == constant.String {
				return constant.StringVal(tv.Value), true
			}
		}
	}
	return "", false
}

// globalStructConsts returns field -> constant for a package-level composite literal.
func globalStructConsts(p *Prog, g *ssa.Global) (map[string]constant.Value, bool) {
	spec, pk := globalSpec(p, g)
	if spec == nil {
		return nil, false
	}
	for i, n := range spec.Names {
		if n.Name != g.Name() || i >= len(spec.Values) {
			continue
		}
		cl, ok := spec.Values[i].(*ast.CompositeLit)
		if !ok {
			return nil, false
		}
		out := map[string]constant.Value{}
		for _, el := range cl.Elts {
			kv, ok := el.(*ast.KeyValueExpr)
			if !ok {
				return nil, false
			}
			k, ok := kv.Key.(*ast.Ident)
			if !ok {
				return nil, false
			}
			tv := pk.TypesInfo.Types[kv.Value]
			if tv.Value == nil {
				return nil, false
			}
			out[k.Name] = tv.Value
		}
		return out, true
	}
	return nil, false
}

func globalSpec(p *Prog, g *ssa.Global) (*ast.ValueSpec, *pkgT) {
	pk := p.All[g.Pkg.Pkg.Path()]
	if pk == nil {
		return nil, nil
	}
	for _, f := range pk.Syntax {
		for _, d := range f.Decls {
			gd, ok := d.(*ast.GenDecl)
			if !ok || gd.Tok != token.VAR {
				continue
			}
			for _, s := range gd.Specs {
				vs := s.(*ast.ValueSpec)
				for _, n := range vs.Names {
					if n.Name == g.Name() {
						return vs, pk
					}
				}
			}
		}
	}
	return nil, nil
}

// globalOf resolves &global or &global[0] (after conversions) to the global.
func globalOf(v ssa.Value) *ssa.Global {
	v = stripConv(v)
	switch x := v.(type) {
	case *ssa.Global:
		return x
	case *ssa.IndexAddr:
		if u, ok := x.X.(*ssa.UnOp); ok && u.Op == token.MUL {
			if g, ok := u.X.(*ssa.Global); ok {
				return g
			}
		}
		if g, ok := x.X.(*ssa.Global); ok {
			return g
		}
	case *ssa.UnOp:
		if x.Op == token.MUL {
			if g, ok := x.X.(*ssa.Global); ok {
				return g
			}
		}
	}
	return nil
}

// cstrArg: the argument is the address of a package-level NUL-terminated byte string; returns its content without the NUL.
func (r *e1Result) cstrArg(v ssa.Value) (string, bool) {
	g := globalOf(v)
	if g == nil {
		return "", false
	}
	s, ok := globalBytes(r.p, g)
	if !ok {
		return "", false
	}
	return strings.TrimSuffix(s, "\x00"), true
}

func (r *e1Result) eventList() []string {
	var out []string
	for _, e := range r.Events {
		var as []string
		for _, a := range e.Args {
			as = append(as, describe(a))
		}
		s := fmt.Sprintf("%s(%s) when %s", e.Name, strings.Join(as, ", "), e.Guard)
		if e.Checked {
			s += " !→ " + e.FailLoc
		} else {
			s += " (result unchecked)"
		}
		out = append(out, s)
	}
	return out
}

func sortedAtoms(m map[string]string, kind string) []string {
	var out []string
	for a, k := range m {
		if k == kind {
			out = append(out, a)
		}
	}
	sort.Strings(out)
	return out
}

// helperEvents extracts the raw system calls of a helper function called by the
// child at `site` (in block b of the child). Arguments that are parameters of
// the helper are replaced by the values passed at the call; conditions inside
// the helper become atoms prefixed with its name; failure edges are those of
// the helper (calls of the no-return exit functions), with a location passed
// through a parameter resolved at the call.
func (r *e1Result) helperEvents(h *ssa.Function, site *ssa.Call, b *ssa.BasicBlock) []*e1Event {
	subst := func(v ssa.Value) ssa.Value {
		if pr, ok := stripConv(v).(*ssa.Parameter); ok && pr.Parent() == h {
			for i, hp := range h.Params {
				if hp == pr && i < len(site.Call.Args) {
					return site.Call.Args[i]
				}
			}
		}
		return v
	}
	failBlk := map[*ssa.BasicBlock]*ssa.Call{}
	var evs []*e1Event
	for _, hb := range h.Blocks {
		for _, in := range hb.Instrs {
			c, ok := in.(*ssa.Call)
			if !ok {
				continue
			}
			n, callee := calleeOf(c)
			if callee != nil && r.ExitFns[callee] {
				if _, dup := failBlk[hb]; !dup {
					failBlk[hb] = c
				}
				continue
			}
			if !isRawSyscallName(n) {
				continue
			}
			ev := &e1Event{Call: c, Block: b, At: site, Via: h, Seq: len(evs)}
			if v, ok := constInt(subst(c.Call.Args[0])); ok {
				ev.Nr = v
				ev.Name = r.sysnames[v]
				if ev.Name == "" {
					ev.Name = fmt.Sprintf("sys_%d", v)
				}
			} else {
				ev.Nr = -1
				ev.Name = "sys_?"
				r.Problems = append(r.Problems, "syscall number is not a constant at "+r.p.Pos(c.Pos()))
			}
			for _, a := range c.Call.Args[1:] {
				ev.Args = append(ev.Args, subst(a))
			}
			ev.InLoop = inLoop(hb)
			evs = append(evs, ev)
		}
	}
	if len(evs) == 0 {
		return nil
	}
	cd := controlDepsFiltered(h, func(from, to *ssa.BasicBlock) bool {
		_, isFail := failBlk[to]
		return isFail
	}, func(bb *ssa.BasicBlock) bool {
		_, isFail := failBlk[bb]
		return isFail
	})
	memo := map[*ssa.BasicBlock]*Form{}
	var prefix func(f *Form) *Form
	prefix = func(f *Form) *Form {
		switch f.Op {
		case 'L':
			return fLit(h.Name() + ":" + f.Atom)
		case '!':
			return fNot(prefix(f.Kids[0]))
		case '&':
			var ks []*Form
			for _, k := range f.Kids {
				ks = append(ks, prefix(k))
			}
			return fAnd(ks...)
		case '|':
			var ks []*Form
			for _, k := range f.Kids {
				ks = append(ks, prefix(k))
			}
			return fOr(ks...)
		}
		return f
	}
	saved := r.failBlk
	for _, ev := range evs {
		ev.inner = prefix(cd.guardOfM(ev.Call.Block(), memo, map[*ssa.BasicBlock]bool{}))
		// failure edge inside the helper
		r.failBlk = failBlk
		inner := &e1Event{Call: ev.Call, Block: ev.Call.Block()}
		r.failureEdge(inner)
		r.failBlk = saved
		ev.Checked = inner.Checked
		ev.FailLoc, ev.FailLocV, ev.FailIdx = inner.FailLoc, inner.FailLocV, inner.FailIdx
		if strings.HasPrefix(ev.FailLoc, "?") {
			// the location is a parameter of the helper: take the value passed at the call
			for bb, fc := range failBlk {
				_ = bb
				if len(fc.Call.Args) >= 2 && "?"+describe(fc.Call.Args[1]) == ev.FailLoc {
					if v, ok := constInt(subst(fc.Call.Args[1])); ok {
						ev.FailLocV = v
						ev.FailLoc = r.LocNames[v]
						if ev.FailLoc == "" {
							ev.FailLoc = fmt.Sprintf("ErrorLocation(%d)", v)
						}
					}
				}
			}
		}
	}
	return evs
}

// runnerFieldsOf traces a value backwards through conversions, tuple extraction, calls (their arguments; for module
// functions with a body, the values they return) and φ-nodes to the fields of a forkexec.Runner it was computed from.
func runnerFieldsOf(v ssa.Value, d int) []string {
	set := map[string]bool{}
	type key struct {
		v   ssa.Value
		ctx *ssa.Call
	}
	seen := map[key]bool{}
	var rec func(v ssa.Value, ctx []*ssa.Call, d int)
	rec = func(v ssa.Value, ctx []*ssa.Call, d int) {
		var top *ssa.Call
		if len(ctx) > 0 {
			top = ctx[len(ctx)-1]
		}
		if v == nil || d > 16 || seen[key{v, top}] {
			return
		}
		seen[key{v, top}] = true
		switch x := v.(type) {
		case *ssa.Parameter:
			// a parameter of the helper we descended into: continue with the argument at the call
			if top != nil && top.Common().StaticCallee() == x.Parent() {
				for i, pr := range x.Parent().Params {
					if pr == x && i < len(top.Call.Args) {
						rec(top.Call.Args[i], ctx[:len(ctx)-1], d+1)
					}
				}
			}
		case *ssa.UnOp:
			if x.Op == token.MUL {
				if fa, ok := x.X.(*ssa.FieldAddr); ok && strings.HasSuffix(derefType(fa.X.Type()).String(), "forkexec.Runner") {
					set[fieldName(fa.X.Type(), fa.Field)] = true
					return
				}
			}
			rec(x.X, ctx, d+1)
		case *ssa.Field:
			if strings.HasSuffix(derefType(x.X.Type()).String(), "forkexec.Runner") {
				set[fieldName(x.X.Type(), x.Field)] = true
			}
		case *ssa.Convert:
			rec(x.X, ctx, d+1)
		case *ssa.ChangeType:
			rec(x.X, ctx, d+1)
		case *ssa.Phi:
			for _, e := range x.Edges {
				rec(e, ctx, d+1)
			}
		case *ssa.Extract:
			if call, ok := x.Tuple.(*ssa.Call); ok {
				if followReturns(call, x.Index, func(r ssa.Value) { rec(r, append(append([]*ssa.Call{}, ctx...), call), d+1) }) {
					return
				}
			}
			rec(x.Tuple, ctx, d+1)
		case *ssa.Call:
			if followReturns(x, 0, func(r ssa.Value) { rec(r, append(append([]*ssa.Call{}, ctx...), x), d+1) }) {
				return
			}
			for _, a := range x.Call.Args {
				rec(a, ctx, d+1)
			}
		}
	}
	rec(v, nil, d)
	var out []string
	for f := range set {
		out = append(out, f)
	}
	sort.Strings(out)
	return out
}

// globalAllZero: the package-level variable is initialised to the zero value of its type: no initialiser, or a
// (possibly nested) composite literal whose leaves are all constant zeros.
func globalAllZero(p *Prog, g *ssa.Global) bool {
	spec, pk := globalSpec(p, g)
	if spec == nil {
		return false
	}
	var zero func(e ast.Expr) bool
	zero = func(e ast.Expr) bool {
		switch x := e.(type) {
		case *ast.CompositeLit:
			for _, el := range x.Elts {
				if kv, ok := el.(*ast.KeyValueExpr); ok {
					el = kv.Value
				}
				if !zero(el) {
					return false
				}
			}
			return true
		case *ast.ParenExpr:
			return zero(x.X)
		}
		tv := pk.TypesInfo.Types[e]
		if tv.Value == nil {
			return false
		}
		switch tv.Value.Kind() {
		case constant.Int, constant.Float:
			return constant.Sign(tv.Value) == 0
		case constant.Bool:
			return !constant.BoolVal(tv.Value)
		case constant.String:
			return constant.StringVal(tv.Value) == ""
		}
		return false
	}
	for i, n := range spec.Names {
		if n.Name != g.Name() {
			continue
		}
		if len(spec.Values) == 0 {
			return true
		}
		if i >= len(spec.Values) {
			return false
		}
		return zero(spec.Values[i])
	}
	return false
}
