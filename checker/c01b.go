package main

// C01, the part of the pipeline that lies in cmd/runprog: the policy the
// command declares is compiled and reaches the runner for every runner kind.

import (
	"fmt"
	"go/constant"
	"sort"
	"strings"

	"golang.org/x/tools/go/ssa"
)

// flagVar returns the package-level variable of pkg registered with the flag
// package under the given flag name (flag.XxxVar(&v, name, …)).
func flagVar(p *Prog, pkgSuffix, flagName string) *ssa.Global {
	var found *ssa.Global
	for _, fn := range p.PkgFuncs(pkgSuffix) {
		for _, ci := range callInstrs(fn) {
			n, _ := calleeOf(ci)
			if !strings.HasPrefix(n, "flag.") || !strings.HasSuffix(n, "Var") {
				continue
			}
			args := ci.Common().Args
			if len(args) < 2 {
				continue
			}
			if s, ok := constString(args[1]); !ok || s != flagName {
				continue
			}
			if g, ok := args[0].(*ssa.Global); ok {
				found = g
			}
		}
	}
	return found
}

// checkRunprogWiring: (a) for every runner kind and without -unsafe, every path of start() that constructs a runner
// stores into its Seccomp field the filter compiled by Builder.Build (never nil, never anything else); (b) the
// Builder's lists are the lists GetConf returned; (c) the switch that admits the process-creation system calls is
// the -allow-proc flag and nothing else.
func checkRunprogWiring(c *Check) {
	p := c.P
	const rule = "7/runprog-wiring"
	start := p.Func("cmd/runprog", "start")
	if start == nil {
		c.Undecided(rule, "cmd/runprog.start", "-", "function not found")
		return
	}
	gUnsafe := flagVar(p, "cmd/runprog", "unsafe")
	gRunner := flagVar(p, "cmd/runprog", "runner")
	gProc := flagVar(p, "cmd/runprog", "allow-proc")
	if gUnsafe == nil || gRunner == nil || gProc == nil {
		c.Undecided(rule, "cmd/runprog:flags", p.Pos(start.Pos()), "the -unsafe, -runner or -allow-proc flag variable was not found")
		return
	}
	// the values that hold a flag inside start(): loads of the flag variable, and parameters of start() that receive
	// such a load at every call site
	flagParam := func(g *ssa.Global) *ssa.Parameter {
		for i, pr := range start.Params {
			sites := staticCallSites(start)
			all := len(sites) > 0
			for _, s := range sites {
				u, ok := s.Common().Args[i].(*ssa.UnOp)
				if !ok || u.X != ssa.Value(g) {
					all = false
				}
			}
			if all {
				return pr
			}
		}
		return nil
	}
	isFlag := func(v ssa.Value, g *ssa.Global) bool {
		if u, ok := v.(*ssa.UnOp); ok && u.X == ssa.Value(g) {
			return true
		}
		if pr, ok := v.(*ssa.Parameter); ok && pr == flagParam(g) && pr != nil {
			return true
		}
		return false
	}
	// runner kinds = the string constants the runner flag is compared with in start()
	kinds := map[string]bool{}
	for _, b := range start.Blocks {
		for _, in := range b.Instrs {
			if bo, ok := in.(*ssa.BinOp); ok {
				for _, pair := range [][2]ssa.Value{{bo.X, bo.Y}, {bo.Y, bo.X}} {
					if isFlag(pair[0], gRunner) {
						if s, ok := constString(pair[1]); ok {
							kinds[s] = true
						}
					}
				}
			}
		}
	}
	var ks []string
	for k := range kinds {
		ks = append(ks, k)
	}
	sort.Strings(ks)
	for _, kind := range ks {
		kind := kind
		stores := map[string]bool{} // outcome → seen
		var where string
		w := &walker{fn: start, Inline: -1, MemoStates: true}
		w.Seed = func(w *walker, st *wstate, v ssa.Value) *absVal {
			if isFlag(v, gUnsafe) {
				return avBool(false)
			}
			if isFlag(v, gRunner) {
				return avC(constant.MakeString(kind))
			}
			if ex, ok := v.(*ssa.Extract); ok && ex.Index == 0 {
				if call, ok := ex.Tuple.(*ssa.Call); ok {
					if n, _ := calleeOf(call); strings.HasSuffix(n, "libseccomp.Builder).Build") {
						return avTag("compiled-filter")
					}
				}
			}
			return nil
		}
		w.OnInstr = func(w *walker, st *wstate, in ssa.Instruction) {
			s, ok := in.(*ssa.Store)
			if !ok {
				return
			}
			fa, ok := s.Addr.(*ssa.FieldAddr)
			if !ok || fieldName(fa.X.Type(), fa.Field) != "Seccomp" {
				return
			}
			v := w.eval(st, s.Val)
			out := v.String()
			if v.k == avSym && v.tag == "compiled-filter" {
				out = "compiled"
			}
			if out != "compiled" && where == "" {
				where = p.Pos(s.Pos())
			}
			stores[out] = true
		}
		w.Run()
		if len(stores) == 0 {
			// the runner is built in a helper of the package: walk again, following helpers (slower)
			w2 := &walker{fn: start, MemoStates: true, Seed: w.Seed, OnInstr: w.OnInstr}
			w2.Run()
			w.Truncated = w2.Truncated
		}
		var outs []string
		for o := range stores {
			outs = append(outs, o)
		}
		sort.Strings(outs)
		pos := where
		if pos == "" {
			pos = p.Pos(start.Pos())
		}
		c.Cond(len(outs) == 1 && outs[0] == "compiled" && !w.Truncated, rule, "cmd/runprog.start:filter-reaches-runner:"+kind, pos,
			"without -unsafe the "+kind+" runner always receives the filter compiled from the declared policy",
			fmt.Sprintf("with -runner %s and without -unsafe the runner's Seccomp field receives %v (want only the result of Builder.Build)", kind, outs))
	}
	c.Cond(len(ks) >= 3, rule, "cmd/runprog.start:runner-kinds", p.Pos(start.Pos()), fmt.Sprintf("runner kinds %v", ks), fmt.Sprintf("only %v runner kinds recognised in start()", ks))

	// (c) the process-creation switch
	if gc := p.Func("cmd/runprog/config", "GetConf"); gc == nil {
		c.Undecided(rule, "cmd/runprog/config.GetConf", "-", "function not found")
	} else {
		cd := controlDeps(gc)
		var switchParams []*ssa.Parameter
		seenSwitch := false
		for _, b := range gc.Blocks {
			for _, in := range b.Instrs {
				call, ok := in.(*ssa.Call)
				if !ok {
					continue
				}
				if bi, ok := call.Call.Value.(*ssa.Builtin); !ok || bi.Name() != "append" || len(call.Call.Args) != 2 {
					continue
				}
				if !strings.Contains(describe(call.Call.Args[1]), "defaultProcSyscalls") {
					continue
				}
				seenSwitch = true
				for _, e := range cdChain(cd, b) {
					iff := blockIf(e.b)
					if iff == nil {
						continue
					}
					if pr, ok := iff.Cond.(*ssa.Parameter); ok {
						switchParams = append(switchParams, pr)
					}
				}
			}
		}
		if !seenSwitch || len(switchParams) != 1 {
			c.Undecided(rule, "cmd/runprog/config.GetConf:proc-switch", p.Pos(gc.Pos()), "the parameter that admits the process-creation system calls could not be identified")
		} else {
			idx := -1
			for i, pr := range gc.Params {
				if pr == switchParams[0] {
					idx = i
				}
			}
			sites := staticCallSites(gc)
			n := 0
			for _, site := range sites {
				if site.Parent() == nil || site.Parent().Pkg == nil || strings.HasSuffix(site.Parent().Pkg.Pkg.Path(), "_test") {
					continue
				}
				n++
				arg := site.Common().Args[idx]
				u, ok := arg.(*ssa.UnOp)
				c.Cond(ok && u.X == gProc, rule, "cmd/runprog/config.GetConf:proc-switch@"+funcName(site.Parent()), p.Pos(site.Pos()),
					"the process-creation system calls are admitted by the -allow-proc flag",
					"the switch that admits fork/clone/execve… receives "+describe(arg)+", not the -allow-proc flag")
			}
			if n == 0 {
				c.Undecided(rule, "cmd/runprog/config.GetConf:callers", p.Pos(gc.Pos()), "no call site found")
			}
		}
	}
}
