package main

// SSA helpers shared by all rules: canonical value descriptions, callee
// resolution, dominance / post-dominance, path queries, transitive call
// summaries.

import (
	"fmt"
	"go/constant"
	"go/token"
	"go/types"
	"sort"
	"strings"

	"golang.org/x/tools/go/ssa"
	"golang.org/x/tools/go/ssa/ssautil"
)

// ---------- constants ----------

func constInt(v ssa.Value) (int64, bool) {
	v = stripConv(v)
	c, ok := v.(*ssa.Const)
	if !ok || c.Value == nil {
		return 0, false
	}
	if c.Value.Kind() != constant.Int {
		return 0, false
	}
	if i, ok := constant.Int64Val(c.Value); ok {
		return i, true
	}
	if u, ok := constant.Uint64Val(c.Value); ok {
		return int64(u), true
	}
	return 0, false
}

func constString(v ssa.Value) (string, bool) {
	c, ok := v.(*ssa.Const)
	if !ok || c.Value == nil || c.Value.Kind() != constant.String {
		return "", false
	}
	return constant.StringVal(c.Value), true
}

func isNilConst(v ssa.Value) bool {
	c, ok := v.(*ssa.Const)
	return ok && c.Value == nil
}

func constBool(v ssa.Value) (bool, bool) {
	c, ok := v.(*ssa.Const)
	if !ok || c.Value == nil || c.Value.Kind() != constant.Bool {
		return false, false
	}
	return constant.BoolVal(c.Value), true
}

// stripConv removes value-preserving conversions (Convert, ChangeType,
// MakeInterface is kept).
func stripConv(v ssa.Value) ssa.Value {
	for {
		switch x := v.(type) {
		case *ssa.Convert:
			v = x.X
		case *ssa.ChangeType:
			v = x.X
		default:
			return v
		}
	}
}

// ---------- canonical description of a value ----------

// describe renders an SSA value as a canonical access path / expression
// string. Loads of the same address expression get the same string.
func describe(v ssa.Value) string { return describeD(v, 0) }

// describeUniquePhi makes φ-nodes render with their unique SSA name (used for decision keys).
var describeUniquePhi bool

// decisionKey: canonical (atom, negated) key of a branch condition with unique φ names.
func decisionKey(cond ssa.Value) (string, bool) {
	describeUniquePhi = true
	defer func() { describeUniquePhi = false }()
	return condLit(cond)
}

func describeD(v ssa.Value, d int) string {
	if d > 12 {
		return "…"
	}
	switch x := v.(type) {
	case nil:
		return "<nil-value>"
	case *ssa.Parameter:
		return x.Name()
	case *ssa.FreeVar:
		return "free:" + x.Name()
	case *ssa.Const:
		if x.Value == nil {
			return "nil"
		}
		if x.Value.Kind() == constant.String {
			return fmt.Sprintf("%q", constant.StringVal(x.Value))
		}
		if i, ok := constInt(x); ok {
			if i > 9 || i < -9 {
				return fmt.Sprintf("%#x", uint64(i))
			}
			return fmt.Sprintf("%d", i)
		}
		return x.Value.ExactString()
	case *ssa.Global:
		return "&" + x.Pkg.Pkg.Name() + "." + x.Name()
	case *ssa.Function:
		return "func:" + x.String()
	case *ssa.Builtin:
		return "builtin:" + x.Name()
	case *ssa.Alloc:
		if x.Comment != "" {
			return "&local:" + x.Comment
		}
		return "&local:" + x.Name()
	case *ssa.FieldAddr:
		return "&" + describeAddrBase(x.X, d+1) + "." + fieldName(x.X.Type(), x.Field)
	case *ssa.Field:
		return describeD(x.X, d+1) + "." + fieldName(x.X.Type(), x.Field)
	case *ssa.IndexAddr:
		return "&" + describeAddrBase(x.X, d+1) + "[" + describeD(x.Index, d+1) + "]"
	case *ssa.Index:
		return describeD(x.X, d+1) + "[" + describeD(x.Index, d+1) + "]"
	case *ssa.Lookup:
		return describeD(x.X, d+1) + "[" + describeD(x.Index, d+1) + "]"
	case *ssa.UnOp:
		switch x.Op {
		case token.MUL:
			s := describeD(x.X, d+1)
			if strings.HasPrefix(s, "&") {
				return s[1:]
			}
			return "*" + s
		case token.NOT:
			return "!" + describeD(x.X, d+1)
		case token.ARROW:
			return "<-" + describeD(x.X, d+1)
		default:
			return x.Op.String() + describeD(x.X, d+1)
		}
	case *ssa.BinOp:
		return "(" + describeD(x.X, d+1) + " " + x.Op.String() + " " + describeD(x.Y, d+1) + ")"
	case *ssa.Convert:
		return describeD(x.X, d+1)
	case *ssa.ChangeType:
		return describeD(x.X, d+1)
	case *ssa.ChangeInterface:
		return describeD(x.X, d+1)
	case *ssa.MakeInterface:
		return describeD(x.X, d+1)
	case *ssa.Slice:
		if a, ok := x.X.(*ssa.Alloc); ok && (a.Comment == "varargs" || a.Comment == "slicelit") && x.Low == nil && x.High == nil {
			if els, ok := arrayLitElems(a); ok {
				var ps []string
				for _, e := range els {
					ps = append(ps, describeD(e, d+1))
				}
				return "[" + strings.Join(ps, ", ") + "]"
			}
		}
		s := describeAddrBase(x.X, d+1) + "["
		if x.Low != nil {
			s += describeD(x.Low, d+1)
		}
		s += ":"
		if x.High != nil {
			s += describeD(x.High, d+1)
		}
		return s + "]"
	case *ssa.Call:
		name, _ := calleeOf(x)
		var as []string
		for _, a := range x.Call.Args {
			as = append(as, describeD(a, d+1))
		}
		if x.Call.IsInvoke() {
			return describeD(x.Call.Value, d+1) + "." + x.Call.Method.Name() + "(" + strings.Join(as, ", ") + ")"
		}
		if name == "dynamic" {
			return describeD(x.Call.Value, d+1) + "(" + strings.Join(as, ", ") + ")"
		}
		return name + "(" + strings.Join(as, ", ") + ")"
	case *ssa.Extract:
		return describeD(x.Tuple, d+1) + "#" + fmt.Sprint(x.Index)
	case *ssa.Phi:
		if describeUniquePhi {
			return "φ:" + x.Comment + "#" + x.Parent().Name() + "." + x.Name()
		}
		if x.Comment != "" {
			return "φ:" + x.Comment
		}
		return "φ:" + x.Name()
	case *ssa.MakeClosure:
		return "closure:" + x.Fn.Name()
	case *ssa.TypeAssert:
		return describeD(x.X, d+1) + ".(" + x.AssertedType.String() + ")"
	case *ssa.MakeSlice:
		return "make(" + x.Type().String() + ", " + describeD(x.Len, d+1) + ")"
	case *ssa.MakeMap:
		return "make(" + x.Type().String() + ")#" + x.Name()
	case *ssa.MakeChan:
		return "make(" + x.Type().String() + ")"
	case *ssa.Next:
		return "next(" + describeD(x.Iter, d+1) + ")"
	case *ssa.Range:
		return "range(" + describeD(x.X, d+1) + ")"
	case *ssa.Select:
		return "select:" + x.Name()
	}
	return fmt.Sprintf("%T:%s", v, v.Name())
}

func describeAddrBase(v ssa.Value, d int) string {
	s := describeD(v, d)
	// pointer to struct held in a parameter or loaded pointer: drop deref noise
	return strings.TrimPrefix(s, "&")
}

func fieldName(t types.Type, i int) string {
	if p, ok := t.Underlying().(*types.Pointer); ok {
		t = p.Elem()
	}
	if st, ok := t.Underlying().(*types.Struct); ok && i < st.NumFields() {
		return st.Field(i).Name()
	}
	return fmt.Sprintf("f%d", i)
}

// fieldVar resolves the *types.Var of a FieldAddr/Field.
func fieldVar(t types.Type, i int) *types.Var {
	if p, ok := t.Underlying().(*types.Pointer); ok {
		t = p.Elem()
	}
	if st, ok := t.Underlying().(*types.Struct); ok && i < st.NumFields() {
		return st.Field(i)
	}
	return nil
}

// ---------- callee resolution ----------

// calleeOf returns a canonical name and (for static calls) the function.
// Names: "pkgpath.Func", "(pkgpath.T).Method" (pointer receivers rendered
// without the star), "invoke:pkgpath.Iface.Method", "builtin:len",
// "dynamic".
func calleeOf(ci ssa.CallInstruction) (string, *ssa.Function) {
	cc := ci.Common()
	if cc.IsInvoke() {
		recv := cc.Value.Type().String()
		return "invoke:" + recv + "." + cc.Method.Name(), nil
	}
	switch f := cc.Value.(type) {
	case *ssa.Function:
		return funcName(f), f
	case *ssa.Builtin:
		return "builtin:" + f.Name(), nil
	case *ssa.MakeClosure:
		if fn, ok := f.Fn.(*ssa.Function); ok {
			return funcName(fn), fn
		}
	}
	return "dynamic", nil
}

// funcName renders pkgpath.Func or (pkgpath.T).Method, closures as parent$N.
func funcName(f *ssa.Function) string {
	if f == nil {
		return "<nil>"
	}
	if f.Parent() != nil {
		return funcName(f.Parent()) + "$" + strings.TrimPrefix(f.Name(), f.Parent().Name()+"$")
	}
	if recv := f.Signature.Recv(); recv != nil {
		t := recv.Type()
		if p, ok := t.(*types.Pointer); ok {
			t = p.Elem()
		}
		return "(" + t.String() + ")." + f.Name()
	}
	if f.Pkg != nil {
		return f.Pkg.Pkg.Path() + "." + f.Name()
	}
	if f.Object() != nil && f.Object().Pkg() != nil {
		return f.Object().Pkg().Path() + "." + f.Name()
	}
	return f.Name()
}

// shortName drops the module prefix for readable keys.
func shortName(f *ssa.Function) string {
	return strings.ReplaceAll(funcName(f), repoModule+"/", "")
}

// callInstrs lists every call-like instruction (Call, Defer, Go) of fn in
// block order.
func callInstrs(fn *ssa.Function) []ssa.CallInstruction {
	var out []ssa.CallInstruction
	for _, b := range fn.Blocks {
		for _, in := range b.Instrs {
			if ci, ok := in.(ssa.CallInstruction); ok {
				out = append(out, ci)
			}
		}
	}
	return out
}

// callInstrsDeep lists the call instructions of fn and of the module functions it
// statically calls (helpers split off the function), up to depth levels down.
// Anonymous functions created in fn are included.
func callInstrsDeep(fn *ssa.Function, depth int) []ssa.CallInstruction {
	var out []ssa.CallInstruction
	seen := map[*ssa.Function]bool{}
	var rec func(f *ssa.Function, d int)
	rec = func(f *ssa.Function, d int) {
		if f == nil || seen[f] || len(f.Blocks) == 0 {
			return
		}
		seen[f] = true
		for _, ci := range callInstrs(f) {
			out = append(out, ci)
			if d > 0 {
				if callee := ci.Common().StaticCallee(); callee != nil && inModule(callee) {
					rec(callee, d-1)
				}
			}
		}
		for _, af := range f.AnonFuncs {
			rec(af, d)
		}
	}
	rec(fn, depth)
	return out
}

// callsTo lists calls in fn whose canonical callee name is in names.
func callsTo(fn *ssa.Function, names ...string) []ssa.CallInstruction {
	set := map[string]bool{}
	for _, n := range names {
		set[n] = true
	}
	var out []ssa.CallInstruction
	for _, ci := range callInstrs(fn) {
		n, _ := calleeOf(ci)
		if set[n] {
			out = append(out, ci)
		}
	}
	return out
}

// anonFuncsOf returns fn and all closures nested in it.
func withClosures(fn *ssa.Function) []*ssa.Function {
	out := []*ssa.Function{fn}
	for _, a := range fn.AnonFuncs {
		out = append(out, withClosures(a)...)
	}
	return out
}

// ---------- transitive summaries ----------

// reachesCall reports whether fn, through static calls into module functions
// (depth-bounded), contains a call instruction satisfying pred.
func reachesCall(fn *ssa.Function, depth int, pred func(ssa.CallInstruction) bool) bool {
	return reachesCallM(fn, depth, pred, map[*ssa.Function]bool{})
}

func reachesCallM(fn *ssa.Function, depth int, pred func(ssa.CallInstruction) bool, seen map[*ssa.Function]bool) bool {
	if fn == nil || fn.Blocks == nil || seen[fn] {
		return false
	}
	seen[fn] = true
	for _, ci := range callInstrs(fn) {
		if pred(ci) {
			return true
		}
		if depth > 0 {
			if _, callee := calleeOf(ci); callee != nil && inModule(callee) {
				if reachesCallM(callee, depth-1, pred, seen) {
					return true
				}
			}
		}
	}
	return false
}

func inModule(f *ssa.Function) bool {
	for f.Parent() != nil {
		f = f.Parent()
	}
	return f.Pkg != nil && strings.HasPrefix(f.Pkg.Pkg.Path(), repoModule)
}

func nameIs(names ...string) func(ssa.CallInstruction) bool {
	set := map[string]bool{}
	for _, n := range names {
		set[n] = true
	}
	return func(ci ssa.CallInstruction) bool {
		n, _ := calleeOf(ci)
		return set[n]
	}
}

// instrReaches: the instruction is a call (or defer/go) that satisfies pred
// directly or whose static callee (module function or closure) reaches one.
func instrReaches(in ssa.Instruction, depth int, pred func(ssa.CallInstruction) bool) bool {
	ci, ok := in.(ssa.CallInstruction)
	if !ok {
		return false
	}
	if pred(ci) {
		return true
	}
	if _, callee := calleeOf(ci); callee != nil && inModule(callee) {
		return reachesCall(callee, depth, pred)
	}
	return false
}

// ---------- CFG utilities ----------

type instrPos struct {
	b *ssa.BasicBlock
	i int
}

func posOf(in ssa.Instruction) instrPos {
	b := in.Block()
	for i, x := range b.Instrs {
		if x == in {
			return instrPos{b, i}
		}
	}
	return instrPos{b, -1}
}

// isExitBlock: block ends in Return or Panic.
func isExitBlock(b *ssa.BasicBlock) bool {
	if len(b.Instrs) == 0 {
		return false
	}
	switch b.Instrs[len(b.Instrs)-1].(type) {
	case *ssa.Return, *ssa.Panic:
		return true
	}
	return false
}

// pathQuery searches for a path starting right after instruction `from` (or
// at the function entry if from is nil) that reaches an instruction
// satisfying target without first passing an instruction satisfying stop.
// edgeOK (optional) filters CFG edges (block, successor index). It returns
// the witness trail of instructions' positions if such a path exists.
type pathQuery struct {
	fn     *ssa.Function
	from   ssa.Instruction
	target func(ssa.Instruction) bool
	stop   func(ssa.Instruction) bool
	edgeOK func(b *ssa.BasicBlock, succ int) bool
}

func (q pathQuery) find() (bool, []*ssa.BasicBlock) {
	type node struct {
		b     *ssa.BasicBlock
		start int
	}
	var startB *ssa.BasicBlock
	startI := 0
	if q.from != nil {
		p := posOf(q.from)
		startB, startI = p.b, p.i+1
	} else {
		if len(q.fn.Blocks) == 0 {
			return false, nil
		}
		startB = q.fn.Blocks[0]
	}
	seen := map[*ssa.BasicBlock]bool{}
	parent := map[*ssa.BasicBlock]*ssa.BasicBlock{}
	var hit *ssa.BasicBlock
	var scan func(b *ssa.BasicBlock, i int) (found bool, cont bool)
	scan = func(b *ssa.BasicBlock, i int) (bool, bool) {
		for ; i < len(b.Instrs); i++ {
			in := b.Instrs[i]
			if q.target(in) {
				return true, false
			}
			if q.stop != nil && q.stop(in) {
				return false, false
			}
		}
		return false, true
	}
	queue := []*ssa.BasicBlock{}
	found, cont := scan(startB, startI)
	if found {
		return true, []*ssa.BasicBlock{startB}
	}
	if cont {
		for k, s := range startB.Succs {
			if q.edgeOK != nil && !q.edgeOK(startB, k) {
				continue
			}
			if !seen[s] {
				seen[s] = true
				parent[s] = startB
				queue = append(queue, s)
			}
		}
	}
	for len(queue) > 0 && hit == nil {
		b := queue[0]
		queue = queue[1:]
		found, cont := scan(b, 0)
		if found {
			hit = b
			break
		}
		if !cont {
			continue
		}
		for k, s := range b.Succs {
			if q.edgeOK != nil && !q.edgeOK(b, k) {
				continue
			}
			if !seen[s] {
				seen[s] = true
				parent[s] = b
				queue = append(queue, s)
			}
		}
	}
	if hit == nil {
		return false, nil
	}
	var trail []*ssa.BasicBlock
	for b := hit; b != nil; b = parent[b] {
		trail = append(trail, b)
		if b == startB {
			break
		}
	}
	for i, j := 0, len(trail)-1; i < j; i, j = i+1, j-1 {
		trail[i], trail[j] = trail[j], trail[i]
	}
	return true, trail
}

func isReturn(in ssa.Instruction) bool {
	_, ok := in.(*ssa.Return)
	return ok
}

func isReturnOrPanic(in ssa.Instruction) bool {
	switch in.(type) {
	case *ssa.Return, *ssa.Panic:
		return true
	}
	return false
}

func (p *Prog) trail(bs []*ssa.BasicBlock) string {
	var parts []string
	last := ""
	for _, b := range bs {
		for _, in := range b.Instrs {
			if in.Pos().IsValid() {
				s := p.Pos(in.Pos())
				if s != last {
					parts = append(parts, s)
					last = s
				}
				break
			}
		}
	}
	if len(parts) > 12 {
		parts = append(parts[:6], append([]string{"…"}, parts[len(parts)-5:]...)...)
	}
	return strings.Join(parts, " → ")
}

// fwdReach: forward reachability between blocks ignoring back edges
// (edges to a dominator).
func fwdReach(from, to *ssa.BasicBlock) bool {
	if from == to {
		return true
	}
	seen := map[*ssa.BasicBlock]bool{from: true}
	st := []*ssa.BasicBlock{from}
	for len(st) > 0 {
		b := st[len(st)-1]
		st = st[:len(st)-1]
		for _, s := range b.Succs {
			if s.Dominates(b) { // back edge
				continue
			}
			if s == to {
				return true
			}
			if !seen[s] {
				seen[s] = true
				st = append(st, s)
			}
		}
	}
	return false
}

// before reports whether instruction a precedes b on every forward path that
// contains both (program order ignoring loop back edges).
func before(a, b ssa.Instruction) bool {
	pa, pb := posOf(a), posOf(b)
	if pa.b == pb.b {
		return pa.i < pb.i
	}
	return anyReach(pa.b, pb.b) && !fwdReach(pb.b, pa.b)
}

// anyReach: reachability over all edges (including loop back edges).
func anyReach(from, to *ssa.BasicBlock) bool {
	if from == to {
		return true
	}
	seen := map[*ssa.BasicBlock]bool{from: true}
	st := []*ssa.BasicBlock{from}
	for len(st) > 0 {
		b := st[len(st)-1]
		st = st[:len(st)-1]
		for _, s := range b.Succs {
			if s == to {
				return true
			}
			if !seen[s] {
				seen[s] = true
				st = append(st, s)
			}
		}
	}
	return false
}

// dominatesInstr: a dominates b (a executes before b on every path to b).
func dominatesInstr(a, b ssa.Instruction) bool {
	pa, pb := posOf(a), posOf(b)
	if pa.b == pb.b {
		return pa.i < pb.i
	}
	return pa.b.Dominates(pb.b)
}

// ---------- post-dominators and control dependence ----------

type cdEdge struct {
	b    *ssa.BasicBlock
	succ int
}

type cdInfo struct {
	fn    *ssa.Function
	ipdom map[*ssa.BasicBlock]*ssa.BasicBlock // nil = virtual exit
	cd    map[*ssa.BasicBlock][]cdEdge
	relTo *ssa.BasicBlock // guardRel: branches decided outside the region dominated by relTo count as taken
}

// controlDeps computes post-dominators (iterative, Cooper-Harvey-Kennedy on
// the reverse CFG with a virtual exit) and control dependences.
func controlDeps(fn *ssa.Function) *cdInfo {
	n := len(fn.Blocks)
	exit := n // virtual exit index
	preds := make([][]int, n+1)
	succs := make([][]int, n+1)
	for _, b := range fn.Blocks {
		for _, s := range b.Succs {
			succs[b.Index] = append(succs[b.Index], s.Index)
			preds[s.Index] = append(preds[s.Index], b.Index)
		}
	}
	// exits
	canExit := make([]bool, n+1)
	for _, b := range fn.Blocks {
		if len(b.Succs) == 0 {
			succs[b.Index] = append(succs[b.Index], exit)
			preds[exit] = append(preds[exit], b.Index)
		}
	}
	// `for { …; if bad { …; return }; … }`: a loop that is left only through returns. Without more, its return arms
	// post-dominate the whole loop (they are the only way to the exit) and would count as unconditional. Such a
	// loop is treated as possibly running forever: a virtual edge from its header to the exit.
	for _, h := range endlessLoopHeaders(fn) {
		succs[h.Index] = append(succs[h.Index], exit)
		preds[exit] = append(preds[exit], h.Index)
	}
	// blocks that cannot reach exit (infinite loops): connect them
	{
		st := []int{exit}
		canExit[exit] = true
		for len(st) > 0 {
			x := st[len(st)-1]
			st = st[:len(st)-1]
			for _, p := range preds[x] {
				if !canExit[p] {
					canExit[p] = true
					st = append(st, p)
				}
			}
		}
		for i := 0; i < n; i++ {
			if !canExit[i] {
				succs[i] = append(succs[i], exit)
				preds[exit] = append(preds[exit], i)
			}
		}
	}
	// reverse post-order on reverse graph from exit
	order := []int{}
	seen := make([]bool, n+1)
	var dfs func(int)
	dfs = func(x int) {
		seen[x] = true
		for _, p := range preds[x] {
			if !seen[p] {
				dfs(p)
			}
		}
		order = append(order, x)
	}
	dfs(exit)
	rpoNum := make([]int, n+1)
	for i := range rpoNum {
		rpoNum[i] = -1
	}
	for i, j := 0, len(order)-1; i < j; i, j = i+1, j-1 {
		order[i], order[j] = order[j], order[i]
	}
	for i, x := range order {
		rpoNum[x] = i
	}
	idom := make([]int, n+1)
	for i := range idom {
		idom[i] = -1
	}
	idom[exit] = exit
	intersect := func(a, b int) int {
		for a != b {
			for rpoNum[a] > rpoNum[b] {
				a = idom[a]
			}
			for rpoNum[b] > rpoNum[a] {
				b = idom[b]
			}
		}
		return a
	}
	for changed := true; changed; {
		changed = false
		for _, x := range order {
			if x == exit {
				continue
			}
			ni := -1
			for _, s := range succs[x] { // preds in the reverse graph
				if idom[s] == -1 {
					continue
				}
				if ni == -1 {
					ni = s
				} else {
					ni = intersect(ni, s)
				}
			}
			if ni != -1 && idom[x] != ni {
				idom[x] = ni
				changed = true
			}
		}
	}
	info := &cdInfo{fn: fn, ipdom: map[*ssa.BasicBlock]*ssa.BasicBlock{}, cd: map[*ssa.BasicBlock][]cdEdge{}}
	for _, b := range fn.Blocks {
		if idom[b.Index] >= 0 && idom[b.Index] < n {
			info.ipdom[b] = fn.Blocks[idom[b.Index]]
		}
	}
	for _, a := range fn.Blocks {
		if len(a.Succs) < 2 {
			continue
		}
		for k, s := range a.Succs {
			stop := idom[a.Index]
			for x := s.Index; x != stop && x != exit && x >= 0; x = idom[x] {
				info.cd[fn.Blocks[x]] = append(info.cd[fn.Blocks[x]], cdEdge{a, k})
				if idom[x] == x {
					break
				}
			}
		}
	}
	return info
}

// ---------- boolean formulas over named atoms ----------

type Form struct {
	Op   byte // 'T' true, 'F' false, 'L' literal, '&', '|', '!'
	Atom string
	Kids []*Form
}

var fTrue = &Form{Op: 'T'}
var fFalse = &Form{Op: 'F'}

func fLit(a string) *Form { return &Form{Op: 'L', Atom: a} }
func fNot(x *Form) *Form {
	switch x.Op {
	case 'T':
		return fFalse
	case 'F':
		return fTrue
	case '!':
		return x.Kids[0]
	}
	return &Form{Op: '!', Kids: []*Form{x}}
}
func fAnd(xs ...*Form) *Form {
	var ks []*Form
	for _, x := range xs {
		if x.Op == 'F' {
			return fFalse
		}
		if x.Op == 'T' {
			continue
		}
		ks = append(ks, x)
	}
	if len(ks) == 0 {
		return fTrue
	}
	if len(ks) == 1 {
		return ks[0]
	}
	return &Form{Op: '&', Kids: ks}
}
func fOr(xs ...*Form) *Form {
	var ks []*Form
	for _, x := range xs {
		if x.Op == 'T' {
			return fTrue
		}
		if x.Op == 'F' {
			continue
		}
		ks = append(ks, x)
	}
	if len(ks) == 0 {
		return fFalse
	}
	if len(ks) == 1 {
		return ks[0]
	}
	return &Form{Op: '|', Kids: ks}
}
func fImp(a, b *Form) *Form { return fOr(fNot(a), b) }
func fIff(a, b *Form) *Form { return fAnd(fImp(a, b), fImp(b, a)) }

func (f *Form) Eval(a map[string]bool) bool {
	switch f.Op {
	case 'T':
		return true
	case 'F':
		return false
	case 'L':
		return a[f.Atom]
	case '!':
		return !f.Kids[0].Eval(a)
	case '&':
		for _, k := range f.Kids {
			if !k.Eval(a) {
				return false
			}
		}
		return true
	case '|':
		for _, k := range f.Kids {
			if k.Eval(a) {
				return true
			}
		}
		return false
	}
	return false
}

func (f *Form) String() string {
	switch f.Op {
	case 'T':
		return "true"
	case 'F':
		return "false"
	case 'L':
		return f.Atom
	case '!':
		return "¬" + f.Kids[0].String()
	}
	var ps []string
	for _, k := range f.Kids {
		ps = append(ps, k.String())
	}
	sep := " ∧ "
	if f.Op == '|' {
		sep = " ∨ "
	}
	return "(" + strings.Join(ps, sep) + ")"
}

func (f *Form) support(m map[string]bool) {
	if f.Op == 'L' {
		m[f.Atom] = true
	}
	for _, k := range f.Kids {
		k.support(m)
	}
}

func Support(fs ...*Form) []string {
	m := map[string]bool{}
	for _, f := range fs {
		f.support(m)
	}
	var out []string
	for a := range m {
		out = append(out, a)
	}
	sort.Strings(out)
	return out
}

// Valid enumerates every truth assignment of f's atoms; returns a
// counterexample if f is falsifiable. n = number of assignments tried.
func Valid(f *Form) (ok bool, cex map[string]bool, n int) {
	atoms := Support(f)
	if len(atoms) > 24 {
		return false, map[string]bool{"<too many atoms>": true}, 0
	}
	a := map[string]bool{}
	total := 1 << len(atoms)
	for m := 0; m < total; m++ {
		for i, at := range atoms {
			a[at] = m&(1<<i) != 0
		}
		if !f.Eval(a) {
			c := map[string]bool{}
			for k, v := range a {
				c[k] = v
			}
			return false, c, m + 1
		}
	}
	return true, nil, total
}

func cexString(c map[string]bool) string {
	var ks []string
	for k := range c {
		ks = append(ks, k)
	}
	sort.Strings(ks)
	var ps []string
	for _, k := range ks {
		if c[k] {
			ps = append(ps, k)
		} else {
			ps = append(ps, "¬"+k)
		}
	}
	return strings.Join(ps, ", ")
}

// ---------- condition literals ----------

// condLit turns an If condition into (atom string, negated, underlying
// comparison) with canonicalisation: != becomes negated ==, NOT is folded,
// unsigned x>0 becomes negated x==0, constants are moved to the right.
func condLit(v ssa.Value) (atom string, neg bool) {
	switch x := v.(type) {
	case *ssa.Call:
		// errors.Is(err, <constant errno>) reads as err == <errno> (it holds whenever the comparison does)
		if e, tgt, ok := errorsIsConst(x); ok {
			return describe(e) + " == " + describe(tgt), false
		}
	case *ssa.UnOp:
		if x.Op == token.NOT {
			a, n := condLit(x.X)
			return a, !n
		}
	case *ssa.BinOp:
		l, r := x.X, x.Y
		op := x.Op
		// constants to the right
		if _, lc := stripConv(l).(*ssa.Const); lc {
			if _, rc := stripConv(r).(*ssa.Const); !rc {
				l, r = r, l
				switch op {
				case token.LSS:
					op = token.GTR
				case token.GTR:
					op = token.LSS
				case token.LEQ:
					op = token.GEQ
				case token.GEQ:
					op = token.LEQ
				}
			}
		}
		ls, rs := describe(l), describe(r)
		unsigned := false
		if b, ok := l.Type().Underlying().(*types.Basic); ok && b.Info()&types.IsUnsigned != 0 {
			unsigned = true
		}
		if strings.HasPrefix(ls, "len(") || strings.HasPrefix(ls, "builtin:len(") {
			unsigned = true
		}
		switch op {
		case token.EQL:
			return ls + " == " + rs, false
		case token.NEQ:
			return ls + " == " + rs, true
		case token.GTR:
			if unsigned && rs == "0" {
				return ls + " == 0", true
			}
			return ls + " > " + rs, false
		case token.LEQ:
			if unsigned && rs == "0" {
				return ls + " == 0", false
			}
			return ls + " > " + rs, true
		case token.LSS:
			return ls + " < " + rs, false
		case token.GEQ:
			return ls + " < " + rs, true
		}
	}
	return describe(v), false
}

// blockIf returns the If instruction terminating b, if any.
func blockIf(b *ssa.BasicBlock) *ssa.If {
	if len(b.Instrs) == 0 {
		return nil
	}
	i, _ := b.Instrs[len(b.Instrs)-1].(*ssa.If)
	return i
}

// guardOf computes the first-iteration guard formula of block b from control
// dependences (loop-carried dependences are dropped).
func (ci *cdInfo) guardOf(b *ssa.BasicBlock) *Form {
	return ci.guardOfM(b, map[*ssa.BasicBlock]*Form{}, map[*ssa.BasicBlock]bool{})
}

func (ci *cdInfo) guardOfM(b *ssa.BasicBlock, memo map[*ssa.BasicBlock]*Form, onstack map[*ssa.BasicBlock]bool) *Form {
	if f, ok := memo[b]; ok {
		return f
	}
	if onstack[b] {
		return fFalse
	}
	onstack[b] = true
	defer delete(onstack, b)
	deps := ci.cd[b]
	var alts []*Form
	any := false
	for _, d := range deps {
		if d.b == b || b.Dominates(d.b) {
			continue // loop-carried
		}
		any = true
		if ci.relTo != nil && d.b != ci.relTo && !ci.relTo.Dominates(d.b) {
			alts = append(alts, fTrue)
			continue
		}
		iff := blockIf(d.b)
		if iff == nil {
			continue
		}
		// The condition is turned into a formula by condForm: constants, negations, and boolean φ-nodes (a condition
		// materialised by short-circuit evaluation, `case a && b:`, or computed once into a local, `x := a || b`,
		// and tested later, possibly several times) are expanded over their incoming edges, so the guard is the
		// same formula the equivalent nested-if form would give.
		alts = append(alts, fAnd(ci.guardOfM(d.b, memo, onstack), ci.condForm(iff.Cond, d.succ == 0, memo, onstack, 0)))
	}
	var f *Form
	if !any {
		f = fTrue
	} else {
		f = fOr(alts...)
	}
	memo[b] = f
	return f
}

// condForm: the formula under which the boolean value v equals want (given that v's block was reached).
func (ci *cdInfo) condForm(v ssa.Value, want bool, memo map[*ssa.BasicBlock]*Form, onstack map[*ssa.BasicBlock]bool, depth int) *Form {
	if cb, isC := constBool(v); isC {
		if cb == want {
			return fTrue
		}
		return fFalse
	}
	if u, ok := v.(*ssa.UnOp); ok && u.Op == token.NOT {
		return ci.condForm(u.X, !want, memo, onstack, depth)
	}
	if phi, ok := v.(*ssa.Phi); ok && depth < 6 && isBoolType(phi.Type()) && !isLoopHeader(phi.Block()) {
		pb := phi.Block()
		var ealts []*Form
		for i, pred := range pb.Preds {
			edge := fTrue
			if pif := blockIf(pred); pif != nil && pred.Succs[0] != pred.Succs[1] {
				edge = ci.condForm(pif.Cond, pred.Succs[0] == pb, memo, onstack, depth+1)
			}
			ealts = append(ealts, fAnd(ci.guardOfM(pred, memo, onstack), edge, ci.condForm(phi.Edges[i], want, memo, onstack, depth+1)))
		}
		return fOr(ealts...)
	}
	a, neg := condLit(v)
	lit := fLit(a)
	if neg == want {
		lit = fNot(lit)
	}
	return lit
}

func isBoolType(t types.Type) bool {
	b, ok := t.Underlying().(*types.Basic)
	return ok && b.Info()&types.IsBoolean != 0
}

// ---------- conditionality helpers ----------

// cdChain returns the transitive control-dependence parents of b (excluding loop-carried ones).
func cdChain(cd *cdInfo, b *ssa.BasicBlock) []cdEdge {
	var out []cdEdge
	seen := map[*ssa.BasicBlock]bool{b: true}
	work := []*ssa.BasicBlock{b}
	for len(work) > 0 {
		x := work[len(work)-1]
		work = work[:len(work)-1]
		for _, d := range cd.cd[x] {
			if d.b == x || x.Dominates(d.b) {
				continue
			}
			out = append(out, d)
			if !seen[d.b] {
				seen[d.b] = true
				work = append(work, d.b)
			}
		}
	}
	return out
}

// isLoopHeader: b has a predecessor that b dominates (a back edge enters it).
func isLoopHeader(b *ssa.BasicBlock) bool {
	for _, p := range b.Preds {
		if b.Dominates(p) {
			return true
		}
	}
	return false
}

// isErrCheck: the If tests an error-typed value against nil and the non-nil edge leads straight to a return.
func isErrCheck(iff *ssa.If) bool {
	bo, ok := iff.Cond.(*ssa.BinOp)
	if !ok || (bo.Op != token.NEQ && bo.Op != token.EQL) {
		return false
	}
	if !isNilConst(bo.Y) || bo.X.Type().String() != "error" {
		return false
	}
	idx := 0
	if bo.Op == token.EQL {
		idx = 1
	}
	return leadsToReturn(iff.Block().Succs[idx], 3)
}

func leadsToReturn(b *ssa.BasicBlock, depth int) bool {
	if isExitBlock(b) {
		return true
	}
	if depth == 0 || len(b.Succs) != 1 {
		return false
	}
	return leadsToReturn(b.Succs[0], depth-1)
}

// extraConds lists the branch conditions b depends on that are neither loop
// headers nor error checks (i.e. genuine data/config conditions).
func extraConds(cd *cdInfo, b *ssa.BasicBlock) []string { return extraCondsX(cd, b, false) }

// extraCondsEE additionally ignores early exits (`if bad { return ... }`).
func extraCondsEE(cd *cdInfo, b *ssa.BasicBlock) []string { return extraCondsX(cd, b, true) }

func extraCondsX(cd *cdInfo, b *ssa.BasicBlock, allowEarlyExit bool) []string {
	var out []string
	seen := map[string]bool{}
	for _, d := range cdChain(cd, b) {
		iff := blockIf(d.b)
		if iff == nil {
			continue
		}
		if isLoopHeader(d.b) || isErrCheck(iff) {
			continue
		}
		// early exit: the edge not taken towards b leaves the function
		if allowEarlyExit && leadsToReturn(d.b.Succs[1-d.succ], 3) {
			continue
		}
		a, neg := condLit(iff.Cond)
		if neg != (d.succ == 1) {
			a = "¬(" + a + ")"
		}
		if !seen[a] {
			seen[a] = true
			out = append(out, a)
		}
	}
	sort.Strings(out)
	return out
}

// ---------- flattened call events (interprocedural order) ----------

// evRef is a call reached from a root function through a chain of static
// calls into module functions: chain[0] is an instruction of the root, the
// last element is the event call itself.
type evRef struct {
	chain []ssa.CallInstruction
}

func (e evRef) call() ssa.CallInstruction { return e.chain[len(e.chain)-1] }

// flattenCalls collects calls satisfying pred reachable from root through static module calls (depth-bounded).
func flattenCalls(root *ssa.Function, depth int, pred func(ssa.CallInstruction) bool) []evRef {
	var out []evRef
	var rec func(fn *ssa.Function, prefix []ssa.CallInstruction, d int, seen map[*ssa.Function]bool)
	rec = func(fn *ssa.Function, prefix []ssa.CallInstruction, d int, seen map[*ssa.Function]bool) {
		for _, ci := range callInstrs(fn) {
			ch := append(append([]ssa.CallInstruction{}, prefix...), ci)
			if pred(ci) {
				out = append(out, evRef{ch})
			}
			if d > 0 {
				if _, callee := calleeOf(ci); callee != nil && inModule(callee) && !seen[callee] && callee.Blocks != nil {
					seen[callee] = true
					rec(callee, ch, d-1, seen)
					delete(seen, callee)
				}
			}
		}
	}
	rec(root, nil, depth, map[*ssa.Function]bool{root: true})
	return out
}

// evBefore: a precedes b in the flattened program order.
func evBefore(a, b evRef) bool {
	for i := 0; i < len(a.chain) && i < len(b.chain); i++ {
		if a.chain[i] != b.chain[i] {
			return before(a.chain[i], b.chain[i])
		}
	}
	return false
}

// evConds: extra (non-loop, non-error, non-early-exit) conditions along the chain.
func evConds(e evRef) []string {
	var out []string
	for _, ci := range e.chain {
		fn := ci.Parent()
		out = append(out, extraConds(controlDeps(fn), ci.Block())...)
	}
	return out
}

// errChecked: the error result of call ci is tested and the non-nil edge returns.
func errChecked(ci ssa.CallInstruction) bool {
	v, ok := ci.(ssa.Value)
	if !ok {
		return false
	}
	var errVals []ssa.Value
	if v.Type().String() == "error" {
		errVals = append(errVals, v)
	}
	if refs := v.Referrers(); refs != nil {
		for _, r := range *refs {
			if ex, ok := r.(*ssa.Extract); ok && ex.Type().String() == "error" {
				errVals = append(errVals, ex)
			}
		}
	}
	for _, ev := range errVals {
		refs := ev.Referrers()
		if refs == nil {
			continue
		}
		for _, r := range *refs {
			if bo, ok := r.(*ssa.BinOp); ok && (bo.Op == token.NEQ || bo.Op == token.EQL) && isNilConst(bo.Y) {
				if br := bo.Referrers(); br != nil {
					for _, u := range *br {
						if iff, ok := u.(*ssa.If); ok && isErrCheck(iff) {
							return true
						}
					}
				}
			}
			// returned directly: `return f()`
			if _, ok := r.(*ssa.Return); ok {
				return true
			}
		}
	}
	return false
}

// arrayLitElems returns the values stored into the elements of a literal
// array allocation (variadic argument list / slice literal), by index.
func arrayLitElems(a *ssa.Alloc) ([]ssa.Value, bool) {
	refs := a.Referrers()
	if refs == nil {
		return nil, false
	}
	m := map[int64]ssa.Value{}
	max := int64(-1)
	for _, r := range *refs {
		ia, ok := r.(*ssa.IndexAddr)
		if !ok {
			continue
		}
		idx, ok := constInt(ia.Index)
		if !ok {
			return nil, false
		}
		if irefs := ia.Referrers(); irefs != nil {
			for _, u := range *irefs {
				if st, ok := u.(*ssa.Store); ok && st.Addr == ssa.Value(ia) {
					m[idx] = st.Val
					if idx > max {
						max = idx
					}
				}
			}
		}
	}
	if max < 0 {
		return nil, false
	}
	out := make([]ssa.Value, max+1)
	for i := range out {
		v, ok := m[int64(i)]
		if !ok {
			return nil, false
		}
		out[i] = v
	}
	return out, true
}

// returnsValueOf: some return of fn (outside loops) yields a value that depends on v through phis / the result slot.
func returnsValueOf(fn *ssa.Function, v ssa.Value) bool {
	roots := map[ssa.Value]bool{v: true}
	for _, b := range fn.Blocks {
		ret, ok := b.Instrs[len(b.Instrs)-1].(*ssa.Return)
		if !ok || inLoop(b) {
			continue
		}
		for _, r := range ret.Results {
			if dependsOn(r, roots, 0) {
				return true
			}
			// load of the result slot: look at the last store to it in this block
			if u, ok := r.(*ssa.UnOp); ok && u.Op == token.MUL {
				for _, in := range b.Instrs {
					if st, ok := in.(*ssa.Store); ok && st.Addr == u.X && dependsOn(st.Val, roots, 0) {
						return true
					}
				}
			}
		}
	}
	return false
}

// valueOrigins follows a value backwards through φ-nodes, tuple extraction,
// conversions and loads of local cells (to the values stored there) and
// returns the canonical names of the calls it can come from; "?" stands for an
// origin that is not a call (parameter, constant, arithmetic, ...).
func valueOrigins(v ssa.Value) []string {
	set := map[string]bool{}
	seen := map[ssa.Value]bool{}
	var rec func(v ssa.Value, d int)
	rec = func(v ssa.Value, d int) {
		if v == nil || seen[v] || d > 20 {
			return
		}
		seen[v] = true
		switch x := v.(type) {
		case *ssa.Phi:
			for _, e := range x.Edges {
				rec(e, d+1)
			}
		case *ssa.Extract:
			if call, ok := x.Tuple.(*ssa.Call); ok && followReturns(call, x.Index, func(r ssa.Value) { rec(r, d+1) }) {
				return
			}
			rec(x.Tuple, d+1)
		case *ssa.Convert:
			rec(x.X, d+1)
		case *ssa.ChangeType:
			rec(x.X, d+1)
		case *ssa.Call:
			if followReturns(x, 0, func(r ssa.Value) { rec(r, d+1) }) {
				return
			}
			n, _ := calleeOf(x)
			set[n] = true
		case *ssa.Parameter:
			// follow into the static call sites of the function (same package)
			fn := x.Parent()
			idx := -1
			for i, pr := range fn.Params {
				if pr == x {
					idx = i
				}
			}
			sites := staticCallSites(fn)
			if idx < 0 || len(sites) == 0 {
				set["?"] = true
				return
			}
			for _, cs := range sites {
				if idx < len(cs.Common().Args) {
					rec(cs.Common().Args[idx], d+1)
				}
			}
		case *ssa.UnOp:
			if x.Op == token.MUL {
				cell := x.X
				found := false
				if refs := cell.Referrers(); refs != nil {
					for _, r := range *refs {
						if st, ok := r.(*ssa.Store); ok && st.Addr == cell {
							found = true
							rec(st.Val, d+1)
						}
					}
				}
				if fv, ok := cell.(*ssa.FreeVar); ok {
					// captured variable: look at the stores in the enclosing function
					if mc := closureSiteOf(fv); mc != nil {
						found = true
						rec2 := &ssa.UnOp{}
						_ = rec2
						for _, r := range *mc.Referrers() {
							if st, ok := r.(*ssa.Store); ok && st.Addr == mc {
								rec(st.Val, d+1)
							}
						}
					}
				}
				if !found {
					set["?"] = true
				}
				return
			}
			set["?"] = true
		default:
			set["?"] = true
		}
	}
	rec(v, 0)
	var out []string
	for k := range set {
		out = append(out, k)
	}
	sort.Strings(out)
	return out
}

// closureSiteOf returns the value bound to free variable fv where its closure is created.
func closureSiteOf(fv *ssa.FreeVar) ssa.Value {
	fn := fv.Parent()
	if fn == nil || fn.Parent() == nil {
		return nil
	}
	idx := -1
	for i, f := range fn.FreeVars {
		if f == fv {
			idx = i
		}
	}
	if idx < 0 {
		return nil
	}
	for _, b := range fn.Parent().Blocks {
		for _, in := range b.Instrs {
			if mc, ok := in.(*ssa.MakeClosure); ok && mc.Fn == ssa.Value(fn) && idx < len(mc.Bindings) {
				return mc.Bindings[idx]
			}
		}
	}
	return nil
}

var callSiteCache = map[*ssa.Function][]ssa.CallInstruction{}
var callSiteCacheFor *ssa.Program

// staticCallSites lists the call instructions of the program that statically call fn.
func staticCallSites(fn *ssa.Function) []ssa.CallInstruction {
	if fn == nil || fn.Prog == nil {
		return nil
	}
	if callSiteCacheFor != fn.Prog {
		callSiteCacheFor = fn.Prog
		callSiteCache = map[*ssa.Function][]ssa.CallInstruction{}
		for f := range ssautil.AllFunctions(fn.Prog) {
			if f.Pkg == nil || !strings.HasPrefix(f.Pkg.Pkg.Path(), repoModule) {
				continue
			}
			for _, b := range f.Blocks {
				for _, in := range b.Instrs {
					if ci, ok := in.(ssa.CallInstruction); ok {
						if callee := ci.Common().StaticCallee(); callee != nil {
							callSiteCache[callee] = append(callSiteCache[callee], ci)
						}
					}
				}
			}
		}
	}
	return callSiteCache[fn]
}

// followReturns: when call statically calls a function of the module that has a
// body, visits result #idx of each of its return statements.
func followReturns(call *ssa.Call, idx int, visit func(ssa.Value)) bool {
	callee := call.Common().StaticCallee()
	if callee == nil || callee.Pkg == nil || len(callee.Blocks) == 0 || !strings.HasPrefix(callee.Pkg.Pkg.Path(), repoModule) {
		return false
	}
	any := false
	for _, b := range callee.Blocks {
		if len(b.Instrs) == 0 {
			continue
		}
		if ret, ok := b.Instrs[len(b.Instrs)-1].(*ssa.Return); ok && idx < len(ret.Results) {
			any = true
			visit(ret.Results[idx])
		}
	}
	return any
}

// spawnedFn: the function a go / defer statement runs — a closure, or a named
// function or method of the module (a bound method value counts as its method).
func spawnedFn(cc *ssa.CallCommon) *ssa.Function {
	var f *ssa.Function
	switch v := cc.Value.(type) {
	case *ssa.MakeClosure:
		f, _ = v.Fn.(*ssa.Function)
	case *ssa.Function:
		f = v
	}
	if f != nil && f.Synthetic != "" && len(f.Blocks) > 0 {
		// bound-method wrapper: the method it calls
		for _, ci := range callInstrs(f) {
			if _, callee := calleeOf(ci); callee != nil && inModule(callee) {
				return callee
			}
		}
	}
	return f
}

// retVal returns the value result #i of a return statement really carries: when
// the function has deferred calls (or named results) go/ssa returns a load of
// the result slot; the value stored into that slot last in the same block is
// then the one returned.
func retVal(ret *ssa.Return, i int) ssa.Value {
	if i >= len(ret.Results) {
		return nil
	}
	r := ret.Results[i]
	u, ok := r.(*ssa.UnOp)
	if !ok || u.Op != token.MUL {
		return r
	}
	if _, isAlloc := u.X.(*ssa.Alloc); !isAlloc {
		return r
	}
	var last ssa.Value
	for _, in := range ret.Block().Instrs {
		if in == ssa.Instruction(u) {
			break
		}
		if st, ok := in.(*ssa.Store); ok && st.Addr == u.X {
			last = st.Val
		}
	}
	if last != nil {
		return last
	}
	return r
}

// endlessLoopHeaders lists the headers of loops whose every exit edge leads
// straight (within three blocks, without rejoining other code) to a return or
// panic: loops written as `for { … }` that end only by returning.
func endlessLoopHeaders(fn *ssa.Function) []*ssa.BasicBlock {
	var out []*ssa.BasicBlock
	for _, h := range fn.Blocks {
		if !isLoopHeader(h) {
			continue
		}
		// natural loop body: blocks that reach a back edge source without passing h
		body := map[*ssa.BasicBlock]bool{h: true}
		var st []*ssa.BasicBlock
		for _, p := range h.Preds {
			if h.Dominates(p) && !body[p] {
				body[p] = true
				st = append(st, p)
			}
		}
		for len(st) > 0 {
			x := st[len(st)-1]
			st = st[:len(st)-1]
			for _, p := range x.Preds {
				if !body[p] {
					body[p] = true
					st = append(st, p)
				}
			}
		}
		endless := true
		nExit := 0
		for b := range body {
			for _, s := range b.Succs {
				if body[s] {
					continue
				}
				nExit++
				// the exit target belongs to the loop's return arms only
				onlyFromLoop := true
				for _, p := range s.Preds {
					if !body[p] {
						onlyFromLoop = false
					}
				}
				if !onlyFromLoop || !leadsToReturn(s, 3) {
					endless = false
				}
			}
		}
		if endless && nExit > 0 {
			out = append(out, h)
		}
	}
	return out
}

// globalSliceInts returns the integer constants a package-level slice variable is initialised with
// (`var x = []T{c1, c2, …}` with constant elements, possibly boxed into an interface), in order.
func globalSliceInts(g *ssa.Global) ([]int64, bool) {
	init := g.Pkg.Func("init")
	if init == nil {
		return nil, false
	}
	for _, b := range init.Blocks {
		for _, in := range b.Instrs {
			st, ok := in.(*ssa.Store)
			if !ok || st.Addr != ssa.Value(g) {
				continue
			}
			sl, ok := st.Val.(*ssa.Slice)
			if !ok {
				return nil, false
			}
			arr, ok := sl.X.(*ssa.Alloc)
			if !ok {
				return nil, false
			}
			els, ok := arrayLitElems(arr)
			if !ok {
				return nil, false
			}
			var out []int64
			for _, e := range els {
				if mi, ok := e.(*ssa.MakeInterface); ok {
					e = mi.X
				}
				v, ok := constInt(e)
				if !ok {
					return nil, false
				}
				out = append(out, v)
			}
			return out, true
		}
	}
	return nil, false
}

// eqEdges: for a branch on an equality test (in either polarity) returns the successor index taken when the two
// sides are equal and the one taken when they differ; ok is false for other conditions.
func eqEdges(iff *ssa.If) (bo *ssa.BinOp, eqIdx, neIdx int, ok bool) {
	bo, isB := iff.Cond.(*ssa.BinOp)
	if !isB {
		return nil, 0, 0, false
	}
	switch bo.Op {
	case token.EQL:
		return bo, 0, 1, true
	case token.NEQ:
		return bo, 1, 0, true
	}
	return nil, 0, 0, false
}

// guardRel is the guard of b relative to a dominating block a: the condition under which b is reached, given that a
// was (conditions decided at or above a are dropped).
func (ci *cdInfo) guardRel(b, a *ssa.BasicBlock) *Form {
	memo := map[*ssa.BasicBlock]*Form{}
	for _, x := range ci.fn.Blocks {
		if x == a || !a.Dominates(x) {
			memo[x] = fTrue
		}
	}
	rel := *ci
	rel.relTo = a
	return rel.guardOfM(b, memo, map[*ssa.BasicBlock]bool{})
}

// operatesOn: fn is a method of the named type (suffix match on the receiver's type string), or a top-level function
// one of whose parameters is a pointer to it (a method written as a function).
func operatesOn(fn *ssa.Function, typeSuffix string) bool {
	if fn == nil || fn.Parent() != nil {
		return false
	}
	if r := fn.Signature.Recv(); r != nil {
		return strings.HasSuffix(r.Type().String(), typeSuffix)
	}
	for _, pr := range fn.Params {
		if pt, ok := pr.Type().(*types.Pointer); ok && strings.HasSuffix(pt.Elem().String(), typeSuffix) {
			return true
		}
	}
	return false
}

// errorsIsConst: the call is errors.Is(e, target) with a constant target (an errno constant boxed in an interface).
func errorsIsConst(call *ssa.Call) (e, target ssa.Value, ok bool) {
	if n, _ := calleeOf(call); n != "errors.Is" || len(call.Call.Args) != 2 {
		return nil, nil, false
	}
	mi, isMI := call.Call.Args[1].(*ssa.MakeInterface)
	if !isMI {
		return nil, nil, false
	}
	if _, isC := mi.X.(*ssa.Const); !isC {
		return nil, nil, false
	}
	return call.Call.Args[0], call.Call.Args[1], true
}
