package main

// Round-5 additions that are shared between properties: a rule that is a necessary condition of several
// properties is evaluated once by the property it was written for and reported under each property that needs it
// (importObs). The hooks run after the property's own rules.

import (
	"strings"

	"golang.org/x/tools/go/ssa"
)

var postHooks = map[string][]func(c *Check){}

func init() {
	// C07: a launch that failed (or was abandoned by the host) is never released by a later message: host and
	// container stay in step, which is what the product exploration of C10 decides; and the child is created with
	// SIGCHLD as its exit signal, without which the reaping wait of a failed launch finds no child.
	postHooks["C07"] = append(postHooks["C07"], func(c *Check) {
		importObs(c, "C10", "C10.2/product", "15/gate-protocol-in-step", func(o Obligation) bool { return strings.Contains(o.Key, "Execve") })
		importObs(c, "C04", "C04.O7/clone-flags", "16/child-is-reapable", func(o Obligation) bool {
			return strings.HasPrefix(o.Key, "clone:") || strings.HasPrefix(o.Key, "clone3:exit")
		})
	})
	// C10: after the transport is lost every later call fails promptly: both loops of both ends close 'done' on a
	// transport error.
	postHooks["C10"] = append(postHooks["C10"], func(c *Check) {
		importObs(c, "C16", "C16.2/eof-exits", "13/loss-closes-done", func(o Obligation) bool { return strings.Contains(o.Key, "error→done") })
	})
	// C11: a cancelled run returns without waiting for children that are not its own.
	postHooks["C11"] = append(postHooks["C11"], func(c *Check) {
		importObs(c, "C17", "C17.4/specific-waits", "8/waits-own-children", nil)
	})
	// C15: the tracer's deferred clean-up kills before it reaps, under no condition (a stopped descendant is never
	// resumed otherwise and the run never ends).
	postHooks["C15"] = append(postHooks["C15"], func(c *Check) {
		importObs(c, "C12", "C12.1/kill-reap", "9/cleanup-kills-first", func(o Obligation) bool { return strings.HasPrefix(o.Key, "ptracer.") })
	})
	// C16: the forked child notices the death of its controller by EOF on the sync channel only if nobody else
	// holds the controller's end: the pair is born close-on-exec.
	postHooks["C16"] = append(postHooks["C16"], func(c *Check) {
		importObs(c, "C17", "C17.1/fork-lock", "10/sync-channel-not-inherited", func(o Obligation) bool {
			return strings.Contains(o.Key, "pkg/forkexec") && strings.Contains(o.Key, "cloexec")
		})
	})
	// C17: a watcher that outlives its run signals a process id that may be another run's by then; every sandbox is
	// its own session (a program cannot move into a sibling run's process group).
	postHooks["C17"] = append(postHooks["C17"], func(c *Check) {
		importObs(c, "C12", "C12.3/goroutines", "8/watcher-ends-with-run", nil)
		importObs(c, "C11", "C11.1/canceller", "9/cancel-scoped-to-run", func(o Obligation) bool { return strings.Contains(o.Key, "watcher") })
		importObs(c, "C04", "C04.O5/session", "10/own-session", nil)
	})
	// C19: messages arrive in the order sent only if one goroutine writes to the connection; descriptors in flight
	// are not closed behind their owner's back.
	postHooks["C19"] = append(postHooks["C19"], func(c *Check) {
		checkSingleWriter(c, "13/single-writer")
		importObs(c, "C06", "C06.9/wrapper-ownership", "14/wrapper-ownership", nil)
	})
}

// checkSingleWriter: on either end of the control connection exactly one goroutine writes (the send loop) and one
// reads (the receive loop): the framed socket's SendMsg/RecvMsg are called only from functions that are reachable
// only from that loop. A second writer interleaves messages (and shares the gob encoder and its buffer).
func checkSingleWriter(c *Check, rule string) {
	p := c.P
	n := 0
	for _, op := range []string{"SendMsg", "RecvMsg"} {
		loop := map[string]string{"SendMsg": "sendLoop", "RecvMsg": "recvLoop"}[op]
		for _, fn := range p.PkgFuncs("container") {
			for _, ci := range callInstrs(fn) {
				nm, _ := calleeOf(ci)
				if !strings.HasSuffix(nm, "container.socket)."+op) {
					continue
				}
				n++
				// fn is the loop, or reachable only from it
				ok := onlyFromLoop(p, fn, loop, 3, map[*ssa.Function]bool{})
				c.Cond(ok, rule, "container."+strings.TrimPrefix(shortName(fn), "container.")+":"+op, p.Pos(ci.Pos()), "the connection is written (read) only by its "+loop,
					op+" is called outside the "+loop+" goroutine: a second writer (reader) on the connection reorders messages and shares the encoder (decoder) state")
			}
		}
	}
	if n == 0 {
		c.Undecided(rule, "container:socket-io", "-", "no call of the framed socket found")
	}
	c.Expect(rule, 4)
}

func onlyFromLoop(p *Prog, fn *ssa.Function, loop string, depth int, seen map[*ssa.Function]bool) bool {
	if fn.Name() == loop {
		return true
	}
	if depth == 0 || seen[fn] {
		return false
	}
	seen[fn] = true
	callers := 0
	for _, g := range p.PkgFuncs("container") {
		for _, ci := range callInstrs(g) {
			if _, callee := calleeOf(ci); callee == fn {
				callers++
				if !onlyFromLoop(p, g, loop, depth-1, seen) {
					return false
				}
			}
		}
		// referenced as a value (go f / defer f / stored): treated as an unknown caller
		for _, b := range g.Blocks {
			for _, in := range b.Instrs {
				if mc, ok := in.(*ssa.MakeClosure); ok && mc.Fn == ssa.Value(fn) && g.Name() != loop {
					if !onlyFromLoop(p, g, loop, depth-1, seen) {
						return false
					}
					callers++
				}
			}
		}
	}
	return callers > 0
}
