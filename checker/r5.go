package main

// Round-5 additions that are shared between properties: a rule that is a necessary condition of several
// properties is evaluated once by the property it was written for and reported under each property that needs it
// (importObs). The hooks run after the property's own rules.

import (
	"fmt"
	"go/token"
	"go/types"
	"sort"
	"strings"

	"golang.org/x/tools/go/ssa"
)

var postHooks = map[string][]func(c *Check){}

func init() {
	// C07: a launch that failed (or was abandoned by the host) is never released by a later message: host and
	// container stay in step, which is what the product exploration of C10 decides; and the child is created with
	// SIGCHLD as its exit signal, without which the reaping wait of a failed launch finds no child.
	postHooks["C07"] = append(postHooks["C07"], func(c *Check) {
		importObs(c, "C10", "C10.2/product", "15/gate-protocol-in-step", func(o Obligation) bool { return strings.Contains(o.Key, "Execve") })
		importObs(c, "C04", "C04.O7/clone-flags", "16/child-is-reapable", func(o Obligation) bool {
			return strings.HasPrefix(o.Key, "clone:") || strings.HasPrefix(o.Key, "clone3:exit")
		})
	})
	// C10: after the transport is lost every later call fails promptly: both loops of both ends close 'done' on a
	// transport error.
	postHooks["C10"] = append(postHooks["C10"], func(c *Check) {
		importObs(c, "C16", "C16.2/eof-exits", "13/loss-closes-done", func(o Obligation) bool { return strings.Contains(o.Key, "error→done") })
	})
	// C11: a cancelled run returns without waiting for children that are not its own.
	postHooks["C11"] = append(postHooks["C11"], func(c *Check) {
		importObs(c, "C17", "C17.4/specific-waits", "8/waits-own-children", nil)
	})
	// C15: the tracer's deferred clean-up kills before it reaps, under no condition (a stopped descendant is never
	// resumed otherwise and the run never ends).
	postHooks["C15"] = append(postHooks["C15"], func(c *Check) {
		importObs(c, "C12", "C12.1/kill-reap", "9/cleanup-kills-first", func(o Obligation) bool { return strings.HasPrefix(o.Key, "ptracer.") })
	})
	// C16: the forked child notices the death of its controller by EOF on the sync channel only if nobody else
	// holds the controller's end: the pair is born close-on-exec.
	postHooks["C16"] = append(postHooks["C16"], func(c *Check) {
		importObs(c, "C17", "C17.1/fork-lock", "10/sync-channel-not-inherited", func(o Obligation) bool {
			return strings.Contains(o.Key, "pkg/forkexec") && strings.Contains(o.Key, "cloexec")
		})
	})
	// C17: a watcher that outlives its run signals a process id that may be another run's by then; every sandbox is
	// its own session (a program cannot move into a sibling run's process group).
	postHooks["C17"] = append(postHooks["C17"], func(c *Check) {
		importObs(c, "C12", "C12.3/goroutines", "8/watcher-ends-with-run", nil)
		importObs(c, "C11", "C11.1/canceller", "9/cancel-scoped-to-run", func(o Obligation) bool { return strings.Contains(o.Key, "watcher") })
		importObs(c, "C04", "C04.O5/session", "10/own-session", nil)
	})
	// C19: messages arrive in the order sent only if one goroutine writes to the connection; descriptors in flight
	// are not closed behind their owner's back.
	postHooks["C19"] = append(postHooks["C19"], func(c *Check) {
		checkSingleWriter(c, "13/single-writer")
		importObs(c, "C06", "C06.9/wrapper-ownership", "14/wrapper-ownership", nil)
	})
}

// checkSingleWriter: on either end of the control connection exactly one goroutine writes (the send loop) and one
// reads (the receive loop): the framed socket's SendMsg/RecvMsg are called only from functions that are reachable
// only from that loop. A second writer interleaves messages (and shares the gob encoder and its buffer).
func checkSingleWriter(c *Check, rule string) {
	p := c.P
	n := 0
	for _, op := range []string{"SendMsg", "RecvMsg"} {
		loop := map[string]string{"SendMsg": "sendLoop", "RecvMsg": "recvLoop"}[op]
		for _, fn := range p.PkgFuncs("container") {
			for _, ci := range callInstrs(fn) {
				nm, _ := calleeOf(ci)
				if !strings.HasSuffix(nm, "container.socket)."+op) {
					continue
				}
				n++
				// fn is the loop, or reachable only from it
				ok := onlyFromLoop(p, fn, loop, 3, map[*ssa.Function]bool{})
				c.Cond(ok, rule, "container."+strings.TrimPrefix(shortName(fn), "container.")+":"+op, p.Pos(ci.Pos()), "the connection is written (read) only by its "+loop,
					op+" is called outside the "+loop+" goroutine: a second writer (reader) on the connection reorders messages and shares the encoder (decoder) state")
			}
		}
	}
	if n == 0 {
		c.Undecided(rule, "container:socket-io", "-", "no call of the framed socket found")
	}
	c.Expect(rule, 4)
}

func onlyFromLoop(p *Prog, fn *ssa.Function, loop string, depth int, seen map[*ssa.Function]bool) bool {
	if fn.Name() == loop {
		return true
	}
	if depth == 0 || seen[fn] {
		return false
	}
	seen[fn] = true
	callers := 0
	for _, g := range p.PkgFuncs("container") {
		for _, ci := range callInstrs(g) {
			if _, callee := calleeOf(ci); callee == fn {
				callers++
				if !onlyFromLoop(p, g, loop, depth-1, seen) {
					return false
				}
			}
		}
		// referenced as a value (go f / defer f / stored): treated as an unknown caller
		for _, b := range g.Blocks {
			for _, in := range b.Instrs {
				if mc, ok := in.(*ssa.MakeClosure); ok && mc.Fn == ssa.Value(fn) && g.Name() != loop {
					if !onlyFromLoop(p, g, loop, depth-1, seen) {
						return false
					}
					callers++
				}
			}
		}
	}
	return callers > 0
}

func init() {
	postHooks["C16"] = append(postHooks["C16"], checkEveryProcAttr)
}

// checkEveryProcAttr: every process attribute record the container package builds asks for SIGKILL on the death
// of the parent, whichever of them reaches the command in a given configuration.
func checkEveryProcAttr(c *Check) {
	p := c.P
	rule := "11/every-attr-pdeathsig"
	n := 0
	for _, fn := range p.PkgFuncs("container") {
		for _, b := range fn.Blocks {
			for _, in := range b.Instrs {
				a, ok := in.(*ssa.Alloc)
				if !ok || !strings.HasSuffix(derefType(a.Type()).String(), "syscall.SysProcAttr") {
					continue
				}
				n++
				var sig ssa.Value
				if refs := a.Referrers(); refs != nil {
					for _, r := range *refs {
						if fa, ok := r.(*ssa.FieldAddr); ok && fieldName(fa.X.Type(), fa.Field) == "Pdeathsig" {
							if fr := fa.Referrers(); fr != nil {
								for _, u := range *fr {
									if st, ok := u.(*ssa.Store); ok && st.Addr == ssa.Value(fa) {
										sig = st.Val
									}
								}
							}
						}
					}
				}
				v, okc := constInt(sig)
				c.Cond(sig != nil && okc && v == p.Sys("SIGKILL"), rule, shortName(fn)+":SysProcAttr@"+fmt.Sprint(n), p.Pos(a.Pos()), "this process attribute record sets Pdeathsig = SIGKILL",
					"a syscall.SysProcAttr is built here without Pdeathsig = SIGKILL ("+describeOrNil(sig)+"): a container started with it outlives its controller while it is not blocked on the control socket")
			}
		}
	}
	if n == 0 {
		c.Undecided(rule, "container:SysProcAttr", "-", "no process attribute record found in the package")
	}
	c.Expect(rule, 1)
}

func init() {
	postHooks["C04"] = append(postHooks["C04"], func(c *Check) { checkFprogNilOnlyEmpty(c, "O15/filter-not-dropped") })
	postHooks["C01"] = append(postHooks["C01"], func(c *Check) { checkFprogNilOnlyEmpty(c, "9/filter-not-dropped") })
	postHooks["C08"] = append(postHooks["C08"], checkInitKeepsLimits)
}

// checkFprogNilOnlyEmpty: the conversion of a filter to the kernel's argument answers "no filter" (nil) only for
// the empty filter. The runners take nil for "no filter was given" and then start the program unfiltered.
func checkFprogNilOnlyEmpty(c *Check, rule string) {
	p := c.P
	fn := p.Func("pkg/seccomp", "Filter.SockFprog")
	if fn == nil {
		c.Undecided(rule, "pkg/seccomp.Filter.SockFprog", "-", "function not found")
		return
	}
	cd := controlDeps(fn)
	n := 0
	for _, b := range fn.Blocks {
		ret, ok := b.Instrs[len(b.Instrs)-1].(*ssa.Return)
		if !ok || len(ret.Results) != 1 || !isNilConst(ret.Results[0]) {
			continue
		}
		n++
		g := cd.guardOf(b)
		var lenAtom string
		for _, a := range Support(g) {
			if strings.Contains(a, "len(") && strings.HasSuffix(a, " == 0") {
				lenAtom = a
			}
		}
		ok2 := false
		if lenAtom != "" {
			ok2, _, _ = Valid(fImp(g, fLit(lenAtom)))
		}
		c.Cond(ok2, rule, fmt.Sprintf("pkg/seccomp.Filter.SockFprog:nil-return#%d", n), p.Pos(ret.Pos()), "nil (no filter) is returned only for the empty filter",
			"SockFprog returns nil under "+g.String()+": a non-empty filter is turned into 'no filter' and the program starts without it")
	}
	if n == 0 {
		c.OK(rule, "pkg/seccomp.Filter.SockFprog:nil-return", p.Pos(fn.Pos()), "never returns nil")
	}
}

// checkInitKeepsLimits: the container init does not change its own resource limits; programs inherit every limit
// that is not configured from it.
func checkInitKeepsLimits(c *Check) {
	p := c.P
	rule := "7/init-keeps-limits"
	n, bad := 0, ""
	for _, fn := range p.PkgFuncs("container") {
		for _, ci := range callInstrs(fn) {
			n++
			nm, _ := calleeOf(ci)
			if nm == "syscall.Setrlimit" || nm == "golang.org/x/sys/unix.Setrlimit" || nm == "golang.org/x/sys/unix.Prlimit" || nm == "syscall.prlimit" {
				bad = p.Pos(ci.Pos())
			}
			if (nm == "syscall.Syscall" || nm == "syscall.RawSyscall" || nm == "syscall.Syscall6" || nm == "syscall.RawSyscall6") && len(ci.Common().Args) > 0 {
				if v, ok := constInt(ci.Common().Args[0]); ok && (v == p.Sys("SYS_PRLIMIT64") || v == p.Sys("SYS_SETRLIMIT")) {
					bad = p.Pos(ci.Pos())
				}
			}
		}
	}
	c.Cond(bad == "", rule, "container:no-setrlimit", "-", fmt.Sprintf("no call in package container (%d call sites) sets a resource limit of the init itself", n),
		"the container package sets a resource limit of its own process at "+bad+": every program started in the container inherits it although it was not configured")
}

func init() {
	postHooks["C11"] = append(postHooks["C11"], checkNoCloseOfSendQueues)
}

// checkNoCloseOfSendQueues: a channel that some goroutine sends on is never closed (a send on a closed channel
// panics: a call in flight during Destroy must return an error, not crash the host). Only signal channels nobody
// sends on ('done') are closed.
func checkNoCloseOfSendQueues(c *Check) {
	p := c.P
	rule := "9/queues-never-closed"
	field := func(v ssa.Value) string {
		d := describe(v)
		if i := strings.LastIndex(d, "."); i >= 0 {
			return d[i+1:]
		}
		return d
	}
	sentOn := map[string]string{}
	type cl struct{ name, pos string }
	var closes []cl
	for _, fn := range p.PkgFuncs("container") {
		for _, b := range fn.Blocks {
			for _, in := range b.Instrs {
				switch x := in.(type) {
				case *ssa.Send:
					sentOn[field(x.Chan)] = p.Pos(x.Pos())
				case *ssa.Select:
					for _, st := range x.States {
						if st.Dir == types.SendOnly {
							sentOn[field(st.Chan)] = p.Pos(x.Pos())
						}
					}
				case *ssa.Call:
					if bi, ok := x.Call.Value.(*ssa.Builtin); ok && bi.Name() == "close" && len(x.Call.Args) == 1 {
						closes = append(closes, cl{field(x.Call.Args[0]), p.Pos(x.Pos())})
					}
				}
			}
		}
	}
	for _, k := range closes {
		at, bad := sentOn[k.name]
		c.Cond(!bad, rule, "container:close("+k.name+")", k.pos, "the closed channel is a signal nobody sends on",
			"channel "+k.name+" is closed here but sent on at "+at+": a sender that is still running panics with 'send on closed channel'")
	}
	if len(closes) == 0 {
		c.Undecided(rule, "container:close", "-", "no channel close found")
	}
	c.Expect(rule, 2)
}

func init() {
	postHooks["C18"] = append(postHooks["C18"], checkPermissionConstants)
	postHooks["C07"] = append(postHooks["C07"], checkErrorReplyText)
}

// checkPermissionConstants: AddFilePermission, evaluated for each named permission constant, enters the name into
// the set of that name (write -> Writable, read -> Readable, stat -> Statable) and into no stronger one.
func checkPermissionConstants(c *Check) {
	p := c.P
	rule := "8/permission-constants"
	fn := p.Func("runner/ptrace/filehandler", "FileSets.AddFilePermission")
	if fn == nil || len(fn.Params) < 3 {
		c.Undecided(rule, "filehandler.FileSets.AddFilePermission", "-", "function not found")
		return
	}
	nameP, modeP := fn.Params[1], fn.Params[2]
	for _, t := range [][2]string{{"FilePermWrite", "Writable"}, {"FilePermRead", "Readable"}, {"FilePermStat", "Statable"}} {
		val, ok := p.ConstInt(repoModule+"/runner/ptrace/filehandler", t[0])
		if !ok {
			c.Undecided(rule, "filehandler."+t[0], "-", "constant not found")
			continue
		}
		got := map[string]bool{}
		w := &walker{fn: fn, MaxVisits: 4, Inline: -1}
		w.Seed = func(w *walker, st *wstate, v ssa.Value) *absVal {
			if v == ssa.Value(modeP) {
				return avInt(val)
			}
			return nil
		}
		w.OnInstr = func(w *walker, st *wstate, in ssa.Instruction) {
			ci, ok := in.(ssa.CallInstruction)
			if !ok {
				return
			}
			nm, _ := calleeOf(ci)
			if !strings.HasSuffix(nm, "FileSet).Add") || len(ci.Common().Args) < 2 || stripConv(ci.Common().Args[1]) != ssa.Value(nameP) {
				return
			}
			recv := ci.Common().Args[0]
			d := describe(recv)
			if av := w.eval(st, recv); av.k == avPtr && (strings.Contains(av.key, "Writable") || strings.Contains(av.key, "Readable") || strings.Contains(av.key, "Statable")) {
				d = av.key // the cell the evaluated pointer denotes (e.g. an entry of a table of sets picked by the mode)
			}
			// an entry of a literal table of sets picked by the (seeded, hence constant) mode
			if ld, ok := recv.(*ssa.UnOp); ok && ld.Op == token.MUL {
				if ia, ok := ld.X.(*ssa.IndexAddr); ok {
					if idx, ok := w.eval(st, ia.Index).Int(); ok {
						base := ia.X
						if sl, ok := base.(*ssa.Slice); ok {
							base = sl.X // a slice literal: the slice of a fresh array
						}
						if refs := base.Referrers(); refs != nil {
							for _, r := range *refs {
								if ia2, ok := r.(*ssa.IndexAddr); ok && ia2 != ia {
									if k, ok := constInt(ia2.Index); ok && k == idx && ia2.Referrers() != nil {
										for _, u := range *ia2.Referrers() {
											if stv, ok := u.(*ssa.Store); ok && stv.Addr == ssa.Value(ia2) {
												d = describe(stv.Val)
											}
										}
									}
								}
							}
						}
					}
				}
			}
			for _, set := range []string{"Writable", "Readable", "Statable"} {
				if strings.Contains(d, set) {
					got[set] = true
				}
			}
			if len(got) == 0 {
				got["?"+d] = true
			}
		}
		w.Run()
		var gl []string
		for k := range got {
			gl = append(gl, k)
		}
		sort.Strings(gl)
		c.Cond(len(gl) == 1 && gl[0] == t[1] && !w.Truncated, rule, "filehandler.AddFilePermission:"+t[0], p.Pos(fn.Pos()), t[0]+" enters the name into "+t[1],
			fmt.Sprintf("with mode %s (=%d) the name itself is entered into %v, want [%s]: a grant lands in the wrong set", t[0], val, gl, t[1]))
	}
	c.Expect(rule, 3)
}

// checkErrorReplyText: the error the host hands to the caller for a failed launch is the container's message, which
// names the failing step; Error() returns the message field on every path.
func checkErrorReplyText(c *Check) {
	p := c.P
	rule := "17/error-names-step"
	fn := p.Func("container", "errorReply.Error")
	if fn == nil {
		c.Undecided(rule, "container.errorReply.Error", "-", "function not found")
		return
	}
	n := 0
	for _, b := range fn.Blocks {
		ret, ok := b.Instrs[len(b.Instrs)-1].(*ssa.Return)
		if !ok || len(ret.Results) != 1 {
			continue
		}
		n++
		d := describe(ret.Results[0])
		c.Cond(strings.HasSuffix(d, ".Msg"), rule, fmt.Sprintf("container.errorReply.Error:return#%d", n), p.Pos(ret.Pos()), "returns the message (step and cause) the container sent",
			"Error() returns "+d+" instead of the message field: the text that names the failing step is lost")
	}
	c.Expect(rule, 1)
}

func init() {
	postHooks["C06"] = append(postHooks["C06"], checkNoSliceReinterpretation)
}

// checkNoSliceReinterpretation: no library function turns a pointer to one slice into a pointer to a slice of
// another type through unsafe.Pointer: the result shares the argument's backing array, so a list derived from the
// caller's configuration (descriptor lists) is modified in place when it is extended or shuffled.
func checkNoSliceReinterpretation(c *Check) {
	p := c.P
	rule := "10/no-slice-reinterpretation"
	// functions that return their slice parameter reinterpreted
	reint := map[*ssa.Function]string{}
	n := 0
	for _, fn := range p.AllFuncs() {
		if !inModule(fn) || fn.Pkg == nil || strings.HasSuffix(fn.Pkg.Pkg.Path(), "_test") || strings.Contains(fn.Pkg.Pkg.Path(), "/cmd/") {
			continue
		}
		for _, b := range fn.Blocks {
			for _, in := range b.Instrs {
				cv, ok := in.(*ssa.Convert)
				if !ok {
					continue
				}
				n++
				if cv.X.Type().String() != "unsafe.Pointer" {
					continue
				}
				if pt, ok := cv.Type().Underlying().(*types.Pointer); ok {
					if _, isSl := pt.Elem().Underlying().(*types.Slice); isSl {
						reint[fn] = p.Pos(cv.Pos())
					}
				}
			}
		}
	}
	// mutated(v): v is extended, copied into or stored into, here or (one level) in a callee it is passed to
	var mutated func(v ssa.Value, depth int, seen map[ssa.Value]bool) string
	mutated = func(v ssa.Value, depth int, seen map[ssa.Value]bool) string {
		if v == nil || seen[v] || v.Referrers() == nil {
			return ""
		}
		seen[v] = true
		for _, r := range *v.Referrers() {
			switch x := r.(type) {
			case *ssa.Phi:
				if m := mutated(x, depth, seen); m != "" {
					return m
				}
			case *ssa.Slice:
				if m := mutated(x, depth, seen); m != "" {
					return m
				}
			case *ssa.IndexAddr:
				if x.Referrers() != nil {
					for _, u := range *x.Referrers() {
						if st, ok := u.(*ssa.Store); ok && st.Addr == ssa.Value(x) {
							return p.Pos(st.Pos())
						}
					}
				}
			case *ssa.Call:
				if bi, ok := x.Call.Value.(*ssa.Builtin); ok {
					if (bi.Name() == "append" || bi.Name() == "copy") && len(x.Call.Args) > 0 && x.Call.Args[0] == v {
						return p.Pos(x.Pos())
					}
					continue
				}
				if _, callee := calleeOf(x); callee != nil && inModule(callee) && depth > 0 {
					for i, a := range x.Call.Args {
						if a == v && i < len(callee.Params) {
							if m := mutated(callee.Params[i], depth-1, seen); m != "" {
								return m
							}
						}
					}
				}
			}
		}
		return ""
	}
	bad := ""
	for _, fn := range p.AllFuncs() {
		if !inModule(fn) || len(reint) == 0 {
			continue
		}
		for _, ci := range callInstrs(fn) {
			_, callee := calleeOf(ci)
			if at, ok := reint[callee]; ok {
				if v, isV := ci.(ssa.Value); isV {
					if m := mutated(v, 2, map[ssa.Value]bool{}); m != "" {
						bad = shortName(callee) + " (" + at + "), result modified at " + m
					}
				}
			}
		}
	}
	c.Cond(bad == "", rule, "library:unsafe-slice-header", "-", fmt.Sprintf("no reinterpreted slice header is modified through its alias (%d conversions inspected, %d reinterpreting functions)", n, len(reint)),
		"a slice is reinterpreted as a slice of another type by "+bad+": the result aliases its argument, so extending or reordering it rewrites the caller's list")
}

func init() {
	postHooks["C01"] = append(postHooks["C01"], checkBuildLeavesInputsAlone)
}

// checkBuildLeavesInputsAlone: building a filter does not write into the lists it was given: it neither appends to
// a list of the policy (append writes into the spare capacity of the caller's array, which may be the next list:
// `table[:k]`, `table[k:]`) nor sorts or stores into one.
func checkBuildLeavesInputsAlone(c *Check) {
	p := c.P
	rule := "10/inputs-not-modified"
	fn := p.Func("pkg/seccomp/libseccomp", "Builder.Build")
	if fn == nil || len(fn.Params) == 0 {
		c.Undecided(rule, "libseccomp.Builder.Build", "-", "function not found")
		return
	}
	recv := fn.Params[0]
	isInput := func(v ssa.Value) bool {
		v = stripConv(v)
		if u, ok := v.(*ssa.UnOp); ok && u.Op == token.MUL {
			if fa, ok := u.X.(*ssa.FieldAddr); ok && stripConv(fa.X) == ssa.Value(recv) {
				_, isSl := u.Type().Underlying().(*types.Slice)
				return isSl
			}
		}
		return false
	}
	n, bad := 0, ""
	var scan func(f *ssa.Function, isIn func(v ssa.Value) bool, depth int)
	scan = func(f *ssa.Function, isIn func(v ssa.Value) bool, depth int) {
		for _, b := range f.Blocks {
			for _, in := range b.Instrs {
				switch x := in.(type) {
				case *ssa.Call:
					n++
					if bi, ok := x.Call.Value.(*ssa.Builtin); ok {
						if bi.Name() == "append" && len(x.Call.Args) > 0 && isIn(x.Call.Args[0]) {
							bad = "append to a list of the policy at " + p.Pos(x.Pos())
						}
						continue
					}
					nm, callee := calleeOf(x)
					if strings.HasPrefix(nm, "sort.") || strings.HasPrefix(nm, "slices.Sort") || nm == "slices.Reverse" {
						for _, a := range x.Call.Args {
							if isIn(a) {
								bad = nm + " on a list of the policy at " + p.Pos(x.Pos())
							}
						}
					}
					if callee != nil && inModule(callee) && depth > 0 && len(callee.Blocks) > 0 {
						for k, a := range x.Call.Args {
							if isIn(a) && k < len(callee.Params) {
								par := callee.Params[k]
								scan(callee, func(v ssa.Value) bool { return stripConv(v) == ssa.Value(par) }, depth-1)
							}
						}
					}
				case *ssa.Store:
					if ia, ok := x.Addr.(*ssa.IndexAddr); ok && isIn(ia.X) {
						bad = "store into a list of the policy at " + p.Pos(x.Pos())
					}
				}
			}
		}
	}
	scan(fn, isInput, 2)
	c.Cond(bad == "", rule, "libseccomp.Builder.Build:lists", p.Pos(fn.Pos()), fmt.Sprintf("the allow and trace lists are only read (%d calls inspected)", n),
		"Build modifies its input: "+bad+" (the caller's array, possibly shared with the other list, is overwritten: names move between allow and trace)")
}
