package main

// C02, additional rules: the string reader, freshness of the base directories,
// and "no resolution step is dropped".

import (
	"fmt"
	"go/constant"
	"go/token"
	"strings"

	"golang.org/x/tools/go/ssa"
)

func checkC02Reader(c *Check) {
	p := c.P
	// ---------- 7: the tracee-string reader ----------
	gs := p.Func("ptracer", "Context.GetString")
	if gs == nil {
		c.Undecided("7/string-reader", "ptracer.Context.GetString", "-", "function not found")
	} else {
		// (a) what is returned is always the bytes read into this call's buffer, up to the terminator: never a
		// constant (an empty or fixed name would be judged instead of the name the kernel acts on)
		for _, b := range gs.Blocks {
			ret, ok := b.Instrs[len(b.Instrs)-1].(*ssa.Return)
			if !ok {
				continue
			}
			r := ret.Results[0]
			okBuf := false
			if cv, isConv := r.(*ssa.Convert); isConv {
				base := cv.X
				for {
					sl, isSl := base.(*ssa.Slice)
					if !isSl {
						break
					}
					base = sl.X
				}
				switch bx := base.(type) {
				case *ssa.MakeSlice:
					okBuf = bx.Parent() == gs
				case *ssa.Alloc:
					okBuf = bx.Parent() == gs
				}
			}
			c.Cond(okBuf, "7/string-reader", fmt.Sprintf("ptracer.GetString:return@b%d", b.Index), p.Pos(ret.Pos()),
				"returns the bytes read into this call's buffer", "returns "+describe(r)+" instead of the bytes read from the tracee: the policy judges a name the kernel does not use")
		}
		// (b) the switch to the fallback primitive is taken only when the primary does not exist (ENOSYS)
		enosys := p.Sys("ENOSYS")
		cd := controlDeps(gs)
		for _, b := range gs.Blocks {
			for _, in := range b.Instrs {
				st, ok := in.(*ssa.Store)
				if !ok {
					continue
				}
				g := rootGlobal(st.Addr)
				if g == nil || g.Pkg != gs.Pkg {
					continue
				}
				guard := cd.guardOf(b)
				okG := false
				for _, a := range Support(guard) {
					if strings.HasSuffix(a, fmt.Sprintf(" == %#x", enosys)) {
						if v, _, _ := Valid(fImp(guard, fLit(a))); v {
							okG = true
						}
					}
				}
				c.Cond(okG, "7/string-reader", "ptracer.GetString:store("+g.Name()+")", p.Pos(st.Pos()),
					"the process-wide switch of read primitive happens only on ENOSYS", "the process-wide reader switch "+g.Name()+" is written under "+guard.String()+": an error caused by one tracee (EFAULT, EPERM) changes how every other run's names are read")
			}
		}
	}
	c.Expect("7/string-reader", 3)

	// ---------- 8: base directories are read afresh ----------
	for _, name := range []string{"getProcCwd", "getProcFd"} {
		fn := p.Func("runner/ptrace", name)
		if fn == nil {
			c.Undecided("8/fresh-base", "runner/ptrace."+name, "-", "function not found")
			continue
		}
		// the readlink of this invocation
		var rl *ssa.Call
		for _, ci := range callInstrs(fn) {
			if n, _ := calleeOf(ci); n == "os.Readlink" || n == "syscall.Readlink" || n == "golang.org/x/sys/unix.Readlink" {
				rl, _ = ci.(*ssa.Call)
			}
		}
		if rl == nil {
			c.Fail("8/fresh-base", "runner/ptrace."+name+":readlink", p.Pos(fn.Pos()), "the directory is not read from /proc in this call")
			continue
		}
		for _, b := range fn.Blocks {
			ret, ok := b.Instrs[len(b.Instrs)-1].(*ssa.Return)
			if !ok {
				continue
			}
			r := ret.Results[0]
			okR := false
			if cst, isC := r.(*ssa.Const); isC && cst.Value != nil && cst.Value.Kind() == constant.String && constant.StringVal(cst.Value) == "" {
				okR = true // unknown: callers treat "" as "cannot decide"
			} else if flowsFrom(r, rl, 0) && dominatesInstr(rl, ret) {
				okR = true
			}
			c.Cond(okR, "8/fresh-base", fmt.Sprintf("runner/ptrace.%s:return@b%d", name, b.Index), p.Pos(ret.Pos()),
				"returns what this call's readlink reported (or \"\")", "returns "+describe(r)+", which is not derived from a readlink made in this call: a remembered directory is stale after chdir / dup2 / pid reuse")
		}
	}
	c.Expect("8/fresh-base", 4)

	// ---------- 9: no resolution step is dropped ----------
	rt := p.Func("runner/ptrace", "resolveTraceePath")
	once := p.Func("runner/ptrace", "resolveTraceePathOnce")
	if rt == nil || once == nil {
		c.Undecided("9/no-dropped-step", "runner/ptrace.resolveTraceePath", "-", "functions not found")
	} else {
		// walk the loop for as many rounds as its bound allows; every call of the single-step resolver produces a
		// numbered token; what is returned must carry the token of the LAST step made on that path
		bound := 0
		for _, b := range rt.Blocks {
			for _, in := range b.Instrs {
				if bo, ok := in.(*ssa.BinOp); ok && (bo.Op == token.LSS || bo.Op == token.GEQ || bo.Op == token.LEQ || bo.Op == token.GTR) {
					if v, isC := constInt(bo.Y); isC && v > int64(bound) && v < 4096 {
						bound = int(v)
					}
				}
			}
		}
		step := 0
		bad, paths, maxSteps := "", 0, 0
		w := &walker{fn: rt, MaxVisits: bound + 3}
		w.Seed = func(w *walker, st *wstate, v ssa.Value) *absVal {
			if ex, ok := v.(*ssa.Extract); ok {
				if call, ok := ex.Tuple.(*ssa.Call); ok {
					if _, callee := calleeOf(call); callee == once {
						if ex.Index == 0 {
							step++
							return avTag(fmt.Sprintf("step#%d", step))
						}
					}
				}
			}
			return nil
		}
		w.OnReturn = func(w *walker, st *wstate, ret *ssa.Return, rs []*absVal) {
			paths++
			// the latest token on this path: the highest-numbered step value still in vals
			last := 0
			for v, a := range st.vals {
				if ex, ok := v.(*ssa.Extract); ok && ex.Index == 0 && a != nil && strings.HasPrefix(a.tag, "step#") {
					fmt.Sscanf(a.tag, "step#%d", &last)
				}
			}
			if last == 0 {
				return
			}
			if last > maxSteps {
				maxSteps = last
			}
			if rs[0].tag != fmt.Sprintf("step#%d", last) && bad == "" {
				bad = fmt.Sprintf("%s returns %s after step#%d was computed", p.Pos(ret.Pos()), rs[0].String(), last)
			}
		}
		w.Run()
		switch {
		case w.Truncated || paths == 0 || bound == 0:
			c.Undecided("9/no-dropped-step", "runner/ptrace.resolveTraceePath:steps", p.Pos(rt.Pos()), fmt.Sprintf("could not enumerate the resolution loop (bound %d, %d paths)", bound, paths))
		case bad != "":
			c.Fail("9/no-dropped-step", "runner/ptrace.resolveTraceePath:steps", p.Pos(rt.Pos()), "the result of a resolution step is discarded: "+bad+" (the name given to the policy is one symlink short of the name the kernel reaches)")
		default:
			c.OK("9/no-dropped-step", "runner/ptrace.resolveTraceePath:steps", p.Pos(rt.Pos()), fmt.Sprintf("on all %d paths through the loop (bound %d) the value returned is the result of the last step", paths, bound))
		}
	}
	c.Expect("9/no-dropped-step", 1)

	// ---------- 10: nothing is remembered between trapped calls ----------
	checkNoSharedState(c, "10/no-shared-state", func(path string) bool {
		return strings.HasSuffix(path, "/ptracer") || strings.HasSuffix(path, "/runner/ptrace") || strings.HasSuffix(path, "/runner/ptrace/filehandler")
	}, 2)
}

// flowsFrom: v is computed from root through operators, conversions, tuple
// extraction, φ-nodes (all incoming values) and calls (some argument).
func flowsFrom(v ssa.Value, root ssa.Value, d int) bool {
	if d > 10 {
		return false
	}
	if v == root {
		return true
	}
	switch x := v.(type) {
	case *ssa.BinOp:
		return flowsFrom(x.X, root, d+1) || flowsFrom(x.Y, root, d+1)
	case *ssa.UnOp:
		return flowsFrom(x.X, root, d+1)
	case *ssa.Convert:
		return flowsFrom(x.X, root, d+1)
	case *ssa.ChangeType:
		return flowsFrom(x.X, root, d+1)
	case *ssa.Slice:
		return flowsFrom(x.X, root, d+1)
	case *ssa.Extract:
		return flowsFrom(x.Tuple, root, d+1)
	case *ssa.Phi:
		for _, e := range x.Edges {
			if !flowsFrom(e, root, d+1) {
				return false
			}
		}
		return len(x.Edges) > 0
	case *ssa.Call:
		if x.Common().StaticCallee() == nil || !inModule(x.Common().StaticCallee()) {
			return false
		}
		for _, a := range x.Call.Args {
			if flowsFrom(a, root, d+1) {
				return true
			}
		}
	}
	return false
}
