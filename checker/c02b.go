package main

// C02, additional rules: the string reader, freshness of the base directories,
// and "no resolution step is dropped".

import (
	"fmt"
	"go/constant"
	"go/token"
	"go/types"
	"strings"

	"golang.org/x/tools/go/ssa"
)

func checkC02Reader(c *Check) {
	p := c.P
	// ---------- 7: the tracee-string reader ----------
	gs := p.Func("ptracer", "Context.GetString")
	if gs == nil {
		c.Undecided("7/string-reader", "ptracer.Context.GetString", "-", "function not found")
	} else {
		// (a) what is returned is always the bytes read into this call's buffer, up to the terminator: never a
		// constant (an empty or fixed name would be judged instead of the name the kernel acts on)
		for _, b := range gs.Blocks {
			ret, ok := b.Instrs[len(b.Instrs)-1].(*ssa.Return)
			if !ok {
				continue
			}
			r := ret.Results[0]
			okBuf := false
			if cv, isConv := r.(*ssa.Convert); isConv {
				base := cv.X
				for {
					sl, isSl := base.(*ssa.Slice)
					if !isSl {
						break
					}
					base = sl.X
				}
				switch bx := base.(type) {
				case *ssa.MakeSlice:
					okBuf = bx.Parent() == gs
				case *ssa.Alloc:
					okBuf = bx.Parent() == gs
				}
			}
			c.Cond(okBuf, "7/string-reader", fmt.Sprintf("ptracer.GetString:return@b%d", b.Index), p.Pos(ret.Pos()),
				"returns the bytes read into this call's buffer", "returns "+describe(r)+" instead of the bytes read from the tracee: the policy judges a name the kernel does not use")
		}
		// (b) the switch to the fallback primitive is taken only when the primary does not exist (ENOSYS)
		enosys := p.Sys("ENOSYS")
		cd := controlDeps(gs)
		for _, b := range gs.Blocks {
			for _, in := range b.Instrs {
				st, ok := in.(*ssa.Store)
				if !ok {
					continue
				}
				g := rootGlobal(st.Addr)
				if g == nil || g.Pkg != gs.Pkg {
					continue
				}
				guard := cd.guardOf(b)
				okG := false
				for _, a := range Support(guard) {
					if strings.HasSuffix(a, fmt.Sprintf(" == %#x", enosys)) {
						if v, _, _ := Valid(fImp(guard, fLit(a))); v {
							okG = true
						}
					}
				}
				c.Cond(okG, "7/string-reader", "ptracer.GetString:store("+g.Name()+")", p.Pos(st.Pos()),
					"the process-wide switch of read primitive happens only on ENOSYS", "the process-wide reader switch "+g.Name()+" is written under "+guard.String()+": an error caused by one tracee (EFAULT, EPERM) changes how every other run's names are read")
			}
		}
	}
	c.Expect("7/string-reader", 3)

	// ---------- 8: base directories are read afresh ----------
	for _, name := range []string{"getProcCwd", "getProcFd"} {
		fn := p.Func("runner/ptrace", name)
		if fn == nil {
			c.Undecided("8/fresh-base", "runner/ptrace."+name, "-", "function not found")
			continue
		}
		// the readlink of this invocation
		var rl *ssa.Call
		for _, ci := range callInstrs(fn) {
			if n, _ := calleeOf(ci); n == "os.Readlink" || n == "syscall.Readlink" || n == "golang.org/x/sys/unix.Readlink" {
				rl, _ = ci.(*ssa.Call)
			}
		}
		if rl == nil {
			c.Fail("8/fresh-base", "runner/ptrace."+name+":readlink", p.Pos(fn.Pos()), "the directory is not read from /proc in this call")
			continue
		}
		for _, b := range fn.Blocks {
			ret, ok := b.Instrs[len(b.Instrs)-1].(*ssa.Return)
			if !ok {
				continue
			}
			r := ret.Results[0]
			okR := false
			if cst, isC := r.(*ssa.Const); isC && cst.Value != nil && cst.Value.Kind() == constant.String && constant.StringVal(cst.Value) == "" {
				okR = true // unknown: callers treat "" as "cannot decide"
			} else if flowsFrom(r, rl, 0) && dominatesInstr(rl, ret) {
				okR = true
			}
			c.Cond(okR, "8/fresh-base", fmt.Sprintf("runner/ptrace.%s:return@b%d", name, b.Index), p.Pos(ret.Pos()),
				"returns what this call's readlink reported (or \"\")", "returns "+describe(r)+", which is not derived from a readlink made in this call: a remembered directory is stale after chdir / dup2 / pid reuse")
		}
	}
	c.Expect("8/fresh-base", 4)

	// ---------- 9: no resolution step is dropped ----------
	rt := p.Func("runner/ptrace", "resolveTraceePath")
	once := p.Func("runner/ptrace", "resolveTraceePathOnce")
	if rt == nil || once == nil {
		c.Undecided("9/no-dropped-step", "runner/ptrace.resolveTraceePath", "-", "functions not found")
	} else {
		// walk the loop for as many rounds as its bound allows; every call of the single-step resolver produces a
		// numbered token; what is returned must carry the token of the LAST step made on that path
		bound := 0
		for _, b := range rt.Blocks {
			for _, in := range b.Instrs {
				if bo, ok := in.(*ssa.BinOp); ok && (bo.Op == token.LSS || bo.Op == token.GEQ || bo.Op == token.LEQ || bo.Op == token.GTR) {
					if v, isC := constInt(bo.Y); isC && v > int64(bound) && v < 4096 {
						bound = int(v)
					}
				}
			}
		}
		step := 0
		bad, paths, maxSteps := "", 0, 0
		w := &walker{fn: rt, MaxVisits: bound + 3}
		w.Seed = func(w *walker, st *wstate, v ssa.Value) *absVal {
			if ex, ok := v.(*ssa.Extract); ok {
				if call, ok := ex.Tuple.(*ssa.Call); ok {
					if _, callee := calleeOf(call); callee == once {
						if ex.Index == 0 {
							step++
							return avTag(fmt.Sprintf("step#%d", step))
						}
					}
				}
			}
			return nil
		}
		w.OnReturn = func(w *walker, st *wstate, ret *ssa.Return, rs []*absVal) {
			paths++
			// the latest token on this path: the highest-numbered step value still in vals
			last := 0
			for v, a := range st.vals {
				if ex, ok := v.(*ssa.Extract); ok && ex.Index == 0 && a != nil && strings.HasPrefix(a.tag, "step#") {
					fmt.Sscanf(a.tag, "step#%d", &last)
				}
			}
			if last == 0 {
				return
			}
			if last > maxSteps {
				maxSteps = last
			}
			if rs[0].tag != fmt.Sprintf("step#%d", last) && bad == "" {
				bad = fmt.Sprintf("%s returns %s after step#%d was computed", p.Pos(ret.Pos()), rs[0].String(), last)
			}
		}
		w.Run()
		switch {
		case w.Truncated || paths == 0 || bound == 0:
			c.Undecided("9/no-dropped-step", "runner/ptrace.resolveTraceePath:steps", p.Pos(rt.Pos()), fmt.Sprintf("could not enumerate the resolution loop (bound %d, %d paths)", bound, paths))
		case bad != "":
			c.Fail("9/no-dropped-step", "runner/ptrace.resolveTraceePath:steps", p.Pos(rt.Pos()), "the result of a resolution step is discarded: "+bad+" (the name given to the policy is one symlink short of the name the kernel reaches)")
		default:
			c.OK("9/no-dropped-step", "runner/ptrace.resolveTraceePath:steps", p.Pos(rt.Pos()), fmt.Sprintf("on all %d paths through the loop (bound %d) the value returned is the result of the last step", paths, bound))
		}
	}
	c.Expect("9/no-dropped-step", 1)

	// ---------- 10: nothing is remembered between trapped calls ----------
	checkNoSharedState(c, "10/no-shared-state", func(path string) bool {
		return strings.HasSuffix(path, "/ptracer") || strings.HasSuffix(path, "/runner/ptrace") || strings.HasSuffix(path, "/runner/ptrace/filehandler")
	}, 2)
}

// flowsFrom: v is computed from root through operators, conversions, tuple
// extraction, φ-nodes (all incoming values) and calls (some argument).
func flowsFrom(v ssa.Value, root ssa.Value, d int) bool {
	if d > 10 {
		return false
	}
	if v == root {
		return true
	}
	switch x := v.(type) {
	case *ssa.BinOp:
		return flowsFrom(x.X, root, d+1) || flowsFrom(x.Y, root, d+1)
	case *ssa.UnOp:
		return flowsFrom(x.X, root, d+1)
	case *ssa.Convert:
		return flowsFrom(x.X, root, d+1)
	case *ssa.ChangeType:
		return flowsFrom(x.X, root, d+1)
	case *ssa.Slice:
		return flowsFrom(x.X, root, d+1)
	case *ssa.Extract:
		return flowsFrom(x.Tuple, root, d+1)
	case *ssa.Phi:
		for _, e := range x.Edges {
			if !flowsFrom(e, root, d+1) {
				return false
			}
		}
		return len(x.Edges) > 0
	case *ssa.Call:
		if x.Common().StaticCallee() == nil || !inModule(x.Common().StaticCallee()) {
			return false
		}
		for _, a := range x.Call.Args {
			if flowsFrom(a, root, d+1) {
				return true
			}
		}
	}
	return false
}

// ---------- 11: the chunked reader gives up only when the buffer is full ----------

// linEnv evaluates integer SSA expressions over the abstract quantities of a chunked read loop: r = bytes of room
// left (len of the re-sliced buffer), t = bytes read so far, L = len of the original buffer, with t + r = L.
type linEnv struct {
	roomPhi *ssa.Phi  // the buffer that is re-sliced each round (nil if the loop advances an offset only)
	cntPhi  *ssa.Phi  // the running count (nil if the loop re-slices only)
	orig    ssa.Value // the original buffer
	t, r, l int64
}

func (e *linEnv) eval(v ssa.Value) (int64, bool) {
	v = stripConv(v)
	if c, ok := constInt(v); ok {
		return c, true
	}
	switch x := v.(type) {
	case *ssa.Phi:
		if x == e.cntPhi {
			return e.t, true
		}
	case *ssa.Call:
		if bi, ok := x.Call.Value.(*ssa.Builtin); ok && bi.Name() == "len" && len(x.Call.Args) == 1 {
			a := x.Call.Args[0]
			if ph, ok := a.(*ssa.Phi); ok && ph == e.roomPhi {
				return e.r, true
			}
			if a == e.orig {
				return e.l, true
			}
		}
	case *ssa.BinOp:
		a, ok1 := e.eval(x.X)
		b, ok2 := e.eval(x.Y)
		if !ok1 || !ok2 {
			return 0, false
		}
		switch x.Op {
		case token.ADD:
			return a + b, true
		case token.SUB:
			return a - b, true
		case token.MUL:
			return a * b, true
		}
	}
	return 0, false
}

func (e *linEnv) cond(v ssa.Value) (bool, bool) {
	switch x := v.(type) {
	case *ssa.UnOp:
		if x.Op == token.NOT {
			b, ok := e.cond(x.X)
			return !b, ok
		}
	case *ssa.BinOp:
		a, ok1 := e.eval(x.X)
		b, ok2 := e.eval(x.Y)
		if !ok1 || !ok2 {
			return false, false
		}
		switch x.Op {
		case token.LSS:
			return a < b, true
		case token.LEQ:
			return a <= b, true
		case token.GTR:
			return a > b, true
		case token.GEQ:
			return a >= b, true
		case token.EQL:
			return a == b, true
		case token.NEQ:
			return a != b, true
		}
	}
	return false, false
}

// checkChunkedReader: in the function that reads tracee memory chunk by chunk into a caller-supplied buffer, the loop
// is left through its header exactly when no room is left. (The other exits — error, zero-length read, terminator
// found — are the reader's documented stops and are decided by rule 7.)
func checkChunkedReader(c *Check) {
	p := c.P
	const rule = "11/reader-fills-buffer"
	gs := p.Func("ptracer", "Context.GetString")
	if gs == nil {
		c.Undecided(rule, "ptracer.Context.GetString", "-", "function not found")
		return
	}
	// the chunk loop: a same-package callee of GetString (depth ≤2) with a loop whose body calls the vm reader
	var loopFn *ssa.Function
	var header *ssa.BasicBlock
	seen := map[*ssa.Function]bool{}
	var visit func(fn *ssa.Function, d int)
	visit = func(fn *ssa.Function, d int) {
		if fn == nil || seen[fn] || d > 2 || len(fn.Blocks) == 0 || fn.Pkg != gs.Pkg {
			return
		}
		seen[fn] = true
		if loopFn == nil {
			for _, b := range fn.Blocks {
				if !isLoopHeader(b) || blockIf(b) == nil {
					continue
				}
				// a slice-typed parameter is (re-)sliced and a call is made in the loop
				hasSliceParam := false
				for _, pr := range fn.Params {
					if _, ok := pr.Type().Underlying().(*types.Slice); ok {
						hasSliceParam = true
					}
				}
				if !hasSliceParam {
					continue
				}
				for _, ph := range b.Instrs {
					if _, ok := ph.(*ssa.Phi); ok {
						loopFn, header = fn, b
					}
				}
			}
		}
		for _, ci := range callInstrs(fn) {
			_, callee := calleeOf(ci)
			visit(callee, d+1)
		}
	}
	visit(gs, 0)
	if loopFn == nil {
		c.Undecided(rule, "ptracer.GetString:chunk-loop", p.Pos(gs.Pos()), "the chunked read loop was not found")
		return
	}
	key := shortName(loopFn) + ":loop-exit"
	pos := p.Pos(blockIf(header).Pos())
	if pos == "-" || pos == "" {
		pos = p.Pos(loopFn.Pos())
	}
	env := &linEnv{}
	for _, pr := range loopFn.Params {
		if _, ok := pr.Type().Underlying().(*types.Slice); ok {
			env.orig = pr
		}
	}
	// φ-nodes of the header: room (slice, re-sliced from itself with a low bound) and count (int, += step)
	var roomStep, cntStep ssa.Value
	for _, in := range header.Instrs {
		ph, ok := in.(*ssa.Phi)
		if !ok {
			continue
		}
		if _, isSl := ph.Type().Underlying().(*types.Slice); isSl {
			okShape := true
			var step ssa.Value
			for _, e := range ph.Edges {
				if e == env.orig {
					continue
				}
				if sl, ok := e.(*ssa.Slice); ok && sl.X == ph && sl.Low != nil && sl.High == nil {
					step = sl.Low
					continue
				}
				okShape = false
			}
			if okShape && step != nil {
				env.roomPhi, roomStep = ph, step
			}
		} else if bt, isB := ph.Type().Underlying().(*types.Basic); isB && bt.Info()&types.IsInteger != 0 {
			okShape := true
			var step ssa.Value
			for _, e := range ph.Edges {
				if v, ok := constInt(e); ok && v == 0 {
					continue
				}
				if bo, ok := e.(*ssa.BinOp); ok && bo.Op == token.ADD && (bo.X == ph || bo.Y == ph) {
					if bo.X == ph {
						step = bo.Y
					} else {
						step = bo.X
					}
					continue
				}
				okShape = false
			}
			if okShape && step != nil && env.cntPhi == nil {
				env.cntPhi, cntStep = ph, step
			}
		}
	}
	if env.roomPhi == nil && env.cntPhi == nil {
		c.Undecided(rule, key, pos, "neither a re-sliced buffer nor a running count was recognised in the loop")
		return
	}
	if env.roomPhi != nil && env.cntPhi != nil && stripConv(roomStep) != stripConv(cntStep) {
		// the two do not advance together: the count is not "bytes read so far"; evaluate on the room alone
		env.cntPhi = nil
	}
	iff := blockIf(header)
	// successor 0 continues the loop if it is inside the loop (reaches the header again), otherwise successor 1 does
	contOnTrue := anyReach(header.Succs[0], header)
	bad := ""
	decided := true
	for l := int64(0); l <= 6 && decided; l++ {
		for t := int64(0); t <= l; t++ {
			env.l, env.t, env.r = l, t, l-t
			v, ok := env.cond(iff.Cond)
			if !ok {
				decided = false
				break
			}
			cont := v == contOnTrue
			if cont != (env.r > 0) && bad == "" {
				bad = fmt.Sprintf("with a buffer of %d bytes and %d read so far (room %d) the loop %s", l, t, env.r, map[bool]string{true: "continues with no room", false: "stops although room is left"}[cont])
			}
		}
	}
	switch {
	case !decided:
		c.Undecided(rule, key, pos, "the loop condition "+describe(iff.Cond)+" is not an expression over the room left, the bytes read and the buffer length")
	case bad != "":
		c.Fail(rule, key, pos, "the chunked reader leaves its loop at the wrong fill level: "+bad+" — a name that crosses the chunk boundary reaches the policy truncated")
	default:
		c.OK(rule, key, pos, "the loop continues exactly while room is left (all buffer sizes ≤6 × fill levels, invariant read+room=size)")
	}
	// each chunk is fetched from (start address + bytes read so far) into the room that is left
	var rd ssa.CallInstruction
	for _, b := range loopFn.Blocks {
		if !anyReach(header, b) || !anyReach(b, header) {
			continue
		}
		for _, in := range b.Instrs {
			ci, ok := in.(ssa.CallInstruction)
			if !ok {
				continue
			}
			hasBuf, hasAddr := false, false
			for _, a := range ci.Common().Args {
				if sl, ok := a.(*ssa.Slice); ok && (sl.X == env.roomPhi || sl.X == env.orig) {
					hasBuf = true
				}
				if bt, ok := a.Type().Underlying().(*types.Basic); ok && bt.Kind() == types.Uintptr {
					hasAddr = true
				}
			}
			if hasBuf && hasAddr && rd == nil {
				rd = ci
			}
		}
	}
	if rd == nil {
		c.Undecided(rule, shortName(loopFn)+":chunk-address", pos, "the call that fetches a chunk was not found in the loop")
	} else {
		okAddr, why := false, ""
		for _, a := range rd.Common().Args {
			bt, ok := a.Type().Underlying().(*types.Basic)
			if !ok || bt.Kind() != types.Uintptr {
				continue
			}
			why = describe(a)
			switch x := a.(type) {
			case *ssa.BinOp:
				if x.Op == token.ADD {
					for _, pair := range [][2]ssa.Value{{x.X, x.Y}, {x.Y, x.X}} {
						if _, isPar := pair[0].(*ssa.Parameter); isPar && env.cntPhi != nil && stripConv(pair[1]) == env.cntPhi {
							okAddr = true
						}
					}
				}
			case *ssa.Phi:
				// an address advanced in step with the buffer
				if x.Block() == header && roomStep != nil {
					good := true
					for _, e := range x.Edges {
						if _, isPar := e.(*ssa.Parameter); isPar {
							continue
						}
						if bo, ok := e.(*ssa.BinOp); ok && bo.Op == token.ADD && ((bo.X == x && stripConv(bo.Y) == stripConv(roomStep)) || (bo.Y == x && stripConv(bo.X) == stripConv(roomStep))) {
							continue
						}
						good = false
					}
					okAddr = good
				}
			}
		}
		c.Cond(okAddr, rule, shortName(loopFn)+":chunk-address", p.Pos(rd.Pos()), "chunk k is fetched from start + bytes read so far",
			"every chunk is fetched from "+why+", which does not advance with the bytes already read: a string that crosses a chunk boundary is returned with its head repeated, so the policy judges a name the kernel does not use")
	}
	c.Expect(rule, 2)
}

// ---------- 12: tracee-chosen text is never a format string ----------
func checkConstFormats(c *Check) {
	p := c.P
	const rule = "12/constant-format"
	n := 0
	for _, rel := range []string{"runner/ptrace", "ptracer", "runner/ptrace/filehandler"} {
		for _, fn := range p.PkgFuncs(rel) {
			for _, f := range withClosures(fn) {
				for _, ci := range callInstrs(f) {
					name, callee := calleeOf(ci)
					if callee == nil || callee.Pkg == nil || callee.Pkg.Pkg.Path() != "fmt" {
						continue
					}
					idx := -1
					switch callee.Name() {
					case "Sprintf", "Errorf", "Printf":
						idx = 0
					case "Fprintf":
						idx = 1
					}
					if idx < 0 || len(ci.Common().Args) <= idx {
						continue
					}
					n++
					_, isConst := constString(ci.Common().Args[idx])
					c.Cond(isConst, rule, fmt.Sprintf("%s:%s#%d", shortName(f), callee.Name(), n), p.Pos(ci.Pos()),
						"format is a constant", name+" is given the computed format "+describe(ci.Common().Args[idx])+": a '%' in a path, a link target or a name chosen by the traced program is interpreted as a verb and the path the policy sees is no longer the path the kernel uses")
				}
			}
		}
	}
	c.Expect(rule, 3)
}
