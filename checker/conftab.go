package main

// The literal tables of cmd/runprog/config, read from the syntax trees of the loaded (build-tag selected) files:
// package-level []string variables and the per-language profile map. Used by table-consistency rules.

import (
	"fmt"
	"go/ast"
	"go/constant"
	"go/token"
	"go/types"
	"sort"

	"golang.org/x/tools/go/ssa"
)

type profileTab struct {
	ExtraAllow, ExtraBan []string
	ExtraCount           map[string]int64
	Pos                  token.Pos
}

type configTabs struct {
	Lists    map[string][]string // package-level []string variables by name
	ListPos  map[string]token.Pos
	Profiles map[string]*profileTab
	Problems []string
}

func readConfigTabs(p *Prog) *configTabs {
	t := &configTabs{Lists: map[string][]string{}, ListPos: map[string]token.Pos{}, Profiles: map[string]*profileTab{}}
	pk := p.Pkg("cmd/runprog/config")
	if pk == nil {
		t.Problems = append(t.Problems, "package cmd/runprog/config not loaded")
		return t
	}
	str := func(e ast.Expr) (string, bool) {
		if tv, ok := pk.TypesInfo.Types[e]; ok && tv.Value != nil && tv.Value.Kind() == constant.String {
			return constant.StringVal(tv.Value), true
		}
		return "", false
	}
	strList := func(e ast.Expr) ([]string, bool) {
		cl, ok := e.(*ast.CompositeLit)
		if !ok {
			return nil, false
		}
		var out []string
		for _, el := range cl.Elts {
			s, ok := str(el)
			if !ok {
				return nil, false
			}
			out = append(out, s)
		}
		return out, true
	}
	field := func(cl *ast.CompositeLit, name string) ast.Expr {
		for _, el := range cl.Elts {
			if kv, ok := el.(*ast.KeyValueExpr); ok {
				if id, ok := kv.Key.(*ast.Ident); ok && id.Name == name {
					return kv.Value
				}
			}
		}
		return nil
	}
	for _, f := range pk.Syntax {
		for _, d := range f.Decls {
			gd, ok := d.(*ast.GenDecl)
			if !ok || gd.Tok != token.VAR {
				continue
			}
			for _, sp := range gd.Specs {
				vs := sp.(*ast.ValueSpec)
				for i, nm := range vs.Names {
					if i >= len(vs.Values) {
						continue
					}
					cl, ok := vs.Values[i].(*ast.CompositeLit)
					if !ok {
						continue
					}
					if l, ok := strList(cl); ok {
						t.Lists[nm.Name] = l
						t.ListPos[nm.Name] = nm.Pos()
						continue
					}
					// the profile map: map[string]ProgramConfig{ "name": {Syscall: SyscallConfig{…}} }
					for _, el := range cl.Elts {
						kv, ok := el.(*ast.KeyValueExpr)
						if !ok {
							continue
						}
						pname, ok := str(kv.Key)
						pc, ok2 := kv.Value.(*ast.CompositeLit)
						if !ok || !ok2 {
							continue
						}
						pt := &profileTab{ExtraCount: map[string]int64{}, Pos: kv.Pos()}
						t.Profiles[pname] = pt
						sc, _ := field(pc, "Syscall").(*ast.CompositeLit)
						if sc == nil {
							continue
						}
						if e := field(sc, "ExtraAllow"); e != nil {
							l, ok := strList(e)
							if !ok {
								t.Problems = append(t.Problems, "profile "+pname+": ExtraAllow is not a literal list")
							}
							pt.ExtraAllow = l
						}
						if e := field(sc, "ExtraBan"); e != nil {
							l, ok := strList(e)
							if !ok {
								t.Problems = append(t.Problems, "profile "+pname+": ExtraBan is not a literal list")
							}
							pt.ExtraBan = l
						}
						if e, ok := field(sc, "ExtraCount").(*ast.CompositeLit); ok {
							for _, ce := range e.Elts {
								ckv, ok := ce.(*ast.KeyValueExpr)
								if !ok {
									continue
								}
								k, ok1 := str(ckv.Key)
								var v int64
								ok2 := false
								if tv, ok := pk.TypesInfo.Types[ckv.Value]; ok && tv.Value != nil {
									v, ok2 = constant.Int64Val(constant.ToInt(tv.Value))
								}
								if !ok1 || !ok2 {
									t.Problems = append(t.Problems, "profile "+pname+": ExtraCount entry is not constant")
									continue
								}
								pt.ExtraCount[k] = v
							}
						}
					}
				}
			}
		}
	}
	return t
}

func (t *configTabs) profileNames() []string {
	var ns []string
	for n := range t.Profiles {
		ns = append(ns, n)
	}
	sort.Strings(ns)
	return ns
}

// ---- a small evaluator for the string lists GetConf assembles ----
//
// strSet over-approximates a []string value: the literal strings it may contain and the symbolic parts (fields of
// the selected profile, named by their field name, e.g. "ExtraAllow").
type strSet struct {
	lits map[string]bool
	syms map[string]bool
}

func newStrSet() *strSet { return &strSet{lits: map[string]bool{}, syms: map[string]bool{}} }
func (s *strSet) add(o *strSet) *strSet {
	if o != nil {
		for k := range o.lits {
			s.lits[k] = true
		}
		for k := range o.syms {
			s.syms[k] = true
		}
	}
	return s
}
func (s *strSet) clone() *strSet { return newStrSet().add(s) }

type listEval struct {
	info  *types.Info
	vars  map[string]ast.Expr      // package-level variable initialisers
	funcs map[string]*ast.FuncDecl // package-level functions
	cache map[string]*strSet
	depth int
}

func newListEval(info *types.Info, files []*ast.File) *listEval {
	e := &listEval{info: info, vars: map[string]ast.Expr{}, funcs: map[string]*ast.FuncDecl{}, cache: map[string]*strSet{}}
	for _, f := range files {
		for _, d := range f.Decls {
			switch x := d.(type) {
			case *ast.FuncDecl:
				if x.Recv == nil {
					e.funcs[x.Name.Name] = x
				}
			case *ast.GenDecl:
				if x.Tok != token.VAR {
					continue
				}
				for _, sp := range x.Specs {
					vs := sp.(*ast.ValueSpec)
					for i, nm := range vs.Names {
						if i < len(vs.Values) {
							e.vars[nm.Name] = vs.Values[i]
						}
					}
				}
			}
		}
	}
	return e
}

type listEnv map[string]*strSet

func (v listEnv) clone() listEnv {
	n := listEnv{}
	for k, s := range v {
		n[k] = s.clone()
	}
	return n
}
func (v listEnv) merge(o listEnv) {
	for k, s := range o {
		if v[k] == nil {
			v[k] = newStrSet()
		}
		v[k].add(s)
	}
}

func (e *listEval) expr(x ast.Expr, env listEnv) *strSet {
	out := newStrSet()
	if x == nil {
		return out
	}
	if tv, ok := e.info.Types[x]; ok && tv.Value != nil && tv.Value.Kind() == constant.String {
		out.lits[constant.StringVal(tv.Value)] = true
		return out
	}
	switch t := x.(type) {
	case *ast.ParenExpr:
		return e.expr(t.X, env)
	case *ast.CompositeLit:
		for _, el := range t.Elts {
			if kv, ok := el.(*ast.KeyValueExpr); ok {
				out.add(e.expr(kv.Value, env))
			} else {
				out.add(e.expr(el, env))
			}
		}
	case *ast.Ident:
		if s, ok := env[t.Name]; ok {
			return s.clone()
		}
		if s, ok := e.cache[t.Name]; ok {
			return s.clone()
		}
		if init, ok := e.vars[t.Name]; ok && e.depth < 8 {
			e.depth++
			s := e.expr(init, listEnv{})
			e.depth--
			e.cache[t.Name] = s
			return s.clone()
		}
	case *ast.SelectorExpr:
		out.syms[t.Sel.Name] = true
	case *ast.SliceExpr:
		return e.expr(t.X, env)
	case *ast.IndexExpr:
		return e.expr(t.X, env)
	case *ast.CallExpr:
		rs := e.call(t, env)
		if len(rs) > 0 {
			return rs[0]
		}
	}
	return out
}

// call evaluates a call and returns one set per result.
func (e *listEval) call(c *ast.CallExpr, env listEnv) []*strSet {
	var args []*strSet
	for _, a := range c.Args {
		args = append(args, e.expr(a, env))
	}
	if id, ok := c.Fun.(*ast.Ident); ok {
		switch id.Name {
		case "append":
			s := newStrSet()
			for _, a := range args {
				s.add(a)
			}
			return []*strSet{s}
		case "make", "new", "len", "cap":
			return []*strSet{newStrSet()}
		}
		if fd, ok := e.funcs[id.Name]; ok && fd.Body != nil && e.depth < 8 {
			fenv := listEnv{}
			i := 0
			for _, fl := range fd.Type.Params.List {
				for _, nm := range fl.Names {
					if i < len(args) {
						fenv[nm.Name] = args[i]
					}
					i++
				}
			}
			if fd.Type.Results != nil {
				for _, fl := range fd.Type.Results.List {
					for _, nm := range fl.Names {
						fenv[nm.Name] = newStrSet()
					}
				}
			}
			e.depth++
			var rets [][]*strSet
			e.block(fd.Body.List, fenv, &rets, fd)
			e.depth--
			n := 0
			if fd.Type.Results != nil {
				n = fd.Type.Results.NumFields()
			}
			out := make([]*strSet, n)
			for i := range out {
				out[i] = newStrSet()
			}
			for _, r := range rets {
				for i := range r {
					if i < n {
						out[i].add(r[i])
					}
				}
			}
			return out
		}
	}
	// unknown callee: any argument may flow into any result
	s := newStrSet()
	for _, a := range args {
		s.add(a)
	}
	return []*strSet{s, s.clone(), s.clone(), s.clone()}
}

func (e *listEval) assign(lhs []ast.Expr, rhs []ast.Expr, env listEnv) {
	var vals []*strSet
	if len(rhs) == 1 && len(lhs) > 1 {
		if c, ok := rhs[0].(*ast.CallExpr); ok {
			vals = e.call(c, env)
		} else {
			v := e.expr(rhs[0], env)
			for range lhs {
				vals = append(vals, v.clone())
			}
		}
	} else {
		for _, r := range rhs {
			vals = append(vals, e.expr(r, env))
		}
	}
	for i, l := range lhs {
		if id, ok := l.(*ast.Ident); ok && id.Name != "_" && i < len(vals) && vals[i] != nil {
			env[id.Name] = vals[i]
		}
		// m[k] = v: the container may now hold k (a set kept as map keys) and v
		if ix, ok := l.(*ast.IndexExpr); ok {
			if id, ok := ix.X.(*ast.Ident); ok {
				if env[id.Name] == nil {
					env[id.Name] = newStrSet()
				}
				env[id.Name].add(e.expr(ix.Index, env))
				if i < len(vals) {
					env[id.Name].add(vals[i])
				}
			}
		}
	}
}

func (e *listEval) block(stmts []ast.Stmt, env listEnv, rets *[][]*strSet, fd *ast.FuncDecl) {
	for _, s := range stmts {
		switch t := s.(type) {
		case *ast.AssignStmt:
			e.assign(t.Lhs, t.Rhs, env)
		case *ast.DeclStmt:
			if gd, ok := t.Decl.(*ast.GenDecl); ok {
				for _, sp := range gd.Specs {
					if vs, ok := sp.(*ast.ValueSpec); ok {
						var lhs []ast.Expr
						for _, nm := range vs.Names {
							lhs = append(lhs, nm)
							if len(vs.Values) == 0 {
								env[nm.Name] = newStrSet()
							}
						}
						if len(vs.Values) > 0 {
							e.assign(lhs, vs.Values, env)
						}
					}
				}
			}
		case *ast.IfStmt:
			if t.Init != nil {
				e.block([]ast.Stmt{t.Init}, env, rets, fd)
			}
			a := env.clone()
			e.block(t.Body.List, a, rets, fd)
			b := env.clone()
			if t.Else != nil {
				e.block([]ast.Stmt{t.Else}, b, rets, fd)
			}
			for k := range env {
				delete(env, k)
			}
			env.merge(a)
			env.merge(b)
		case *ast.BlockStmt:
			e.block(t.List, env, rets, fd)
		case *ast.ForStmt:
			if t.Init != nil {
				e.block([]ast.Stmt{t.Init}, env, rets, fd)
			}
			e.block(t.Body.List, env, rets, fd)
			e.block(t.Body.List, env, rets, fd)
		case *ast.RangeStmt:
			src := e.expr(t.X, env)
			for _, kv := range []ast.Expr{t.Key, t.Value} {
				if id, ok := kv.(*ast.Ident); ok && id.Name != "_" {
					env[id.Name] = src.clone()
				}
			}
			e.block(t.Body.List, env, rets, fd)
			e.block(t.Body.List, env, rets, fd)
		case *ast.SwitchStmt:
			if t.Init != nil {
				e.block([]ast.Stmt{t.Init}, env, rets, fd)
			}
			acc := env.clone()
			for _, cc := range t.Body.List {
				if cl, ok := cc.(*ast.CaseClause); ok {
					x := env.clone()
					e.block(cl.Body, x, rets, fd)
					acc.merge(x)
				}
			}
			env.merge(acc)
		case *ast.ReturnStmt:
			var r []*strSet
			if len(t.Results) == 0 && fd != nil && fd.Type.Results != nil {
				for _, fl := range fd.Type.Results.List {
					for _, nm := range fl.Names {
						r = append(r, env[nm.Name])
					}
				}
			} else if len(t.Results) == 1 {
				if c, ok := t.Results[0].(*ast.CallExpr); ok {
					r = e.call(c, env)
				} else {
					r = []*strSet{e.expr(t.Results[0], env)}
				}
			} else {
				for _, x := range t.Results {
					r = append(r, e.expr(x, env))
				}
			}
			*rets = append(*rets, r)
		}
	}
}

// getConfSides evaluates GetConf and returns what may end up in its result #idx (literals and profile fields).
func getConfResult(p *Prog, idx int) (*strSet, string) {
	pk := p.Pkg("cmd/runprog/config")
	if pk == nil {
		return nil, "package cmd/runprog/config not loaded"
	}
	e := newListEval(pk.TypesInfo, pk.Syntax)
	fd := e.funcs["GetConf"]
	if fd == nil || fd.Body == nil {
		return nil, "GetConf not found"
	}
	env := listEnv{}
	for _, fl := range fd.Type.Params.List {
		for _, nm := range fl.Names {
			env[nm.Name] = newStrSet()
		}
	}
	var rets [][]*strSet
	e.block(fd.Body.List, env, &rets, fd)
	out := newStrSet()
	n := 0
	for _, r := range rets {
		if idx < len(r) && r[idx] != nil {
			out.add(r[idx])
			n++
		}
	}
	if n == 0 {
		return nil, "no return of GetConf evaluated"
	}
	return out, ""
}

// allowResultIndex: which result of GetConf the command hands to the filter builder as its allow list.
func allowResultIndex(p *Prog) int {
	gc := p.Func("cmd/runprog/config", "GetConf")
	if gc == nil {
		return -1
	}
	for _, site := range staticCallSites(gc) {
		fn := site.Parent()
		for _, b := range fn.Blocks {
			for _, in := range b.Instrs {
				st, ok := in.(*ssa.Store)
				if !ok {
					continue
				}
				fa, ok := st.Addr.(*ssa.FieldAddr)
				if !ok || fieldName(fa.X.Type(), fa.Field) != "Allow" {
					continue
				}
				idx := -1
				seen := map[ssa.Value]bool{}
				var walk func(v ssa.Value, d int)
				walk = func(v ssa.Value, d int) {
					if d > 12 || seen[v] || idx >= 0 {
						return
					}
					seen[v] = true
					switch x := v.(type) {
					case *ssa.Extract:
						if x.Tuple == site.(ssa.Value) {
							idx = x.Index
						}
					case *ssa.Phi:
						for _, e := range x.Edges {
							walk(e, d+1)
						}
					case *ssa.Call:
						if len(x.Call.Args) > 0 {
							walk(x.Call.Args[0], d+1)
						}
					case *ssa.Slice:
						walk(x.X, d+1)
					}
				}
				walk(st.Val, 0)
				if idx >= 0 {
					return idx
				}
			}
		}
	}
	return -1
}

// checkConfigTables: consistency of the literal policy tables the command ships, judged on what GetConf can put on
// the allow side (its result that the command hands to the filter builder as Allow): literal strings reachable
// through appends, helper functions and package-level tables, plus — per profile — the profile fields it appends.
//   - what="counted": a system call that has a budget is on no allow list GetConf can combine with it (an allow-listed
//     call is let through by the filter and never reaches the counter);
//   - what="group": the allow side contains no call by which a process leaves the process group or session of its run
//     (the tracer waits for, kills and reaps "-pgid": a process outside the group is neither traced to its end nor killed).
func checkConfigTables(c *Check, rule, what string) {
	p := c.P
	t := readConfigTabs(p)
	gc := p.Func("cmd/runprog/config", "GetConf")
	if len(t.Problems) > 0 || gc == nil || len(t.Profiles) == 0 {
		c.Undecided(rule, "cmd/runprog/config:tables", "-", fmt.Sprintf("tables not readable: %v", t.Problems))
		return
	}
	idx := allowResultIndex(p)
	if idx < 0 {
		c.Undecided(rule, "cmd/runprog/config.GetConf:allow-result", p.Pos(gc.Pos()), "cannot tell which result of GetConf becomes the filter's allow list")
		return
	}
	side, why := getConfResult(p, idx)
	if side == nil || len(side.lits) < 10 {
		c.Undecided(rule, "cmd/runprog/config.GetConf:allow-side", p.Pos(gc.Pos()), "the allow side of GetConf could not be evaluated: "+why)
		return
	}
	allowOf := func(pn string) map[string]string {
		m := map[string]string{}
		for s := range side.lits {
			m[s] = "the allow side assembled by GetConf"
		}
		if pt := t.Profiles[pn]; pt != nil {
			if side.syms["ExtraAllow"] {
				for _, s := range pt.ExtraAllow {
					m[s] = "profile " + pn + ".ExtraAllow"
				}
			}
			if side.syms["ExtraBan"] {
				for _, s := range pt.ExtraBan {
					m[s] = "profile " + pn + ".ExtraBan"
				}
			}
		}
		return m
	}
	switch what {
	case "counted":
		n := 0
		for _, pn := range t.profileNames() {
			pt := t.Profiles[pn]
			allowed := allowOf(pn)
			var names []string
			for k := range pt.ExtraCount {
				names = append(names, k)
			}
			sort.Strings(names)
			for _, k := range names {
				n++
				where := allowed[k]
				c.Cond(where == "" && pt.ExtraCount[k] >= 0, rule, "config:"+pn+":counted("+k+")", p.Pos(pt.Pos), "budgeted call is not on the allow side",
					fmt.Sprintf("%s has a budget of %d in profile %s but is also on %s: the filter lets it through without consulting the counter, so it can be made any number of times", k, pt.ExtraCount[k], pn, where))
			}
		}
		if n == 0 {
			c.Undecided(rule, "config:counted", "-", "no profile has a budgeted call")
		}
		c.Expect(rule, 2)
	case "group":
		escape := []string{"setpgid", "setsid"}
		for _, pn := range append([]string{"(no profile)"}, t.profileNames()...) {
			allowed := allowOf(pn)
			bad, where := "", ""
			for _, s := range escape {
				if w, ok := allowed[s]; ok {
					bad, where = s, w
				}
			}
			pos := p.Pos(gc.Pos())
			if pt := t.Profiles[pn]; pt != nil {
				pos = p.Pos(pt.Pos)
			}
			c.Cond(bad == "", rule, "config:"+pn+":no-group-escape", pos, fmt.Sprintf("none of the %d allowed calls leaves the process group / session", len(allowed)),
				bad+" is on "+where+": a traced process can leave the process group of its run; the tracer waits for, kills and reaps by process group, so that process is neither followed to its end nor killed when the run ends")
		}
		c.Expect(rule, 4)
	}
}
