package main

// The literal tables of cmd/runprog/config, read from the syntax trees of the loaded (build-tag selected) files:
// package-level []string variables and the per-language profile map. Used by table-consistency rules.

import (
	"fmt"
	"go/ast"
	"go/constant"
	"go/token"
	"sort"

	"golang.org/x/tools/go/ssa"
)

type profileTab struct {
	ExtraAllow, ExtraBan []string
	ExtraCount           map[string]int64
	Pos                  token.Pos
}

type configTabs struct {
	Lists    map[string][]string // package-level []string variables by name
	ListPos  map[string]token.Pos
	Profiles map[string]*profileTab
	Problems []string
}

func readConfigTabs(p *Prog) *configTabs {
	t := &configTabs{Lists: map[string][]string{}, ListPos: map[string]token.Pos{}, Profiles: map[string]*profileTab{}}
	pk := p.Pkg("cmd/runprog/config")
	if pk == nil {
		t.Problems = append(t.Problems, "package cmd/runprog/config not loaded")
		return t
	}
	str := func(e ast.Expr) (string, bool) {
		if tv, ok := pk.TypesInfo.Types[e]; ok && tv.Value != nil && tv.Value.Kind() == constant.String {
			return constant.StringVal(tv.Value), true
		}
		return "", false
	}
	strList := func(e ast.Expr) ([]string, bool) {
		cl, ok := e.(*ast.CompositeLit)
		if !ok {
			return nil, false
		}
		var out []string
		for _, el := range cl.Elts {
			s, ok := str(el)
			if !ok {
				return nil, false
			}
			out = append(out, s)
		}
		return out, true
	}
	field := func(cl *ast.CompositeLit, name string) ast.Expr {
		for _, el := range cl.Elts {
			if kv, ok := el.(*ast.KeyValueExpr); ok {
				if id, ok := kv.Key.(*ast.Ident); ok && id.Name == name {
					return kv.Value
				}
			}
		}
		return nil
	}
	for _, f := range pk.Syntax {
		for _, d := range f.Decls {
			gd, ok := d.(*ast.GenDecl)
			if !ok || gd.Tok != token.VAR {
				continue
			}
			for _, sp := range gd.Specs {
				vs := sp.(*ast.ValueSpec)
				for i, nm := range vs.Names {
					if i >= len(vs.Values) {
						continue
					}
					cl, ok := vs.Values[i].(*ast.CompositeLit)
					if !ok {
						continue
					}
					if l, ok := strList(cl); ok {
						t.Lists[nm.Name] = l
						t.ListPos[nm.Name] = nm.Pos()
						continue
					}
					// the profile map: map[string]ProgramConfig{ "name": {Syscall: SyscallConfig{…}} }
					for _, el := range cl.Elts {
						kv, ok := el.(*ast.KeyValueExpr)
						if !ok {
							continue
						}
						pname, ok := str(kv.Key)
						pc, ok2 := kv.Value.(*ast.CompositeLit)
						if !ok || !ok2 {
							continue
						}
						pt := &profileTab{ExtraCount: map[string]int64{}, Pos: kv.Pos()}
						t.Profiles[pname] = pt
						sc, _ := field(pc, "Syscall").(*ast.CompositeLit)
						if sc == nil {
							continue
						}
						if e := field(sc, "ExtraAllow"); e != nil {
							l, ok := strList(e)
							if !ok {
								t.Problems = append(t.Problems, "profile "+pname+": ExtraAllow is not a literal list")
							}
							pt.ExtraAllow = l
						}
						if e := field(sc, "ExtraBan"); e != nil {
							l, ok := strList(e)
							if !ok {
								t.Problems = append(t.Problems, "profile "+pname+": ExtraBan is not a literal list")
							}
							pt.ExtraBan = l
						}
						if e, ok := field(sc, "ExtraCount").(*ast.CompositeLit); ok {
							for _, ce := range e.Elts {
								ckv, ok := ce.(*ast.KeyValueExpr)
								if !ok {
									continue
								}
								k, ok1 := str(ckv.Key)
								var v int64
								ok2 := false
								if tv, ok := pk.TypesInfo.Types[ckv.Value]; ok && tv.Value != nil {
									v, ok2 = constant.Int64Val(constant.ToInt(tv.Value))
								}
								if !ok1 || !ok2 {
									t.Problems = append(t.Problems, "profile "+pname+": ExtraCount entry is not constant")
									continue
								}
								pt.ExtraCount[k] = v
							}
						}
					}
				}
			}
		}
	}
	return t
}

func (t *configTabs) profileNames() []string {
	var ns []string
	for n := range t.Profiles {
		ns = append(ns, n)
	}
	sort.Strings(ns)
	return ns
}

// allowListsFor: the names of the lists GetConf may put on the allow side for a profile, with their contents.
func (t *configTabs) allowLists(profile string) map[string][]string {
	out := map[string][]string{}
	for _, n := range []string{"defaultSyscallAllows", "archSyscallAllows", "defaultProcSyscalls"} {
		if l, ok := t.Lists[n]; ok {
			out[n] = l
		}
	}
	if p, ok := t.Profiles[profile]; ok {
		out["profile "+profile+".ExtraAllow"] = p.ExtraAllow
	}
	return out
}

// checkConfigTables: consistency of the literal policy tables the command ships.
//   - what="counted": a system call that has a budget is on no allow list GetConf can combine with it (an allow-listed
//     call is let through by the filter and never reaches the counter);
//   - what="group": no allow list contains a call by which a process leaves the process group or session of its run
//     (the tracer waits for, kills and reaps "-pgid": a process outside the group is neither traced to its end nor killed).
func checkConfigTables(c *Check, rule, what string) {
	p := c.P
	t := readConfigTabs(p)
	gc := p.Func("cmd/runprog/config", "GetConf")
	if len(t.Problems) > 0 || gc == nil || len(t.Profiles) == 0 {
		c.Undecided(rule, "cmd/runprog/config:tables", "-", fmt.Sprintf("tables not readable: %v", t.Problems))
		return
	}
	// the lists are the ones GetConf reads
	used := map[string]bool{}
	for _, b := range gc.Blocks {
		for _, in := range b.Instrs {
			for _, op := range in.Operands(nil) {
				if g, ok := (*op).(*ssa.Global); ok {
					used[g.Name()] = true
				}
			}
		}
	}
	for _, n := range []string{"defaultSyscallAllows", "archSyscallAllows", "defaultProcSyscalls"} {
		if !used[n] || t.Lists[n] == nil {
			c.Undecided(rule, "cmd/runprog/config:"+n, p.Pos(gc.Pos()), "allow-side list "+n+" is not a literal read by GetConf")
			return
		}
	}
	switch what {
	case "counted":
		n := 0
		for _, pn := range t.profileNames() {
			pt := t.Profiles[pn]
			var names []string
			for k := range pt.ExtraCount {
				names = append(names, k)
			}
			sort.Strings(names)
			for _, k := range names {
				n++
				where := ""
				lists := t.allowLists(pn)
				var lns []string
				for ln := range lists {
					lns = append(lns, ln)
				}
				sort.Strings(lns)
				for _, ln := range lns {
					for _, s := range lists[ln] {
						if s == k {
							where = ln
						}
					}
				}
				c.Cond(where == "" && pt.ExtraCount[k] >= 0, rule, "config:"+pn+":counted("+k+")", p.Pos(pt.Pos), "budgeted call is on no allow list",
					fmt.Sprintf("%s has a budget of %d in profile %s but is also on the allow list %s: the filter lets it through without consulting the counter, so it can be made any number of times", k, pt.ExtraCount[k], pn, where))
			}
		}
		if n == 0 {
			c.Undecided(rule, "config:counted", "-", "no profile has a budgeted call")
		}
		c.Expect(rule, 2)
	case "group":
		escape := map[string]bool{"setpgid": true, "setsid": true}
		lists := map[string][]string{}
		for _, n := range []string{"defaultSyscallAllows", "archSyscallAllows", "defaultProcSyscalls"} {
			lists[n] = t.Lists[n]
		}
		for _, pn := range t.profileNames() {
			lists["profile "+pn+".ExtraAllow"] = t.Profiles[pn].ExtraAllow
		}
		var lns []string
		for ln := range lists {
			lns = append(lns, ln)
		}
		sort.Strings(lns)
		for _, ln := range lns {
			bad := ""
			for _, s := range lists[ln] {
				if escape[s] {
					bad = s
				}
			}
			pos := p.Pos(gc.Pos())
			if tp, ok := t.ListPos[ln]; ok {
				pos = p.Pos(tp)
			}
			c.Cond(bad == "", rule, "config:"+ln+":no-group-escape", pos, "no call that leaves the process group / session is allowed",
				bad+" is on the allow list "+ln+": a traced process can leave the process group of its run; the tracer waits for, kills and reaps by process group, so that process is neither followed to its end nor killed when the run ends")
		}
		c.Expect(rule, 4)
	}
}
