package main

// C20 — cgroup handles control exactly their own group; usage in documented units.

import (
	"fmt"
	"go/token"
	"sort"
	"strings"

	"golang.org/x/tools/go/ssa"
)

func init() {
	register("C20", "Decides: (1) Destroy removes only what the handle created and only when it does not merely reference an existing group; the removal primitive is a non-recursive rmdir (never RemoveAll); the ownership flag is written only by constructors; (2) ownership is decided atomically: every 'existing' decision of a creating constructor derives from the error of a mkdir of the group directory itself (EEXIST), never from a prior Stat, and Random hands out a handle only if it is not Existing(); (3) nesting: child paths are Join(parent path, name), random patterns with separators are rejected; (4) AddProc writes each pid, in decimal, to the group's own cgroup.procs file, on v1 for every controller of the handle (existing ones included); (5) the unit/file table of both implementations of the Cgroup interface is extracted (file name constants, scale factors, record key) and compared with the kernel's documented files: cpu.stat usage_usec×1000 / cpuacct.usage, memory.peak / memory.max_usage_in_bytes, memory.current / memory.usage_in_bytes, pids.peak, memory.max / memory.limit_in_bytes, pids.max, cpu.max \"quota period\" / cpu.cfs_quota_us + cpu.cfs_period_us; (6) cleanup after a failed creation removes only directories this call created; (7) every constructor's success return yields the handle it built. Does not decide kernel accounting or concurrency beyond creation atomicity.", checkC20)
}

const cg = "pkg/cgroup"

func checkC20(c *Check) {
	p := c.P
	// ---------- 1: Destroy respects ownership ----------
	for _, impl := range []string{"V1", "V2"} {
		fn := p.Func(cg, impl+".Destroy")
		if fn == nil {
			c.Undecided("1/destroy-ownership", cg+"."+impl+".Destroy", "-", "function not found")
			continue
		}
		key := cg + "." + impl + ".Destroy"
		cd := controlDeps(fn)
		recv := fn.Params[0].Name()
		n := 0
		for _, ci := range callInstrs(fn) {
			_, callee := calleeOf(ci)
			nm, _ := calleeOf(ci)
			isRemoval := (callee != nil && inModule(callee) && reachesCall(callee, 1, func(c2 ssa.CallInstruction) bool {
				n2, _ := calleeOf(c2)
				return n2 == "syscall.Rmdir" || n2 == "os.Remove" || n2 == "os.RemoveAll"
			})) || nm == "syscall.Rmdir" || nm == "os.Remove" || nm == "os.RemoveAll"
			if !isRemoval {
				continue
			}
			n++
			g := cd.guardOf(ci.Block())
			ex := fLit(recv + ".existing")
			ok, _, _ := Valid(fImp(g, fNot(ex)))
			c.Cond(ok, "1/destroy-ownership", fmt.Sprintf("%s:removal#%d-guard", key, n), p.Pos(ci.Pos()), "the group is removed only if this handle created it", "Destroy removes the group although the handle only references an existing one (guard "+g.String()+")")
			if impl == "V1" {
				// iterates the created list, not every controller
				arg := describe(ci.Common().Args[0])
				c.Cond(strings.Contains(arg, recv+".created["), "1/destroy-ownership", key+":created-only", p.Pos(ci.Pos()), "only the controller directories this handle created are removed", "Destroy removes "+arg+": controller directories that existed before this handle are removed as well")
			}
		}
		c.Cond(n >= 1, "1/destroy-ownership", key+":removes", p.Pos(fn.Pos()), "removal site found", "Destroy never removes the group")
	}
	// the removal primitive is a plain rmdir
	if rm := p.Func(cg, "remove"); rm != nil {
		var prims []string
		for _, ci := range callInstrs(rm) {
			n, _ := calleeOf(ci)
			if strings.HasPrefix(n, "os.") || strings.HasPrefix(n, "syscall.") {
				prims = append(prims, n)
			}
		}
		c.Cond(len(prims) == 1 && (prims[0] == "syscall.Rmdir" || prims[0] == "os.Remove"), "1/destroy-ownership", cg+".remove:primitive", p.Pos(rm.Pos()), "removal is a non-recursive rmdir", "the removal primitive is "+strings.Join(prims, ", ")+": sub-groups created through other handles would be removed with the parent")
	}
	// who-may-write the ownership flag: only code that is constructing the handle — every store to it targets an
	// object allocated in the same function (the handle being built), never a handle received from elsewhere
	nW := 0
	var badW []string
	for _, fn := range p.PkgFuncs(cg) {
		for _, b := range fn.Blocks {
			for _, in := range b.Instrs {
				if st, ok := in.(*ssa.Store); ok {
					if fa, ok := st.Addr.(*ssa.FieldAddr); ok && fieldName(fa.X.Type(), fa.Field) == "existing" {
						nW++
						if !isFreshObject(fa.X, 0) {
							badW = append(badW, fn.Name()+"@"+p.Pos(st.Pos()))
						}
					}
				}
			}
		}
	}
	sort.Strings(badW)
	c.Cond(len(badW) == 0 && nW >= 4, "1/destroy-ownership", cg+":existing-writers", "-", "the ownership flag is written only on the handle under construction", "the ownership flag of a handle that was not created here is rewritten ("+strings.Join(badW, ", ")+"): Destroy would remove a group this handle did not create, or leak one it did")
	c.Expect("1/destroy-ownership", 7)

	// ---------- 2: atomic ownership ----------
	checkAtomicOwnership(c)

	// ---------- 3: nesting ----------
	for _, t := range []struct{ impl, m string }{{"V2", "New"}, {"V2", "Nest"}, {"V1", "New"}} {
		fn := p.Func(cg, t.impl+"."+t.m)
		if fn == nil {
			continue
		}
		ok := joinsChildPath(fn, fn.Params[0], fn.Params[1], 2)
		c.Cond(ok, "3/nesting", cg+"."+t.impl+"."+t.m+":child-path", p.Pos(fn.Pos()), "child = Join(parent, name)", "the sub-group's path is not Join(parent path, name)")
	}
	if ps := p.Func(cg, "prefixAndSuffix"); ps != nil {
		ok := false
		for _, ci := range callInstrs(ps) {
			if n, _ := calleeOf(ci); n == "os.IsPathSeparator" {
				ok = inLoop(ci.Block())
			}
		}
		rb := p.Func(cg, "randomBuild")
		used := false
		if rb != nil {
			for _, ci := range callInstrs(rb) {
				if _, callee := calleeOf(ci); callee == ps && errChecked(ci) {
					used = true
				}
			}
		}
		c.Cond(ok && used, "3/nesting", cg+".prefixAndSuffix", p.Pos(ps.Pos()), "patterns containing a path separator are rejected before any path is built", "random patterns are not checked for path separators")
	}
	c.Expect("3/nesting", 4)

	// ---------- 4: AddProc ----------
	checkAddProc(c)

	// ---------- 5: unit/file table ----------
	checkCgroupTable(c)

	// ---------- 7: constructors return what they built ----------
	for _, nm := range []string{"newV1", "newV2", "openExistingV1", "openExistingV2", "V1.New", "V2.New", "V1.Nest", "V2.Nest"} {
		fn := p.Func(cg, nm)
		if fn == nil {
			continue
		}
		for _, b := range fn.Blocks {
			ret, ok := b.Instrs[len(b.Instrs)-1].(*ssa.Return)
			if !ok || len(ret.Results) != 2 {
				continue
			}
			// success return: error result is nil (constant, or a result slot never assigned non-nil on this path)
			hV := ret.Results[0]
			if !maybeNilError(ret) || blockIsErrBranch(b) {
				continue
			}
			nonNil := true
			why := describe(hV)
			if isNilConst(hV) {
				nonNil = false
			}
			if u, isLoad := hV.(*ssa.UnOp); isLoad && u.Op == token.MUL {
				// named result slot: must have been stored on this path
				if slot, isA := u.X.(*ssa.Alloc); isA {
					stored := false
					if refs := slot.Referrers(); refs != nil {
						for _, r := range *refs {
							if st, isS := r.(*ssa.Store); isS && st.Addr == ssa.Value(slot) && !isNilConst(st.Val) {
								stored = true
							}
						}
					}
					nonNil = stored
					why = "the named result, which is never assigned"
				}
			}
			c.Cond(nonNil, "7/returns-handle", cg+"."+nm+fmt.Sprintf(":success-return@b%d", b.Index), p.Pos(ret.Pos()), "success returns the handle that was built", "a success return (nil error) yields "+why+": the caller gets a nil handle")
		}
	}
	c.Expect("7/returns-handle", 8)

	// ---------- 8: limits written stay in force ----------
	// the cpuset bootstrap copies the parent's value into a group only while the group's own value is empty: the
	// write of <path>/<name> is guarded by an emptiness test of what was read from that same file
	if cp := p.Func(cg, "copyCgroupPropertyFromParent"); cp == nil {
		c.Undecided("8/limits-stay", cg+".copyCgroupPropertyFromParent", "-", "function not found")
	} else {
		cd := controlDeps(cp)
		nW := 0
		for _, ci := range callInstrs(cp) {
			n, _ := calleeOf(ci)
			if n != "os.WriteFile" {
				continue
			}
			nW++
			target := describe(ci.Common().Args[0])
			// the read of the same file
			var own ssa.Value
			for _, c2 := range callInstrs(cp) {
				if n2, _ := calleeOf(c2); n2 == "os.ReadFile" && describe(c2.Common().Args[0]) == target {
					if v, ok := c2.(ssa.Value); ok && dominatesInstr(c2, ci) {
						own = v
					}
				}
			}
			okGuard := false
			g := cd.guardOf(ci.Block())
			if own != nil {
				for _, a := range Support(g) {
					if strings.Contains(a, describe(own)) && strings.Contains(a, "TrimSpace(") && strings.HasSuffix(a, "== 0") {
						if v, _, _ := Valid(fImp(g, fLit(a))); v {
							okGuard = true
						}
					}
				}
			}
			c.Cond(okGuard, "8/limits-stay", fmt.Sprintf("%s.%s:write#%d", cg, cp.Name(), nW), p.Pos(ci.Pos()), "the group's own value is overwritten only when it is empty",
				"the bootstrap writes "+target+" without having found that file empty (guard "+g.String()+"): re-opening a group resets a cpuset that was already narrowed to its parent's wider set")
		}
		c.Cond(nW >= 1, "8/limits-stay", cg+"."+cp.Name()+":writes", p.Pos(cp.Pos()), "bootstrap write found", "no write found in the cpuset bootstrap")
	}
	c.Expect("8/limits-stay", 2)

	// ---------- 9: control files are read to their end ----------
	// cgroup.procs of a large group, cpu.stat, memory.stat are longer than one read returns; what is parsed must be
	// the whole file (os.ReadFile / io.ReadAll), never the result of a single read call
	nWhole, single, singlePos := 0, "", ""
	for _, fn := range p.PkgFuncs("pkg/cgroup") {
		for _, f := range withClosures(fn) {
			for _, ci := range callInstrs(f) {
				switch n, _ := calleeOf(ci); n {
				case "os.ReadFile", "io.ReadAll":
					nWhole++
				case "(os.File).Read", "(os.File).ReadAt", "syscall.Read", "golang.org/x/sys/unix.Read", "syscall.Pread", "golang.org/x/sys/unix.Pread":
					if single == "" {
						single, singlePos = n+" in "+shortName(f), p.Pos(ci.Pos())
					}
				}
			}
		}
	}
	if singlePos == "" {
		singlePos = cg + "/"
	}
	c.Cond(single == "" && nWhole >= 1, "9/files-read-whole", cg+":control-file-reads", singlePos, fmt.Sprintf("all %d control-file reads read to end of file", nWhole),
		"a control file is read with a single "+single+": a list or table longer than one read returns (cgroup.procs of a group with many processes) is silently cut short — Processes() misses members and Nest() leaves them in the outer group")
	c.Expect("9/files-read-whole", 1)
}

func blockIsErrBranch(b *ssa.BasicBlock) bool {
	if len(b.Preds) != 1 {
		return false
	}
	iff := blockIf(b.Preds[0])
	if iff == nil {
		return false
	}
	bo, ok := iff.Cond.(*ssa.BinOp)
	if !ok || bo.Op != token.NEQ || !isNilConst(bo.Y) || bo.X.Type().String() != "error" {
		return false
	}
	return b.Preds[0].Succs[0] == b
}

func checkAtomicOwnership(c *Check) {
	p := c.P
	// every store existing=true (in creating constructors) / existing=false (newV2) is guarded by the error of a Mkdir of the directory itself
	mkdirReach := func(v ssa.Value) bool {
		// v is an error value: result of os.Mkdir, or of a module helper whose returned error comes from os.Mkdir and which does not call os.Stat
		seen := map[ssa.Value]bool{}
		var rec func(v ssa.Value) bool
		rec = func(v ssa.Value) bool {
			if seen[v] {
				return false
			}
			seen[v] = true
			switch x := v.(type) {
			case *ssa.Call:
				n, callee := calleeOf(x)
				if n == "os.Mkdir" || n == "syscall.Mkdir" {
					return true
				}
				if callee != nil && inModule(callee) {
					if reachesCall(callee, 0, nameIs("os.Stat", "os.Lstat")) {
						return false
					}
					for _, b := range callee.Blocks {
						if ret, ok := b.Instrs[len(b.Instrs)-1].(*ssa.Return); ok {
							for _, r := range ret.Results {
								if r.Type().String() == "error" && rec(r) {
									return true
								}
							}
						}
					}
				}
			case *ssa.Extract:
				return rec(x.Tuple)
			case *ssa.Phi:
				for _, e := range x.Edges {
					if rec(e) {
						return true
					}
				}
			case *ssa.UnOp:
				if x.Op == token.MUL {
					// load of a local error variable: look at stores
					if a, ok := x.X.(*ssa.Alloc); ok {
						if refs := a.Referrers(); refs != nil {
							for _, r := range *refs {
								if st, ok := r.(*ssa.Store); ok && st.Addr == ssa.Value(a) && rec(st.Val) {
									return true
								}
							}
						}
					}
					if fv, ok := x.X.(*ssa.FreeVar); ok {
						_ = fv
					}
				}
			}
			return false
		}
		return rec(v)
	}
	n := 0
	for _, fn := range p.PkgFuncs(cg) {
		root := fn
		for root.Parent() != nil {
			root = root.Parent()
		}
		if strings.HasPrefix(root.Name(), "openExisting") {
			continue
		}
		cd := controlDeps(fn)
		for _, b := range fn.Blocks {
			for _, in := range b.Instrs {
				st, ok := in.(*ssa.Store)
				if !ok {
					continue
				}
				fa, ok := st.Addr.(*ssa.FieldAddr)
				if !ok || fieldName(fa.X.Type(), fa.Field) != "existing" {
					continue
				}
				if _, isAlloc := fa.X.(*ssa.Alloc); isAlloc && b == fn.Blocks[0] {
					continue // initial value in the literal
				}
				n++
				key := fmt.Sprintf("%s.%s:existing-store#%d", cg, shortFn(fn), n)
				// the decision: some If on the control-dependence chain tests an error derived from mkdir (through IsExist / errors.Is / == nil)
				okDecision := false
				for _, d := range cdChain(cd, b) {
					iff := blockIf(d.b)
					if iff == nil {
						continue
					}
					for _, ev := range errorOperands(iff.Cond) {
						if mkdirReach(ev) {
							okDecision = true
						}
					}
				}
				c.Cond(okDecision, "2/atomic-ownership", key, p.Pos(st.Pos()), "ownership is decided from the result of mkdir on the group directory", "ownership ('existing') is decided without the EEXIST result of a mkdir of the directory itself (e.g. from a prior Stat): two concurrent creators can both own the group")
			}
		}
	}
	// a constructor whose failure cleanup removes the group when the handle owns it ('!existing') must build the
	// handle as NOT owning and flip it only at the successful mkdir of the group itself; a handle born owning makes
	// every failure before that point remove a group somebody else created
	for _, fn := range p.PkgFuncs(cg) {
		if fn.Parent() != nil {
			continue
		}
		for _, b := range fn.Blocks {
			for _, in := range b.Instrs {
				df, ok := in.(*ssa.Defer)
				if !ok {
					continue
				}
				cl := spawnedFn(&df.Call)
				if cl == nil || !inModule(cl) || len(cl.Blocks) == 0 {
					continue
				}
				removesUnderOwning := false
				ccd := controlDeps(cl)
				for _, ci := range callInstrs(cl) {
					_, callee := calleeOf(ci)
					if callee == nil || !inModule(callee) || !reachesCall(callee, 1, nameIs("syscall.Rmdir", "os.Remove")) {
						continue
					}
					// the group removed is the handle's own path (a cleanup that walks a list of the directories this
					// call created is keyed on what was created, not on the flag)
					argD := ""
					if len(ci.Common().Args) > 0 {
						argD = describe(ci.Common().Args[0])
					}
					for _, a := range Support(ccd.guardOf(ci.Block())) {
						if strings.HasSuffix(a, ".existing") && strings.HasSuffix(argD, ".path") && strings.TrimSuffix(a, ".existing") == strings.TrimSuffix(argD, ".path") {
							removesUnderOwning = true
						}
					}
				}
				if !removesUnderOwning {
					continue
				}
				// the literal of the handle: stores to .existing on a fresh object that dominate the defer
				bornNotOwning := false
				for _, b2 := range fn.Blocks {
					for _, in2 := range b2.Instrs {
						st, ok := in2.(*ssa.Store)
						if !ok {
							continue
						}
						fa, ok := st.Addr.(*ssa.FieldAddr)
						if !ok || fieldName(fa.X.Type(), fa.Field) != "existing" {
							continue
						}
						if _, isAlloc := fa.X.(*ssa.Alloc); isAlloc && (b2 == df.Block() || b2.Dominates(df.Block())) {
							if v, isB := constBool(st.Val); isB && v {
								bornNotOwning = true
							}
						}
					}
				}
				c.Cond(bornNotOwning, "2/atomic-ownership", cg+"."+fn.Name()+":born-not-owning", p.Pos(df.Pos()), "the handle is built as not owning before the failure cleanup is registered",
					"the handle is built owning ('existing' unset) while the failure cleanup removes the group whenever the handle owns it: a failure before the group's own mkdir removes a group that already existed")
			}
		}
	}
	c.Expect("2/atomic-ownership", 5)
	// the v1 path helper hands back the controller's directory on every return, also next to an error: its caller
	// keeps using the path when the error is "already exists" (a handle on a pre-existing group); an empty path
	// there yields controllers whose limit writes and AddProc silently do nothing
	if cp := p.Func(cg, "CreateV1ControllerPath"); cp != nil {
		okPath := true
		where := ""
		nRet := 0
		for _, b := range cp.Blocks {
			ret, ok := b.Instrs[len(b.Instrs)-1].(*ssa.Return)
			if !ok {
				continue
			}
			nRet++
			v := retVal(ret, 0)
			if _, isConst := v.(*ssa.Const); isConst {
				okPath = false
				where = p.Pos(ret.Pos())
			}
		}
		c.Cond(okPath && nRet > 0, "2/atomic-ownership", cg+".CreateV1ControllerPath:path-on-every-return", p.Pos(cp.Pos()), "the directory path is returned on every return",
			"CreateV1ControllerPath returns a constant instead of the directory path at "+where+": with 'already exists' the caller builds a controller with an empty path, whose SetXxx / AddProc are silent no-ops")
	}
	// EnsureDirExists (v1 path): Mkdir of the path itself, no Stat
	if ed := p.Func(cg, "EnsureDirExists"); ed != nil {
		okMk, noStat := false, !reachesCall(ed, 0, nameIs("os.Stat", "os.Lstat"))
		for _, ci := range callInstrs(ed) {
			if n, _ := calleeOf(ci); n == "os.Mkdir" && stripConv(ci.Common().Args[0]) == ssa.Value(ed.Params[0]) {
				okMk = true
			}
		}
		c.Cond(okMk && noStat, "2/atomic-ownership", cg+".EnsureDirExists", p.Pos(ed.Pos()), "the directory itself is created with Mkdir (atomic) and its error returned", "EnsureDirExists decides existence with Stat / creates with MkdirAll only: not atomic")
	}
	// randomBuild: success return only for a non-existing handle
	if rb := p.Func(cg, "randomBuild"); rb != nil {
		cd := controlDeps(rb)
		ok := false
		for _, b := range rb.Blocks {
			ret, isR := b.Instrs[len(b.Instrs)-1].(*ssa.Return)
			if !isR || !isNilConst(retVal(ret, 1)) {
				continue
			}
			g := cd.guardOf(b)
			for _, a := range Support(g) {
				if strings.Contains(a, ".Existing()") {
					v, _, _ := Valid(fImp(g, fNot(fLit(a))))
					ok = v
				}
			}
		}
		c.Cond(ok, "2/atomic-ownership", cg+".randomBuild:fresh-only", p.Pos(rb.Pos()), "a random group is returned only if this call created it", "Random returns a handle without checking that it is not Existing(): two users can be given the same group")
	}
}

func shortFn(fn *ssa.Function) string {
	if fn.Parent() != nil {
		return shortFn(fn.Parent()) + "$"
	}
	if r := fn.Signature.Recv(); r != nil {
		t := r.Type().String()
		if i := strings.LastIndex(t, "."); i >= 0 {
			t = t[i+1:]
		}
		return t + "." + fn.Name()
	}
	return fn.Name()
}

// errorOperands: error-typed values feeding a condition (through IsExist / errors.Is / == nil comparisons).
func errorOperands(v ssa.Value) []ssa.Value {
	var out []ssa.Value
	var rec func(v ssa.Value, d int)
	rec = func(v ssa.Value, d int) {
		if d > 5 || v == nil {
			return
		}
		if v.Type().String() == "error" {
			out = append(out, v)
		}
		switch x := v.(type) {
		case *ssa.BinOp:
			rec(x.X, d+1)
			rec(x.Y, d+1)
		case *ssa.UnOp:
			rec(x.X, d+1)
		case *ssa.Call:
			for _, a := range x.Call.Args {
				rec(a, d+1)
			}
		case *ssa.MakeInterface:
			rec(x.X, d+1)
		}
	}
	rec(v, 0)
	return out
}

func checkAddProc(c *Check) {
	p := c.P
	procs, _ := constantStringOf(p, repoModule+"/"+cg, "cgroupProcs")
	c.Cond(procs == "cgroup.procs", "4/add-proc", cg+":cgroupProcs", "-", "the membership file is cgroup.procs", "the membership file constant is "+procs+" (writing 'tasks' moves a single thread)")
	for _, nm := range []string{"V2.AddProc", "v1controller.AddProc"} {
		fn := p.Func(cg, nm)
		if fn == nil {
			c.Undecided("4/add-proc", cg+"."+nm, "-", "function not found")
			continue
		}
		ok := false
		for _, ci := range callInstrs(fn) {
			if _, callee := calleeOf(ci); callee != nil && inModule(callee) {
				d := describe(ci.Common().Args[0])
				if strings.Contains(d, ".path, \"cgroup.procs\"]") {
					ok = true
					checkAddProcesses(c, callee)
				}
			}
		}
		c.Cond(ok, "4/add-proc", cg+"."+nm+":target", p.Pos(fn.Pos()), "pids are written to Join(own path, cgroup.procs)", "AddProc does not write to the handle's own cgroup.procs")
	}
	if fn := p.Func(cg, "V1.AddProc"); fn != nil {
		ok := false
		for _, ci := range callInstrs(fn) {
			if n, _ := calleeOf(ci); strings.HasSuffix(n, "v1controller).AddProc") {
				ok = inLoop(ci.Block()) && strings.Contains(describe(ci.Common().Args[0]), ".all[")
			}
		}
		c.Cond(ok, "4/add-proc", cg+".V1.AddProc:every-controller", p.Pos(fn.Pos()), "the process is moved in every controller of the handle", "V1.AddProc does not iterate over all controllers of the handle")
	}
	// `all` receives every controller in both arms (created and pre-existing)
	for _, nm := range []string{"newV1", "V1.New"} {
		fn := p.Func(cg, nm)
		if fn == nil {
			continue
		}
		nAll, nCreated := 0, 0
		for _, f := range withClosures(fn) {
			for _, b := range f.Blocks {
				for _, in := range b.Instrs {
					if st, ok := in.(*ssa.Store); ok {
						if fa, ok := st.Addr.(*ssa.FieldAddr); ok {
							switch fieldName(fa.X.Type(), fa.Field) {
							case "all":
								nAll++
							case "created":
								nCreated++
							}
						}
					}
				}
			}
		}
		c.Cond(nAll == 2 && nCreated == 1, "4/add-proc", cg+"."+nm+":controller-lists", p.Pos(fn.Pos()), "'all' receives created and pre-existing controllers, 'created' only the former", fmt.Sprintf("controller bookkeeping: %d appends to 'all', %d to 'created' (expected 2/1): an existing controller is not controlled, or a pre-existing one is later removed", nAll, nCreated))
		// 6: cleanup removes only created
		for _, f := range withClosures(fn) {
			if f.Parent() == nil {
				continue
			}
			for _, ci := range callInstrs(f) {
				if _, callee := calleeOf(ci); callee != nil && callee.Name() == "remove" {
					c.Cond(strings.Contains(describe(ci.Common().Args[0]), ".created["), "6/failed-creation-cleanup", cg+"."+nm+"$cleanup", p.Pos(ci.Pos()), "a failed creation removes only what it created", "the cleanup after a failed creation removes "+describe(ci.Common().Args[0]))
				}
			}
		}
	}
	if fn := p.Func(cg, "newV2"); fn != nil {
		for _, f := range withClosures(fn) {
			if f.Parent() == nil {
				continue
			}
			for _, ci := range callInstrs(f) {
				if _, callee := calleeOf(ci); callee != nil && callee.Name() == "remove" {
					g := controlDeps(f).guardOf(ci.Block())
					ok := false
					for _, a := range Support(g) {
						if strings.HasSuffix(a, ".existing") {
							ok, _, _ = Valid(fImp(g, fNot(fLit(a))))
						}
					}
					c.Cond(ok, "6/failed-creation-cleanup", cg+".newV2$cleanup", p.Pos(ci.Pos()), "a failed creation removes the directory only if this call created it", "newV2's cleanup removes a directory it did not create")
				}
			}
		}
	}
	c.Expect("4/add-proc", 7)
	c.Expect("6/failed-creation-cleanup", 3)
}

func checkAddProcesses(c *Check, fn *ssa.Function) {
	p := c.P
	key := cg + "." + fn.Name()
	for _, o := range c.Obs {
		if o.Key == key+":one-pid-per-write" {
			return
		}
	}
	ok := false
	for _, ci := range callInstrs(fn) {
		if n, _ := calleeOf(ci); strings.HasSuffix(n, "os.File).WriteString") || strings.HasSuffix(n, "os.File).Write") {
			d := describe(ci.Common().Args[1])
			ok = inLoop(ci.Block()) && strings.Contains(d, "strconv.Itoa(") && errChecked(ci)
		}
	}
	c.Cond(ok, "4/add-proc", key+":one-pid-per-write", p.Pos(fn.Pos()), "one decimal pid per write, errors returned", "pids are not written one decimal number per write (the kernel accepts one pid per write) or write errors are dropped")
}

func constantStringOf(p *Prog, pkg, name string) (string, bool) {
	v := p.ConstOf(pkg, name)
	if v == nil {
		return "", false
	}
	s := v.ExactString()
	return strings.Trim(s, `"`), true
}

func checkCgroupTable(c *Check) {
	p := c.P
	type row struct {
		method string
		v1     []string // file names
		v2     []string
		v2key  string
		v2mul  int64
	}
	rows := []row{
		{"CPUUsage", []string{"cpuacct.usage"}, []string{"cpu.stat"}, "usage_usec", 1000},
		{"MemoryUsage", []string{"memory.usage_in_bytes"}, []string{"memory.current"}, "", 0},
		{"MemoryMaxUsage", []string{"memory.max_usage_in_bytes"}, []string{"memory.peak"}, "", 0},
		{"ProcessPeak", nil, []string{"pids.peak"}, "", 0},
		{"SetMemoryLimit", []string{"memory.limit_in_bytes"}, []string{"memory.max"}, "", 0},
		{"SetProcLimit", []string{"pids.max"}, []string{"pids.max"}, "", 0},
		{"SetCPUBandwidth", []string{"cpu.cfs_period_us", "cpu.cfs_quota_us"}, []string{"cpu.max"}, "", 0},
		{"SetCPUSet", []string{"cpuset.cpus"}, []string{"cpuset.cpus"}, "", 0},
	}
	files := func(fn *ssa.Function, depth int) []string {
		var out []string
		seen := map[*ssa.Function]bool{}
		var rec func(f *ssa.Function, d int)
		rec = func(f *ssa.Function, d int) {
			if f == nil || seen[f] || f.Blocks == nil {
				return
			}
			seen[f] = true
			for _, ci := range callInstrs(f) {
				for _, a := range ci.Common().Args {
					if s, ok := constString(a); ok && strings.Contains(s, ".") && !strings.Contains(s, " ") && !strings.Contains(s, "%") {
						out = append(out, s)
					}
				}
				if _, callee := calleeOf(ci); callee != nil && inModule(callee) && d > 0 && callee.Signature.Recv() != nil && f.Signature.Recv() != nil && callee.Signature.Recv().Type().String() == f.Signature.Recv().Type().String() {
					rec(callee, d-1)
				}
			}
		}
		rec(fn, depth)
		sort.Strings(out)
		return uniq(out)
	}
	for _, r := range rows {
		for _, impl := range []string{"V1", "V2"} {
			want := r.v1
			if impl == "V2" {
				want = r.v2
			}
			fn := p.Func(cg, impl+"."+r.method)
			key := cg + "." + impl + "." + r.method
			if fn == nil {
				c.Fail("5/unit-table", key, "-", "method not found")
				continue
			}
			got := files(fn, 1)
			w := append([]string{}, want...)
			sort.Strings(w)
			c.Cond(strings.Join(got, ",") == strings.Join(w, ","), "5/unit-table", key+":file", p.Pos(fn.Pos()), r.method+" ↔ "+strings.Join(got, "+"), fmt.Sprintf("%s uses file(s) %v, the kernel's file(s) for this quantity are %v", r.method, got, w))
		}
	}
	// V2.CPUUsage: key usage_usec, × 1000 (µs → ns)
	if fn := p.Func(cg, "V2.CPUUsage"); fn != nil {
		keyOK, mulOK := false, false
		for _, b := range fn.Blocks {
			for _, in := range b.Instrs {
				if bo, ok := in.(*ssa.BinOp); ok {
					if bo.Op == token.EQL {
						if s, ok := constString(bo.Y); ok && s == "usage_usec" {
							keyOK = true
						}
					}
					if bo.Op == token.MUL {
						if k, ok := constInt(bo.Y); ok && k == 1000 {
							mulOK = true
						}
					}
				}
			}
		}
		c.Cond(keyOK && mulOK, "5/unit-table", cg+".V2.CPUUsage:unit", p.Pos(fn.Pos()), "usage_usec × 1000 = nanoseconds", fmt.Sprintf("v2 CPU usage: key usage_usec found=%v, ×1000 found=%v (documented unit is nanoseconds)", keyOK, mulOK))
	}
	// V1.CPUUsage: no scaling (already ns)
	if fn := p.Func(cg, "V1.CPUUsage"); fn != nil {
		scaled := false
		for _, b := range fn.Blocks {
			for _, in := range b.Instrs {
				if bo, ok := in.(*ssa.BinOp); ok && (bo.Op == token.MUL || bo.Op == token.QUO || bo.Op == token.SHL) {
					scaled = true
				}
			}
		}
		c.Cond(!scaled, "5/unit-table", cg+".V1.CPUUsage:unit", p.Pos(fn.Pos()), "cpuacct.usage is already nanoseconds", "v1 CPU usage is rescaled although cpuacct.usage is in nanoseconds")
	}
	// V2.SetCPUBandwidth: "quota period"
	if fn := p.Func(cg, "V2.SetCPUBandwidth"); fn != nil {
		ok := false
		for _, b := range fn.Blocks {
			for _, in := range b.Instrs {
				if bo, isB := in.(*ssa.BinOp); isB && bo.Op == token.ADD {
					d := describe(bo)
					// strconv.FormatUint(x, 10) or a helper of the package named after it (formatUint(x))
					d = strings.ReplaceAll(d, "formatUint(", "FormatUint(")
					qi, pi := strings.Index(d, "FormatUint("+fn.Params[1].Name()), strings.Index(d, "FormatUint("+fn.Params[2].Name())
					if qi >= 0 && pi > qi && strings.Contains(d, `" "`) {
						ok = true
					}
				}
			}
		}
		if !ok {
			// second form: the bytes are appended in order — AppendUint(_, quota, 10), a blank, AppendUint(_, period, 10)
			for _, ci := range callInstrs(fn) {
				call, isCall := ci.(*ssa.Call)
				if n, _ := calleeOf(ci); n != "strconv.AppendUint" || !isCall || len(call.Call.Args) != 3 || stripConv(call.Call.Args[1]) != ssa.Value(fn.Params[2]) {
					continue
				}
				if ten, okT := constInt(call.Call.Args[2]); !okT || ten != 10 {
					continue
				}
				if ap, isAp := stripConv(call.Call.Args[0]).(*ssa.Call); isAp {
					if bi, isB := ap.Call.Value.(*ssa.Builtin); isB && bi.Name() == "append" && len(ap.Call.Args) == 2 && isOneBlank(ap.Call.Args[1]) {
						if first, isF := stripConv(ap.Call.Args[0]).(*ssa.Call); isF {
							if n1, _ := calleeOf(first); n1 == "strconv.AppendUint" && len(first.Call.Args) == 3 && stripConv(first.Call.Args[1]) == ssa.Value(fn.Params[1]) {
								if t1, ok1 := constInt(first.Call.Args[2]); ok1 && t1 == 10 {
									ok = true
								}
							}
						}
					}
				}
			}
		}
		c.Cond(ok, "5/unit-table", cg+".V2.SetCPUBandwidth:format", p.Pos(fn.Pos()), `cpu.max is written as "quota period"`, `cpu.max is not written as "<quota> <period>"`)
	}
	// numbers are parsed as unsigned 64-bit
	for _, nm := range []string{"V2.ReadUint", "v1controller.ReadUint"} {
		if fn := p.Func(cg, nm); fn != nil {
			ok := false
			for _, ci := range callInstrsDeep(fn, 1) {
				if n, _ := calleeOf(ci); n == "strconv.ParseUint" {
					b, ok1 := constInt(ci.Common().Args[1])
					bits, ok2 := constInt(ci.Common().Args[2])
					ok = ok1 && b == 10 && ok2 && bits == 64 && (errChecked(ci) || errReturnedDeep(p, ci))
					if ok && ci.Parent() != fn {
						// parsed in a helper: the helper's error is returned by the reader as well
						ok = false
						for _, c2 := range callInstrs(fn) {
							if _, callee := calleeOf(c2); callee == ci.Parent() && (errChecked(c2) || errReturnedDeep(p, c2)) {
								ok = true
							}
						}
					}
				}
			}
			c.Cond(ok, "5/unit-table", cg+"."+nm+":parse", p.Pos(fn.Pos()), "statistics are parsed as decimal uint64, errors returned", "statistics are not parsed with ParseUint(_, 10, 64) with the error returned")
		}
	}
	c.Expect("5/unit-table", 20)
}

// isFreshObject: v denotes an object allocated in the function that uses it (or,
// for a closure, in the function that created the closure): a composite literal
// / new(T), possibly held in a local variable or captured by a closure.
func isFreshObject(v ssa.Value, d int) bool {
	if d > 8 {
		return false
	}
	switch x := v.(type) {
	case *ssa.Alloc:
		return true
	case *ssa.Phi:
		for _, e := range x.Edges {
			if !isFreshObject(e, d+1) {
				return false
			}
		}
		return len(x.Edges) > 0
	case *ssa.UnOp:
		if x.Op != token.MUL {
			return false
		}
		cell := x.X
		if fv, ok := cell.(*ssa.FreeVar); ok {
			cell = closureSiteOf(fv)
			if cell == nil {
				return false
			}
		}
		a, ok := cell.(*ssa.Alloc)
		if !ok {
			return false
		}
		n := 0
		for _, r := range *a.Referrers() {
			if st, ok := r.(*ssa.Store); ok && st.Addr == ssa.Value(a) {
				n++
				if !isFreshObject(st.Val, d+1) {
					return false
				}
			}
		}
		// stores made inside closures that captured the cell
		return n > 0
	case *ssa.FreeVar:
		if site := closureSiteOf(x); site != nil {
			return isFreshObject(site, d+1)
		}
	case *ssa.MakeInterface:
		return isFreshObject(x.X, d+1)
	case *ssa.ChangeType:
		return isFreshObject(x.X, d+1)
	}
	return false
}

// joinsChildPath: fn (or a helper of the module it hands its receiver and the
// name to) computes filepath.Join(<recv>.path|prefix, <name>).
func joinsChildPath(fn *ssa.Function, recv, name ssa.Value, depth int) bool {
	for _, ci := range callInstrs(fn) {
		n, callee := calleeOf(ci)
		args := ci.Common().Args
		if n == "path/filepath.Join" && len(args) == 1 {
			if sl, ok := args[0].(*ssa.Slice); ok {
				if a, ok := sl.X.(*ssa.Alloc); ok {
					if els, ok := arrayLitElems(a); ok && len(els) == 2 && stripConv(els[1]) == name {
						if u, ok := stripConv(els[0]).(*ssa.UnOp); ok && u.Op == token.MUL {
							if fa, ok := u.X.(*ssa.FieldAddr); ok && fa.X == recv {
								if f := fieldName(fa.X.Type(), fa.Field); f == "path" || f == "prefix" {
									return true
								}
							}
						}
					}
				}
			}
		}
		if callee != nil && inModule(callee) && depth > 0 && len(callee.Params) == len(args) {
			ri, ni := -1, -1
			for i, a := range args {
				if stripConv(a) == recv {
					ri = i
				}
				if stripConv(a) == name {
					ni = i
				}
			}
			if ri >= 0 && ni >= 0 && joinsChildPath(callee, callee.Params[ri], callee.Params[ni], depth-1) {
				return true
			}
		}
	}
	return false
}

// isOneBlank: the variadic argument is the one-element list {' '}.
func isOneBlank(v ssa.Value) bool {
	sl, ok := v.(*ssa.Slice)
	if !ok {
		return false
	}
	a, ok := sl.X.(*ssa.Alloc)
	if !ok {
		return false
	}
	els, ok := arrayLitElems(a)
	if !ok || len(els) != 1 {
		return false
	}
	k, isC := constInt(els[0])
	return isC && k == 32
}
