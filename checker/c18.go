package main

// C18 — path-set policy admits only covered paths; counters never exceed their budget.

import (
	"fmt"
	"go/constant"
	"go/token"
	"go/types"
	"sort"
	"strings"

	"golang.org/x/tools/go/ssa"
)

func init() {
	register("C18", "Decides the wiring around the path-set matcher and the structural skeleton of the matcher itself: (1) CheckRead/Write/Stat return Allow only when the MATCHING predicate accepted the SAME path, every other path returns the soft-ban/kill decision for that path (Ban iff the soft-ban set covers it); (2) the cascade writable ⊂ readable ⊂ statable: each predicate is the disjunction of the stronger predicate and its own set on the raw and the real path — the complete set of lookups each predicate performs is extracted and compared; (3) the counter: decrement by exactly 1 when present, allow result monotone with a non-negative threshold (so at most N allows), absent ⇒ not inside; CheckSyscall's dispatch table; (4) matcher skeleton: exact match first, children entries ('/*') are consulted only at depth one, directory entries ('/') at every level, the level counter starts at 0 and steps by 1 while the name is shortened by one component. NOT decided: that IsInSetSmart admits exactly the covered paths for all sets × paths (a value-level property of a string algorithm).", checkC18)
}

func checkC18(c *Check) {
	p := c.P
	const fh = "runner/ptrace/filehandler"
	act := func(n string) int64 { return p.MustConst(repoModule+"/ptracer", n) }
	actName := map[int64]string{act("TraceAllow"): "TraceAllow", act("TraceBan"): "TraceBan", act("TraceKill"): "TraceKill"}

	// ---------- 2: cascade — the lookups each predicate performs ----------
	type site struct{ what, arg string }
	lookups := func(fn *ssa.Function) []string {
		var out []string
		name := fn.Params[1].Name()
		for _, ci := range callInstrs(fn) {
			n, callee := calleeOf(ci)
			if callee == nil || !inModule(callee) {
				continue
			}
			args := ci.Common().Args
			arg := describe(args[len(args)-1])
			arg = strings.ReplaceAll(arg, name, "NAME")
			arg = strings.ReplaceAll(arg, repoModule+"/"+fh+".", "")
			switch {
			case strings.HasSuffix(n, "FileSet).IsInSetSmart"):
				set := describe(args[0])
				if i := strings.LastIndex(set, "."); i >= 0 {
					set = set[i+1:]
				}
				out = append(out, set+"("+arg+")")
			case strings.HasSuffix(n, "FileSets)."+callee.Name()) && callee.Name() != "realPath":
				out = append(out, callee.Name()+"("+arg+")")
			}
		}
		sort.Strings(out)
		return out
	}
	wantLookups := map[string][]string{
		"IsWritableFile": {"Writable(NAME)", "Writable(realPath(NAME))"},
		"IsReadableFile": {"IsWritableFile(NAME)", "Readable(NAME)", "Readable(realPath(NAME))"},
		"IsStatableFile": {"IsReadableFile(NAME)", "Statable(NAME)", "Statable(realPath(NAME))"},
		"IsSoftBanFile":  {"SoftBan(NAME)", "SoftBan(realPath(NAME))"},
	}
	for _, pn := range []string{"IsWritableFile", "IsReadableFile", "IsStatableFile", "IsSoftBanFile"} {
		fn := p.Func(fh, "FileSets."+pn)
		if fn == nil {
			c.Undecided("2/cascade", fh+"."+pn, "-", "function not found")
			continue
		}
		got := lookups(fn)
		want := append([]string{}, wantLookups[pn]...)
		sort.Strings(want)
		c.Cond(strings.Join(got, " ") == strings.Join(want, " "), "2/cascade", fh+"."+pn+":lookups", p.Pos(fn.Pos()), pn+" consults "+strings.Join(got, " ∨ "),
			pn+" consults {"+strings.Join(got, ", ")+"}, expected {"+strings.Join(want, ", ")+"}: a path is admitted through the wrong set or a cascade link is missing")
		// result is the disjunction: false when all lookups are false, true when any single one is true
		nCalls := 0
		for _, ci := range callInstrs(fn) {
			if _, callee := calleeOf(ci); callee != nil && inModule(callee) && callee.Name() != "realPath" {
				nCalls++
			}
		}
		okDisj := true
		for k := -1; k < nCalls; k++ {
			idx := 0
			var outs []string
			w := &walker{fn: fn}
			seenCall := map[*ssa.Call]int{}
			w.Seed = func(w *walker, st *wstate, v ssa.Value) *absVal {
				if call, ok := v.(*ssa.Call); ok {
					if _, callee := calleeOf(call); callee != nil && inModule(callee) && callee.Name() != "realPath" {
						i, ok := seenCall[call]
						if !ok {
							i = idx
							seenCall[call] = i
							idx++
						}
						return avBool(i == k)
					}
				}
				return nil
			}
			w.OnReturn = func(w *walker, st *wstate, ret *ssa.Return, rs []*absVal) { outs = append(outs, rs[0].String()) }
			w.Run()
			outs = uniqStrings(outs)
			want := "false"
			if k >= 0 {
				want = "true"
			}
			if len(outs) != 1 || outs[0] != want {
				okDisj = false
			}
		}
		c.Cond(okDisj, "2/cascade", fh+"."+pn+":disjunction", p.Pos(fn.Pos()), "true iff at least one lookup succeeds", pn+" is not the plain disjunction of its lookups")
	}
	c.Expect("2/cascade", 8)

	// ---------- 1: refusal discipline ----------
	detect := p.Func(fh, "Handler.onDgsFileDetect")
	for _, t := range []struct{ method, pred string }{{"CheckRead", "IsReadableFile"}, {"CheckWrite", "IsWritableFile"}, {"CheckStat", "IsStatableFile"}} {
		fn := p.Func(fh, "Handler."+t.method)
		if fn == nil {
			c.Undecided("1/refusal", fh+"."+t.method, "-", "function not found")
			continue
		}
		arg := fn.Params[1]
		// which predicate is consulted, on which argument
		var preds []string
		for _, ci := range callInstrs(fn) {
			n, callee := calleeOf(ci)
			if callee != nil && strings.Contains(n, "FileSets).") {
				a := ci.Common().Args
				same := stripConv(a[len(a)-1]) == ssa.Value(arg)
				preds = append(preds, fmt.Sprintf("%s(sameArg=%v)", callee.Name(), same))
			}
		}
		c.Cond(len(preds) == 1 && preds[0] == t.pred+"(sameArg=true)", "1/refusal", fh+"."+t.method+":predicate", p.Pos(fn.Pos()), t.method+" consults "+t.pred+" on its own argument",
			t.method+" consults "+strings.Join(preds, ", ")+" (expected "+t.pred+" on the same path)")
		for _, accept := range []bool{true, false} {
			var outs []string
			w := &walker{fn: fn}
			w.Seed = func(w *walker, st *wstate, v ssa.Value) *absVal {
				if call, ok := v.(*ssa.Call); ok {
					n, callee := calleeOf(call)
					if callee != nil && strings.Contains(n, "FileSets).") {
						return avBool(accept)
					}
					if callee != nil && callee == detect {
						a := call.Call.Args
						return avTag(fmt.Sprintf("refuse(sameArg=%v)", stripConv(a[len(a)-1]) == ssa.Value(arg)))
					}
				}
				return nil
			}
			w.OnReturn = func(w *walker, st *wstate, ret *ssa.Return, rs []*absVal) {
				if i, ok := rs[0].Int(); ok {
					outs = append(outs, actName[i])
				} else {
					outs = append(outs, rs[0].String())
				}
			}
			w.Run()
			outs = uniqStrings(outs)
			want := "«refuse(sameArg=true)»"
			if accept {
				want = "TraceAllow"
			}
			c.Cond(len(outs) == 1 && outs[0] == want, "1/refusal", fmt.Sprintf("%s.%s:covered=%v", fh, t.method, accept), p.Pos(fn.Pos()), "→ "+want,
				fmt.Sprintf("%s with covered=%v yields %v, want %s", t.method, accept, outs, want))
		}
	}
	if detect == nil {
		c.Undecided("1/refusal", fh+".onDgsFileDetect", "-", "function not found")
	} else {
		arg := detect.Params[1]
		for _, soft := range []bool{true, false} {
			var outs []string
			sameArg := true
			w := &walker{fn: detect}
			w.Seed = func(w *walker, st *wstate, v ssa.Value) *absVal {
				if call, ok := v.(*ssa.Call); ok {
					n, callee := calleeOf(call)
					if callee != nil && strings.Contains(n, "FileSets).") {
						if callee.Name() != "IsSoftBanFile" || stripConv(call.Call.Args[len(call.Call.Args)-1]) != ssa.Value(arg) {
							sameArg = false
						}
						return avBool(soft)
					}
				}
				return nil
			}
			w.OnReturn = func(w *walker, st *wstate, ret *ssa.Return, rs []*absVal) {
				if i, ok := rs[0].Int(); ok {
					outs = append(outs, actName[i])
				} else {
					outs = append(outs, rs[0].String())
				}
			}
			w.Run()
			outs = uniqStrings(outs)
			want := "TraceKill"
			if soft {
				want = "TraceBan"
			}
			c.Cond(sameArg && len(outs) == 1 && outs[0] == want, "1/refusal", fmt.Sprintf("%s.onDgsFileDetect:softban=%v", fh, soft), p.Pos(detect.Pos()), "→ "+want,
				fmt.Sprintf("refusal with soft-ban coverage %v yields %v, want %s (and must consult the soft-ban set on the same path)", soft, outs, want))
		}
	}
	c.Expect("1/refusal", 11)

	// ---------- 3: counter ----------
	if ck := p.Func(fh, "SyscallCounter.Check"); ck == nil {
		c.Undecided("3/counter", fh+".SyscallCounter.Check", "-", "function not found")
	} else {
		type res struct {
			inside, allow string
			stored        string
		}
		run := func(present bool, n int64) []res {
			var outs []res
			stored := "<none>"
			w := &walker{fn: ck}
			w.Seed = func(w *walker, st *wstate, v ssa.Value) *absVal {
				if ex, ok := v.(*ssa.Extract); ok {
					if _, isLookup := ex.Tuple.(*ssa.Lookup); isLookup {
						if ex.Index == 0 {
							return avInt(n)
						}
						return avBool(present)
					}
				}
				return nil
			}
			w.OnInstr = func(w *walker, st *wstate, in ssa.Instruction) {
				if mu, ok := in.(*ssa.MapUpdate); ok {
					stored = w.eval(st, mu.Value).String()
				}
			}
			w.OnReturn = func(w *walker, st *wstate, ret *ssa.Return, rs []*absVal) {
				outs = append(outs, res{rs[0].String(), rs[1].String(), stored})
			}
			w.Run()
			return outs
		}
		pos := p.Pos(ck.Pos())
		// absent: not inside
		o := run(false, 0)
		c.Cond(len(o) == 1 && o[0].inside == "false" && o[0].stored == "<none>", "3/counter", fh+".Check:absent", pos, "uncounted name ⇒ not inside, nothing stored", fmt.Sprintf("uncounted name yields %+v", o))
		// present: decrement by one, monotone allow with threshold ≥ 0
		thr := int64(-100)
		mono := true
		prev := false
		for n := int64(-3); n <= 6; n++ {
			o := run(true, n)
			if len(o) != 1 || o[0].inside != "true" || o[0].stored != fmt.Sprint(n-1) {
				c.Fail("3/counter", fmt.Sprintf("%s.Check:present,n=%d", fh, n), pos, fmt.Sprintf("counted name with remaining %d yields %+v (expected inside, remaining decremented by exactly 1)", n, o))
				mono = false
				continue
			}
			a := o[0].allow == "true"
			if a && !prev && thr == -100 {
				thr = n - 1
			}
			if !a && prev {
				mono = false
			}
			if a {
				prev = true
			}
			c.OK("3/counter", fmt.Sprintf("%s.Check:present,n=%d", fh, n), pos, fmt.Sprintf("remaining %d → allow=%v, stored %d", n, a, n-1))
		}
		c.Cond(mono && thr >= 0 && thr != -100, "3/counter", fh+".Check:budget", pos, fmt.Sprintf("allowed iff remaining > %d: at most N allows for budget N", thr),
			fmt.Sprintf("allow is not of the form remaining > c with c ≥ 0 (threshold %d, monotone %v): a counter that ran out (or went negative) allows again", thr, mono))
	}
	if cs := p.Func(fh, "Handler.CheckSyscall"); cs != nil {
		for _, t := range []struct {
			inside, allow bool
			want          string
		}{{true, true, "TraceAllow"}, {true, false, "TraceKill"}, {false, true, "TraceBan"}, {false, false, "TraceBan"}} {
			var outs []string
			w := &walker{fn: cs}
			w.Seed = func(w *walker, st *wstate, v ssa.Value) *absVal {
				if ex, ok := v.(*ssa.Extract); ok {
					if call, ok := ex.Tuple.(*ssa.Call); ok {
						if n, _ := calleeOf(call); strings.HasSuffix(n, "SyscallCounter).Check") {
							if ex.Index == 0 {
								return avBool(t.inside)
							}
							return avBool(t.allow)
						}
					}
				}
				return nil
			}
			w.OnReturn = func(w *walker, st *wstate, ret *ssa.Return, rs []*absVal) {
				if i, ok := rs[0].Int(); ok {
					outs = append(outs, actName[i])
				} else {
					outs = append(outs, rs[0].String())
				}
			}
			w.Run()
			outs = uniqStrings(outs)
			c.Cond(len(outs) == 1 && outs[0] == t.want, "3/counter", fmt.Sprintf("%s.CheckSyscall:inside=%v,allow=%v", fh, t.inside, t.allow), p.Pos(cs.Pos()), "→ "+t.want, fmt.Sprintf("yields %v, want %s", outs, t.want))
		}
	}
	// the count-down is decremented on every call, also after it reached zero: it must not wrap around within any
	// history a run can produce. Decided on the element type: at least 32 bits (2^31 traced calls take longer than
	// any time limit the runners accept), or a decrement that stops at zero.
	if pk := p.Pkg("runner/ptrace/filehandler"); pk != nil {
		if tn, ok := pk.Types.Scope().Lookup("SyscallCounter").(*types.TypeName); ok {
			width, et := int64(0), "?"
			if m, ok := tn.Type().Underlying().(*types.Map); ok {
				et = m.Elem().String()
				if b, ok := m.Elem().Underlying().(*types.Basic); ok && b.Info()&types.IsInteger != 0 {
					width = p.sizes().Sizeof(m.Elem()) * 8
				}
			}
			c.Cond(width >= 32, "3/counter", fh+".SyscallCounter:width", p.Pos(tn.Pos()), fmt.Sprintf("remaining count is %d bits wide", width),
				fmt.Sprintf("the remaining count has type %s (%d bits) and is decremented on every call: after 2^%d refused calls it wraps to a positive value and the call is allowed again", et, width, width-1))
		}
	}
	c.Expect("3/counter", 17)

	// ---------- 4: matcher skeleton ----------
	checkMatcherSkeleton(c)

	// ---------- 6: what the sets contain ----------
	// entries are only ever stored as true (nothing "masks" an entry with false: the matcher's directory and
	// children lookups would still grant it), and the ancestor walk of AddFilePermission never adds the empty name
	// (every unresolvable path resolves to "", which must stay uncovered)
	{
		const fhp = "runner/ptrace/filehandler"
		var falseStores []string
		nUpd := 0
		for _, fn := range p.AllFuncs() {
			for _, b := range fn.Blocks {
				for _, in := range b.Instrs {
					mu, ok := in.(*ssa.MapUpdate)
					if !ok || !strings.HasSuffix(describe(mu.Map), ".Set") || mu.Value.Type().String() != "bool" {
						continue
					}
					if !strings.Contains(mu.Map.Type().String(), "map[string]bool") {
						continue
					}
					nUpd++
					if v, isC := constBool(mu.Value); !isC || !v {
						falseStores = append(falseStores, fn.Name()+"@"+p.Pos(mu.Pos()))
					}
				}
			}
		}
		c.Cond(nUpd >= 1 && len(falseStores) == 0, "6/set-contents", fhp+".FileSet.Set:only-true", fhp+"/", fmt.Sprintf("all %d stores into a path set store true", nUpd), "a path set receives a value other than the constant true at "+strings.Join(falseStores, ", ")+": the entry stays reachable through the matcher's other lookup forms, or (with a presence test) counts as a grant")
		if ap := p.Func(fhp, "FileSets.AddFilePermission"); ap == nil {
			c.Undecided("6/set-contents", fhp+".AddFilePermission", "-", "function not found")
		} else {
			cd := controlDeps(ap)
			nAdd := 0
			for _, ci := range callInstrs(ap) {
				_, callee := calleeOf(ci)
				if callee == nil || callee.Name() != "Add" || !inLoop(ci.Block()) {
					continue
				}
				nAdd++
				arg := ci.Common().Args[len(ci.Common().Args)-1]
				a, _ := condLit(&ssa.BinOp{Op: token.EQL, X: arg, Y: ssa.NewConst(constant.MakeString(""), arg.Type())})
				g := cd.guardOf(ci.Block())
				okNE, _, _ := Valid(fImp(g, fNot(fLit(a))))
				c.Cond(okNE, "6/set-contents", fmt.Sprintf("%s.AddFilePermission:ancestor#%d-non-empty", fhp, nAdd), p.Pos(ci.Pos()), "an ancestor is added only if it is not the empty name",
					"the ancestor walk adds "+describe(arg)+" without testing it against the empty name: \"\" becomes a statable entry and every path that cannot be resolved (resolved to \"\") is admitted")
			}
			c.Cond(nAdd >= 1, "6/set-contents", fhp+".AddFilePermission:walk", p.Pos(ap.Pos()), "ancestor walk found", "no ancestor walk found in AddFilePermission")
		}
		c.Expect("6/set-contents", 3)
	}

	// ---------- 5: every decision is computed afresh ----------
	checkNoSharedState(c, "5/no-shared-state", func(path string) bool {
		return strings.HasSuffix(path, "/runner/ptrace/filehandler") || strings.HasSuffix(path, "/runner/ptrace")
	}, 1)

	// ---------- 7: the unresolvable name stays unresolvable ----------
	// Every class asks the matcher about NAME and about the symlink-free form of NAME. The matcher refuses "" (rule
	// 4), but filepath.EvalSymlinks("") is (".", nil) — Clean of the empty path — and "." is matched as a child of
	// the root by a '/*' entry. So the function that computes the symlink-free form must map "" to "".
	checkUnresolvableName(c, "7/unresolvable-stays-unresolvable")

	// ---------- 8: a budgeted call reaches its counter ----------
	checkConfigTables(c, "8/counted-not-allowed", "counted")

	// ---------- 9: every request gets its own policy objects ----------
	checkFreshPolicyObjects(c, "9/fresh-policy-objects")
}

func checkUnresolvableName(c *Check, rule string) {
	p := c.P
	// the function(s) of the package that call filepath.EvalSymlinks and whose result reaches the matcher
	n := 0
	for _, fn := range p.PkgFuncs("runner/ptrace/filehandler") {
		var ev *ssa.Call
		for _, ci := range callInstrs(fn) {
			if nm, _ := calleeOf(ci); nm == "path/filepath.EvalSymlinks" {
				ev, _ = ci.(*ssa.Call)
			}
		}
		if ev == nil || len(fn.Params) == 0 || fn.Signature.Results().Len() == 0 || fn.Signature.Results().At(0).Type().String() != "string" {
			continue
		}
		n++
		var outs []string
		good := true
		w := &walker{fn: fn, Inline: -1}
		w.Seed = func(w *walker, st *wstate, v ssa.Value) *absVal {
			if pr, ok := v.(*ssa.Parameter); ok && pr.Type().String() == "string" {
				return avC(constant.MakeString(""))
			}
			if ex, ok := v.(*ssa.Extract); ok && ex.Tuple == ssa.Value(ev) {
				// documented behaviour of EvalSymlinks on the empty path
				if ex.Index == 0 {
					return avC(constant.MakeString("."))
				}
				return &absVal{k: avNil}
			}
			return nil
		}
		w.OnReturn = func(w *walker, st *wstate, ret *ssa.Return, rs []*absVal) {
			outs = append(outs, rs[0].String())
			if rs[0].k != avConst || rs[0].c.Kind() != constant.String || constant.StringVal(rs[0].c) != "" {
				good = false
			}
		}
		w.Run()
		c.Cond(good && len(outs) > 0 && !w.Truncated, rule, shortName(fn)+":empty-name", p.Pos(fn.Pos()), "the empty name is mapped to the empty name",
			fmt.Sprintf("%s maps the empty (unresolvable) name to %v: every class then asks the matcher about \".\", which a '/*' entry covers — an unresolvable name is admitted (or soft-banned instead of killed)", fn.Name(), uniqStrings(outs)))
	}
	if n == 0 {
		c.Undecided(rule, "runner/ptrace/filehandler:realPath", "-", "no symlink-resolving helper found")
	}
	c.Expect(rule, 1)
}

func checkMatcherSkeleton(c *Check) {
	p := c.P
	const fh = "runner/ptrace/filehandler"
	fn := p.Func(fh, "FileSet.IsInSetSmart")
	if fn == nil {
		c.Undecided("4/matcher-skeleton", fh+".IsInSetSmart", "-", "function not found")
		return
	}
	key := fh + ".IsInSetSmart"
	pos := p.Pos(fn.Pos())
	cd := controlDeps(fn)
	name := fn.Params[1]
	// classify every lookup on the set by its key
	nChildren, nDir, nExact := 0, 0, 0
	nLookups := 0
	for _, b := range fn.Blocks {
		for _, in := range b.Instrs {
			lk, ok := in.(*ssa.Lookup)
			if !ok {
				continue
			}
			suffix := ""
			isConstKey := false
			switch k := lk.Index.(type) {
			case *ssa.BinOp:
				if k.Op == token.ADD {
					if s, ok := constString(k.Y); ok {
						suffix = s
					}
				}
			case *ssa.Const:
				if s, ok := constString(k); ok {
					suffix = s
					isConstKey = true
				}
			case *ssa.Parameter:
				if k == name {
					suffix = "<exact>"
				}
			}
			// membership is the VALUE stored under the key (entries are set to true); a mere "key present" test would
			// treat an entry that was set to false as a grant
			if suffix != "" {
				c.Cond(!lk.CommaOk, "4/matcher-skeleton", fmt.Sprintf("%s:lookup-by-value(%s)#%d", key, suffix, nLookups), p.Pos(lk.Pos()), "the lookup tests the stored value",
					"the lookup only tests that the key is present (comma-ok form): an entry stored as false counts as covered")
				nLookups++
			}
			// inside the walk, every lookup is about this iteration's name (the loop variable), not the parent that
			// the end of the iteration computes: 'level == 1' then means "one level below the queried path"
			if bk, ok := lk.Index.(*ssa.BinOp); ok && !isConstKey && suffix != "" && inLoop(b) {
				_, isPhi := bk.X.(*ssa.Phi)
				c.Cond(isPhi, "4/matcher-skeleton", fmt.Sprintf("%s:lookup-on-current-name(%s)", key, suffix), p.Pos(lk.Pos()), "the lookup key is built from the name of this iteration",
					"the '"+suffix+"' lookup inside the walk is keyed by "+describe(bk.X)+" instead of the name of the current level: the depth test is off by one level (a 'd/*' entry covers grandchildren, or a 'd/' entry misses d itself)")
			}
			g := cd.guardOf(b)
			switch suffix {
			case "<exact>":
				nExact++
				c.Cond(b == fn.Blocks[0] || len(Support(g)) == 0, "4/matcher-skeleton", key+":exact-first", p.Pos(lk.Pos()), "the exact path is looked up first, unconditionally", "the exact-match lookup is conditional: "+g.String())
			case "/*":
				nChildren++
				// must imply level == 1
				var lvl *Form
				for _, a := range Support(g) {
					if strings.HasSuffix(a, " == 1") && strings.HasPrefix(a, "φ:") {
						lvl = fLit(a)
					}
				}
				ok := false
				if lvl != nil {
					ok, _, _ = Valid(fImp(g, lvl))
				}
				c.Cond(ok, "4/matcher-skeleton", fmt.Sprintf("%s:children-entry-depth-one#%d(const=%v)", key, nChildren, isConstKey), p.Pos(lk.Pos()), "a children entry 'd/*' is consulted only one level above the path",
					"a children entry ('/*') is consulted at every depth (guard "+g.String()+"): 'd/*' would cover everything beneath d, not only its direct children")
			case "/":
				nDir++
				bad := false
				for _, a := range Support(g) {
					if strings.HasSuffix(a, " == 1") && strings.HasPrefix(a, "φ:") {
						if ok, _, _ := Valid(fImp(g, fLit(a))); ok {
							bad = true
						}
					}
				}
				c.Cond(!bad, "4/matcher-skeleton", fmt.Sprintf("%s:directory-entry-every-level#%d", key, nDir), p.Pos(lk.Pos()), "a directory entry 'd/' is consulted at every level", "directory entries are consulted only at depth one")
			}
		}
	}
	c.Cond(nExact == 1 && nChildren == 2 && nDir == 2, "4/matcher-skeleton", key+":lookup-kinds", pos, "exact, children (walk + root) and directory (walk + root) lookups present",
		fmt.Sprintf("lookups found: exact=%d children=%d directory=%d (expected 1/2/2)", nExact, nChildren, nDir))
	// level counter: φ(0, φ+1); name shortened by the dirname helper each iteration
	lvlOK, nameOK := false, false
	for _, b := range fn.Blocks {
		for _, in := range b.Instrs {
			ph, ok := in.(*ssa.Phi)
			if !ok {
				continue
			}
			if ph.Type().String() == "int" {
				zero, inc := false, false
				for _, e := range ph.Edges {
					if v, ok := constInt(e); ok && v == 0 {
						zero = true
					}
					if bo, ok := e.(*ssa.BinOp); ok && bo.Op == token.ADD && bo.X == ssa.Value(ph) {
						if one, ok := constInt(bo.Y); ok && one == 1 {
							inc = true
						}
					}
				}
				if zero && inc {
					lvlOK = true
				}
			}
			if ph.Type().String() == "string" {
				fromParam, fromDir := false, false
				for _, e := range ph.Edges {
					if e == ssa.Value(name) {
						fromParam = true
					}
					if call, ok := e.(*ssa.Call); ok {
						if _, callee := calleeOf(call); callee != nil && inModule(callee) && len(call.Call.Args) == 1 && call.Call.Args[0] == ssa.Value(ph) {
							fromDir = strictPrefixHelper(callee)
						}
					}
				}
				if fromParam && fromDir {
					nameOK = true
				}
			}
		}
	}
	c.Cond(lvlOK, "4/matcher-skeleton", key+":level-counter", pos, "depth counter starts at 0 and steps by 1", "the depth counter does not start at 0 / step by 1")
	c.Cond(nameOK, "4/matcher-skeleton", key+":walk-up", pos, "each iteration replaces the name by its parent (strict prefix up to the last '/')", "the walk does not move to the parent directory each iteration")
	c.Expect("4/matcher-skeleton", 15)
}

// strictPrefixHelper: returns path[:LastIndex(path,"/")] or "".
func strictPrefixHelper(fn *ssa.Function) bool {
	hasLast, hasSlice, hasEmpty := false, false, false
	for _, b := range fn.Blocks {
		for _, in := range b.Instrs {
			switch x := in.(type) {
			case *ssa.Call:
				if n, _ := calleeOf(x); n == "strings.LastIndex" {
					if s, ok := constString(x.Call.Args[1]); ok && s == "/" {
						hasLast = true
					}
				}
			case *ssa.Slice:
				if x.Low == nil && x.High != nil {
					hasSlice = true
				}
			case *ssa.Return:
				if s, ok := constString(x.Results[0]); ok && s == "" {
					hasEmpty = true
				}
			}
		}
	}
	return hasLast && hasSlice && hasEmpty
}

// uniqStrings removes duplicates, keeping first occurrences (several explored paths with the same outcome).
func uniqStrings(xs []string) []string {
	seen := map[string]bool{}
	var out []string
	for _, x := range xs {
		if !seen[x] {
			seen[x] = true
			out = append(out, x)
		}
	}
	return out
}

// freshValue: v is created on this call path — a make, a new/composite value whose parts are fresh, a constant, or
// the result of a module function all of whose results are fresh. Anything read from a parameter, a package
// variable or another object's field is not.
func freshValue(v ssa.Value, depth int, seen map[ssa.Value]bool) bool {
	if v == nil || depth > 8 {
		return false
	}
	if seen[v] {
		return true
	}
	seen[v] = true
	switch x := v.(type) {
	case *ssa.Const, *ssa.MakeMap, *ssa.MakeSlice, *ssa.MakeChan:
		return true
	case *ssa.Alloc:
		// every store into the cell or one of its fields stores a fresh value
		ok := true
		var uses func(addr ssa.Value)
		uses = func(addr ssa.Value) {
			if addr.Referrers() == nil {
				return
			}
			for _, r := range *addr.Referrers() {
				switch y := r.(type) {
				case *ssa.Store:
					if y.Addr == addr && !freshValue(y.Val, depth+1, seen) {
						ok = false
					}
				case *ssa.FieldAddr:
					uses(y)
				case *ssa.IndexAddr:
					uses(y)
				}
			}
		}
		uses(x)
		return ok
	case *ssa.UnOp:
		if a, isA := x.X.(*ssa.Alloc); isA && x.Op == token.MUL {
			return freshValue(a, depth+1, seen)
		}
		return false
	case *ssa.Slice:
		return freshValue(x.X, depth+1, seen)
	case *ssa.ChangeType:
		return freshValue(x.X, depth+1, seen)
	case *ssa.Convert:
		return freshValue(x.X, depth+1, seen)
	case *ssa.MakeInterface:
		return freshValue(x.X, depth+1, seen)
	case *ssa.Phi:
		for _, e := range x.Edges {
			if !freshValue(e, depth+1, seen) {
				return false
			}
		}
		return true
	case *ssa.Call:
		_, callee := calleeOf(x)
		if callee == nil || !inModule(callee) || len(callee.Blocks) == 0 {
			return false
		}
		any := false
		for _, b := range callee.Blocks {
			if ret, ok := b.Instrs[len(b.Instrs)-1].(*ssa.Return); ok && len(ret.Results) > 0 {
				any = true
				if !freshValue(retVal(ret, 0), depth+1, seen) {
					return false
				}
			}
		}
		return any
	}
	return false
}

// checkFreshPolicyObjects: the sets and the counter table of the handler GetConf returns are created for this call:
// what one request adds (work directory, extra paths, profile grants, budgets) cannot show up in another's handler.
func checkFreshPolicyObjects(c *Check, rule string) {
	p := c.P
	gc := p.Func("cmd/runprog/config", "GetConf")
	if gc == nil {
		c.Undecided(rule, "cmd/runprog/config.GetConf", "-", "function not found")
		return
	}
	n := 0
	for _, b := range gc.Blocks {
		for _, in := range b.Instrs {
			st, ok := in.(*ssa.Store)
			if !ok {
				continue
			}
			fa, ok := st.Addr.(*ssa.FieldAddr)
			if !ok || !strings.HasSuffix(derefType(fa.X.Type()).String(), "filehandler.Handler") {
				continue
			}
			f := fieldName(fa.X.Type(), fa.Field)
			n++
			c.Cond(freshValue(st.Val, 0, map[ssa.Value]bool{}), rule, "cmd/runprog/config.GetConf:Handler."+f, p.Pos(st.Pos()), "created for this call",
				"the handler's "+f+" ("+describe(st.Val)+") is not created afresh for this call (it is, or shares maps with, an object that outlives the call): paths and budgets granted to one request are in force for every later one")
		}
	}
	if n == 0 {
		c.Undecided(rule, "cmd/runprog/config.GetConf:Handler", p.Pos(gc.Pos()), "the handler literal was not found")
	}
	c.Expect(rule, 2)
}
