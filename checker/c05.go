package main

// C05 — file-system confinement: only configured mounts visible; read-only
// means read-only. Two sibling implementations of the mount sequence (raw
// in-child, in-container) plus the mount builder.

import (
	"fmt"
	"go/token"
	"go/types"
	"sort"
	"strings"

	"golang.org/x/tools/go/ssa"
)

func init() {
	register("C05", "Both implementations of the mount sequence are extracted as ordered event lists and checked against the reference skeleton: private root propagation first, tmpfs root < chdir < every configured mount (< read-only remount exactly under the bind+rdonly test, with MS_REMOUNT and the retained-flag mask) < mkdir old_root < pivot_root < umount2(MNT_DETACH) < rmdir < [container: symlinks < mask paths] < read-only remount of / with BIND|REMOUNT|RDONLY|NOSUID; every step's failure aborts; the loops cover all entries; on every success path of the container initialisation the read-only remount of / is passed; sibling constants (retention mask, final remount flags) are equal. Builder flag sets (bind, tmpfs, proc, read-only polarity) and maskPath's two arms are checked by constant propagation. Does not decide kernel enforcement of mount flags.", checkC05)
}

func checkC05(c *Check) {
	x := newE1ctx(c)
	if x == nil {
		return
	}
	r, p := x.r, c.P
	MS := func(n string) int64 { return p.Sys("MS_" + n) }
	pivotNil := r.ParamNil("PivotRoot")
	pivotParam := r.ParamOf["PivotRoot"]

	// ---------- 1: raw in-child sequence ----------
	mounts := x.sel("mount", nil)
	var privRoot, rootTmpfs, perMount, roRemount, finalRO []*e1Event
	for _, e := range mounts {
		src, _ := r.cstrArg(e.arg(0))
		tgt, okT := r.cstrArg(e.arg(1))
		fl, okF := e.argInt(3)
		switch {
		case okT && tgt == "/" && okF && fl&MS("REMOUNT") == 0:
			privRoot = append(privRoot, e)
		case e.argDesc(1) == pivotParam:
			rootTmpfs = append(rootTmpfs, e)
		case okT && tgt == "/" && okF && fl&MS("REMOUNT") != 0:
			finalRO = append(finalRO, e)
		case strings.HasSuffix(e.argDesc(1), ".Target") && src == "" && strings.Contains(e.argDesc(3), "|"):
			roRemount = append(roRemount, e)
		case strings.HasSuffix(e.argDesc(1), ".Target"):
			perMount = append(perMount, e)
		default:
			c.Fail("1/raw-sequence", "unclassified-mount:"+e.Site, x.pos(e), "a mount call that is not part of the reference skeleton: "+strings.Join([]string{e.argDesc(0), e.argDesc(1), e.argDesc(3)}, ", "))
		}
	}
	x.iffExactlyOne("1/raw-sequence", "mount(/,MS_REC|MS_PRIVATE)", r.FlagSet("CLONE_NEWNS"), privRoot, "making / private")
	for _, e := range privRoot {
		fl, _ := e.argInt(3)
		c.Cond(fl&(MS("REC")|MS("PRIVATE")) == MS("REC")|MS("PRIVATE"), "1/raw-sequence", "private-flags:"+e.Site, x.pos(e), "/ is made recursively private", fmt.Sprintf("flags %#x lack MS_REC|MS_PRIVATE: mounts propagate to the host namespace", fl))
	}
	x.iffExactlyOne("1/raw-sequence", "mount(tmpfs→root)", fNot(pivotNil), rootTmpfs, "mounting the tmpfs root")
	for _, e := range rootTmpfs {
		fs, _ := r.cstrArg(e.arg(2))
		fl, okF := e.argInt(3)
		c.Cond(fs == "tmpfs" && okF && fl == 0, "1/raw-sequence", "root-tmpfs-args:"+e.Site, x.pos(e), "new root is an empty tmpfs", "new root is mounted as "+fs+" with flags "+e.argDesc(3))
	}
	chdirRoot := x.sel("chdir", func(e *e1Event) bool { return e.argDesc(0) == pivotParam })
	x.iffExactlyOne("1/raw-sequence", "chdir(root)", fNot(pivotNil), chdirRoot, "chdir into the new root")
	mkOld := x.sel("mkdirat", func(e *e1Event) bool { s, ok := r.cstrArg(e.arg(1)); return ok && s == "old_root" })
	pivots := x.sel("pivot_root", nil)
	umounts := x.sel("umount2", nil)
	rmOld := x.sel("unlinkat", func(e *e1Event) bool { s, ok := r.cstrArg(e.arg(1)); return ok && s == "old_root" })
	x.iffExactlyOne("1/raw-sequence", "mkdir(old_root)", fNot(pivotNil), mkOld, "mkdir old_root")
	x.iffExactlyOne("1/raw-sequence", "pivot_root", fNot(pivotNil), pivots, "pivot_root")
	x.iffExactlyOne("1/raw-sequence", "umount2(old_root)", fNot(pivotNil), umounts, "detaching the old root")
	x.iffExactlyOne("1/raw-sequence", "rmdir(old_root)", fNot(pivotNil), rmOld, "removing old_root")
	x.iffExactlyOne("1/raw-sequence", "remount(/,ro)", fNot(pivotNil), finalRO, "the read-only remount of /")
	for _, e := range pivots {
		s, ok := r.cstrArg(e.arg(1))
		c.Cond(e.argDesc(0) == pivotParam && ok && s == "old_root", "1/raw-sequence", "pivot-args:"+e.Site, x.pos(e), "pivot_root(root, old_root)", "pivot_root("+e.argDesc(0)+", "+e.argDesc(1)+")")
	}
	for _, e := range umounts {
		s, ok := r.cstrArg(e.arg(0))
		fl, okF := e.argInt(1)
		c.Cond(ok && s == "old_root" && okF && fl&p.Sys("MNT_DETACH") != 0, "1/raw-sequence", "umount-args:"+e.Site, x.pos(e), "umount2(old_root, MNT_DETACH)", "old root is not lazily detached: umount2("+e.argDesc(0)+", "+e.argDesc(1)+")")
	}
	for _, e := range rmOld {
		fl, okF := e.argInt(2)
		c.Cond(okF && fl == p.Unix("AT_REMOVEDIR"), "1/raw-sequence", "rmdir-args:"+e.Site, x.pos(e), "unlinkat(old_root, AT_REMOVEDIR)", "flags "+e.argDesc(2))
	}
	needRO := MS("BIND") | MS("REMOUNT") | MS("RDONLY") | MS("NOSUID")
	rawFinal := int64(-1)
	for _, e := range finalRO {
		fl, _ := e.argInt(3)
		rawFinal = fl
		c.Cond(fl&needRO == needRO, "1/raw-sequence", "final-ro-flags:"+e.Site, x.pos(e), fmt.Sprintf("final remount flags %#x ⊇ BIND|REMOUNT|RDONLY|NOSUID", fl), fmt.Sprintf("final remount of / lacks flags %#x: the root stays writable or setuid-capable", needRO&^fl))
	}
	x.ordered("1/raw-sequence", "private<tmpfs", privRoot, rootTmpfs, "private /", "root tmpfs")
	x.ordered("1/raw-sequence", "tmpfs<chdir", rootTmpfs, chdirRoot, "root tmpfs", "chdir(root)")
	x.ordered("1/raw-sequence", "chdir<mounts", chdirRoot, perMount, "chdir(root)", "configured mounts")
	x.ordered("1/raw-sequence", "mounts<mkdir", perMount, mkOld, "configured mounts", "mkdir old_root")
	x.ordered("1/raw-sequence", "remounts<mkdir", roRemount, mkOld, "read-only remounts", "mkdir old_root")
	x.ordered("1/raw-sequence", "mkdir<pivot", mkOld, pivots, "mkdir old_root", "pivot_root")
	x.ordered("1/raw-sequence", "pivot<umount", pivots, umounts, "pivot_root", "umount2")
	x.ordered("1/raw-sequence", "umount<rmdir", umounts, rmOld, "umount2", "rmdir old_root")
	x.ordered("1/raw-sequence", "rmdir<ro", rmOld, finalRO, "rmdir old_root", "read-only remount of /")
	x.ordered("1/raw-sequence", "ro<exec", finalRO, x.execEvents(), "read-only remount of /", "exec")
	// per-mount block
	bindRo := MS("BIND") | MS("RDONLY")
	mask := MS("NOSUID") | MS("NODEV") | MS("NOEXEC") | MS("NOATIME") | MS("NODIRATIME") | MS("RELATIME")
	rawMask := int64(-1)
	c.Cond(len(perMount) == 1 && len(roRemount) == 1, "1/raw-sequence", "per-mount-sites", p.Pos(r.Child.Pos()), "one mount and one read-only remount site per configured mount", fmt.Sprintf("%d mount / %d remount sites in the mount loop (expected 1/1)", len(perMount), len(roRemount)))
	for _, e := range perMount {
		okArgs := strings.HasSuffix(e.argDesc(0), ".Source") && strings.HasSuffix(e.argDesc(2), ".FsType") && strings.HasSuffix(e.argDesc(3), ".Flags") && strings.HasSuffix(e.argDesc(4), ".Data")
		c.Cond(okArgs, "1/raw-sequence", "mount-args:"+e.Site, x.pos(e), "mount(Source, Target, FsType, Flags, Data) of the configured entry", "mount arguments are not the entry's own fields: "+e.argDesc(0)+", "+e.argDesc(2)+", "+e.argDesc(3)+", "+e.argDesc(4))
		extra := nonLoopAtoms(e.Guard)
		c.Cond(len(extra) == 0 && e.InLoop, "1/raw-sequence", "mount-every-entry:"+e.Site, x.pos(e), "every configured mount is performed", "a configured mount is skipped under condition "+strings.Join(extra, ", "))
	}
	for _, e := range roRemount {
		extra := nonLoopAtoms(e.Guard)
		want := fmt.Sprintf("(local:m.Flags & %#x) == %#x", bindRo, bindRo)
		okGuard := len(extra) == 1 && strings.HasSuffix(extra[0], fmt.Sprintf(".Flags & %#x) == %#x", bindRo, bindRo))
		c.Cond(okGuard, "1/raw-sequence", "ro-remount-guard:"+e.Site, x.pos(e), "read-only binds are remounted exactly when Flags ⊇ MS_BIND|MS_RDONLY", "the read-only remount runs under "+strings.Join(extra, " ∧ ")+" instead of exactly "+want+": some read-only binds stay writable")
		// flags = m.Flags | MS_REMOUNT | (s.Flags & mask)
		bits := int64(0)
		hasOwn, hasMask := false, false
		var walk func(v ssa.Value)
		walk = func(v ssa.Value) {
			v = stripConv(v)
			if cv, ok := constInt(v); ok {
				bits |= cv
				return
			}
			if bo, ok := v.(*ssa.BinOp); ok {
				switch bo.Op {
				case token.OR:
					walk(bo.X)
					walk(bo.Y)
					return
				case token.AND:
					if mk, ok := constInt(bo.Y); ok && strings.Contains(describe(bo.X), "Flags") {
						hasMask = true
						rawMask = mk
					}
					return
				}
			}
			if strings.HasSuffix(describe(v), ".Flags") {
				hasOwn = true
			}
		}
		rest := e.arg(3)
		walk(rest)
		okFlags := bits&MS("REMOUNT") != 0
		c.Cond(okFlags && hasOwn && hasMask && rawMask&mask == mask, "1/raw-sequence", "ro-remount-flags:"+e.Site, x.pos(e), "remount flags = Flags | MS_REMOUNT | (statfs flags & retention mask)",
			"remount flags "+e.argDesc(3)+" are not Flags|MS_REMOUNT|(statfs.Flags & mask ⊇ NOSUID|NODEV|NOEXEC|NOATIME|NODIRATIME|RELATIME)")
		st := x.sel("statfs", nil)
		x.ordered("1/raw-sequence", "statfs<remount", st, roRemount, "statfs", "read-only remount")
		x.ordered("1/raw-sequence", "mount<remount", perMount, roRemount, "mount", "read-only remount")
	}
	c.Expect("1/raw-sequence", 40)

	// ---------- 2: container copy ----------
	cMask, cFinal := checkContainerFS(c)
	if rawMask >= 0 && cMask >= 0 {
		c.Cond(rawMask == cMask, "2/container-sequence", "sibling:retention-mask", "pkg/mount/mount_linux.go", "retention mask equal in both implementations", fmt.Sprintf("retention masks differ: raw %#x, container %#x", rawMask, cMask))
	}
	if rawFinal >= 0 && cFinal >= 0 {
		c.Cond(rawFinal == cFinal, "2/container-sequence", "sibling:final-remount-flags", "container/container_init_linux.go", "final remount flags equal in both implementations", fmt.Sprintf("final remount flags differ: raw %#x, container %#x", rawFinal, cFinal))
	}

	// ---------- 3: builder flag sets ----------
	checkMountBuilder(c)

	c.Extra["assignments_enumerated"] = x.nEnum

	// "read-only means read-only" needs the program to be unable to remount: the capability drop of C04.O1 (for every
	// configuration: exactly one securebits+capset(0) iff requested, with the NOROOT bits, failure aborting)
	importObs(c, "C04", "C04.O1/cap-drop", "5/cannot-remount", nil)
	c.Expect("5/cannot-remount", 12)
	// nothing of the host leaks in beside the mount table: the new root is entered whenever one is configured, and
	// the container init seals every descriptor it inherited
	importObs(c, "C04", "C04.O14/child-arguments", "6/new-root-entered", func(o Obligation) bool {
		return strings.Contains(o.Key, "pivot") || strings.Contains(o.Key, "Root") || o.Status != "ok"
	})
	importObs(c, "C06", "C06.4/cloexec", "7/no-inherited-descriptors", func(o Obligation) bool { return strings.HasPrefix(o.Key, "container.") })
}

// nonLoopAtoms: atoms of a guard that are not range-loop membership tests.
func nonLoopAtoms(g *Form) []string {
	var out []string
	for _, a := range Support(g) {
		if strings.Contains(a, "rangeindex") {
			continue
		}
		out = append(out, a)
	}
	sort.Strings(out)
	return out
}

func isCallTo(ci ssa.CallInstruction, names ...string) bool {
	n, _ := calleeOf(ci)
	for _, x := range names {
		if n == x {
			return true
		}
	}
	return false
}

func argStr(ci ssa.CallInstruction, i int) (string, bool) {
	a := ci.Common().Args
	if i >= len(a) {
		return "", false
	}
	return constString(a[i])
}

// checkContainerFS checks the container's mount sequence; returns the retention mask and the final remount flags.
func checkContainerFS(c *Check) (int64, int64) {
	p := c.P
	MS := func(n string) int64 { return p.Sys("MS_" + n) }
	root := p.Func("container", "initContainer")
	if root == nil {
		// structural fallback: the callee of handleConf that reaches syscall.PivotRoot
		if hc := p.Func("container", "containerServer.handleConf"); hc != nil {
			for _, ci := range callInstrs(hc) {
				if _, callee := calleeOf(ci); callee != nil && inModule(callee) && reachesCall(callee, 3, nameIs("syscall.PivotRoot")) {
					root = callee
				}
			}
		}
	}
	if root == nil {
		c.Undecided("2/container-sequence", "container.initContainer", "-", "cannot resolve the container initialisation function (the one that reaches pivot_root)")
		return -1, -1
	}
	key := "container." + root.Name()
	pos := p.Pos(root.Pos())
	find := func(what string, pred func(ssa.CallInstruction) bool) []evRef {
		evs := flattenCalls(root, 3, pred)
		return evs
	}
	isRootArg := func(v ssa.Value) bool { return strings.HasSuffix(describe(v), ".ContainerRoot") }
	rootTmpfs := find("root tmpfs", func(ci ssa.CallInstruction) bool {
		return isCallTo(ci, "syscall.Mount") && isRootArg(ci.Common().Args[1])
	})
	chdir := find("chdir", func(ci ssa.CallInstruction) bool {
		return isCallTo(ci, "syscall.Chdir", "os.Chdir") && isRootArg(ci.Common().Args[0])
	})
	mloop := find("mounts", func(ci ssa.CallInstruction) bool {
		n, _ := calleeOf(ci)
		return strings.HasSuffix(n, "/pkg/mount.Mount).Mount")
	})
	mkOld := find("mkdir", func(ci ssa.CallInstruction) bool {
		s, ok := argStr(ci, 0)
		return isCallTo(ci, "os.Mkdir", "syscall.Mkdir") && ok && s == "old_root"
	})
	pivot := find("pivot", func(ci ssa.CallInstruction) bool { return isCallTo(ci, "syscall.PivotRoot") })
	unmount := find("unmount", func(ci ssa.CallInstruction) bool { return isCallTo(ci, "syscall.Unmount") })
	remove := find("remove", func(ci ssa.CallInstruction) bool {
		s, ok := argStr(ci, 0)
		return isCallTo(ci, "os.Remove", "syscall.Rmdir") && ok && s == "old_root"
	})
	symlink := find("symlink", func(ci ssa.CallInstruction) bool { return isCallTo(ci, "os.Symlink") })
	var maskFn *ssa.Function
	for _, f := range p.PkgFuncs("container") {
		for _, ci := range callInstrs(f) {
			if s, ok := argStr(ci, 0); ok && s == "/dev/null" && isCallTo(ci, "syscall.Mount") {
				maskFn = f
			}
		}
	}
	mask := find("mask", func(ci ssa.CallInstruction) bool { _, callee := calleeOf(ci); return maskFn != nil && callee == maskFn })
	roRemount := find("ro remount", func(ci ssa.CallInstruction) bool {
		if !isCallTo(ci, "syscall.Mount") {
			return false
		}
		s, ok := argStr(ci, 1)
		fl, okF := constInt(ci.Common().Args[3])
		return ok && s == "/" && okF && fl&MS("REMOUNT") != 0
	})
	groups := []struct {
		name string
		evs  []evRef
		loop bool
	}{{"mount(tmpfs→root)", rootTmpfs, false}, {"chdir(root)", chdir, false}, {"configured mounts", mloop, true}, {"mkdir(old_root)", mkOld, false},
		{"pivot_root", pivot, false}, {"unmount(old_root)", unmount, false}, {"remove(old_root)", remove, false}, {"symlinks", symlink, true},
		{"mask paths", mask, true}, {"read-only remount of /", roRemount, false}}
	okAll := true
	for _, g := range groups {
		if len(g.evs) != 1 {
			c.Fail("2/container-sequence", key+":"+g.name, pos, fmt.Sprintf("%d sites for step '%s' (expected exactly 1)", len(g.evs), g.name))
			okAll = false
			continue
		}
		e := g.evs[0]
		conds := evConds(e)
		c.Cond(len(conds) == 0, "2/container-sequence", key+":"+g.name+":unconditional", p.Pos(e.call().Pos()), "step '"+g.name+"' runs unconditionally", "step '"+g.name+"' is skipped under "+strings.Join(conds, ", "))
		c.Cond(errChecked(e.call()), "2/container-sequence", key+":"+g.name+":error", p.Pos(e.call().Pos()), "failure of '"+g.name+"' aborts the initialisation", "the error of step '"+g.name+"' is not returned")
		if g.loop {
			c.Cond(inLoop(e.call().Block()), "2/container-sequence", key+":"+g.name+":all-entries", p.Pos(e.call().Pos()), "applied to every configured entry", "step '"+g.name+"' is not applied in a loop over all entries")
		}
	}
	if okAll {
		idx := map[string]int{}
		for i, g := range groups {
			idx[g.name] = i
		}
		// the partial order the confinement depends on (independent steps such as symlinks vs mask paths are not ordered)
		for _, pr := range [][2]string{
			{"mount(tmpfs→root)", "chdir(root)"}, {"chdir(root)", "configured mounts"}, {"configured mounts", "mkdir(old_root)"},
			{"mkdir(old_root)", "pivot_root"}, {"pivot_root", "unmount(old_root)"}, {"unmount(old_root)", "remove(old_root)"},
			{"pivot_root", "symlinks"}, {"pivot_root", "mask paths"},
			{"symlinks", "read-only remount of /"}, {"mask paths", "read-only remount of /"}, {"remove(old_root)", "read-only remount of /"},
		} {
			a, b := groups[idx[pr[0]]].evs[0], groups[idx[pr[1]]].evs[0]
			c.Cond(evBefore(a, b), "2/container-sequence", key+":order:"+pr[0]+"<"+pr[1], p.Pos(b.call().Pos()), pr[0]+" precedes "+pr[1],
				"'"+pr[1]+"' does not come after '"+pr[0]+"' (it then applies to the wrong root, or leaves the host tree reachable, or fails on a read-only root)")
		}
	}
	c.Expect("2/container-sequence", 30)
	final := int64(-1)
	if len(roRemount) == 1 {
		ci := roRemount[0].call()
		fl, _ := constInt(ci.Common().Args[3])
		final = fl
		need := MS("BIND") | MS("REMOUNT") | MS("RDONLY") | MS("NOSUID")
		c.Cond(fl&need == need, "2/container-sequence", key+":final-ro-flags", p.Pos(ci.Pos()), fmt.Sprintf("final remount flags %#x ⊇ BIND|REMOUNT|RDONLY|NOSUID", fl), fmt.Sprintf("final remount of / lacks %#x", need&^fl))
		// must-pass-through: every success return of the initialisation passes the read-only remount
		top := roRemount[0].chain[0]
		for _, b := range root.Blocks {
			ret, ok := b.Instrs[len(b.Instrs)-1].(*ssa.Return)
			if !ok {
				continue
			}
			if !maybeNilError(ret) {
				continue
			}
			found, trail := pathQuery{fn: root, target: func(in ssa.Instruction) bool { return in == ssa.Instruction(ret) },
				stop: func(in ssa.Instruction) bool { return in == ssa.Instruction(top) }}.find()
			c.Cond(!found, "2/container-sequence", fmt.Sprintf("%s:success-passes-ro-remount@b%d", key, b.Index), p.Pos(ret.Pos()), "this success return is reached only after / was remounted read-only",
				"the container initialisation can report success without the read-only remount of /; path: "+p.trail(trail))
		}
		// inside the callee that performs it, likewise
		if len(roRemount[0].chain) >= 2 {
			inner := roRemount[0].chain[1]
			fn := inner.Parent()
			for _, b := range fn.Blocks {
				ret, ok := b.Instrs[len(b.Instrs)-1].(*ssa.Return)
				if !ok || !maybeNilError(ret) {
					continue
				}
				found, trail := pathQuery{fn: fn, target: func(in ssa.Instruction) bool { return in == ssa.Instruction(ret) },
					stop: func(in ssa.Instruction) bool { return in == ssa.Instruction(inner) }}.find()
				c.Cond(!found, "2/container-sequence", fmt.Sprintf("container.%s:success-passes-ro-remount@b%d", fn.Name(), b.Index), p.Pos(ret.Pos()), "success only after the read-only remount", "success without the read-only remount; path: "+p.trail(trail))
			}
		}
	}
	// Mount.Mount: ro-remount guarded by the bind+rdonly test
	cmask := int64(-1)
	if mm := p.Func("pkg/mount", "Mount.Mount"); mm != nil {
		// the two mount calls, in Mount itself or in a helper of the package it calls: the one whose flag word
		// carries MS_REMOUNT is the read-only remount
		var first, second ssa.CallInstruction
		hasRemountBit := func(v ssa.Value) bool {
			found := false
			var wk func(v ssa.Value, d int)
			wk = func(v ssa.Value, d int) {
				v = stripConv(v)
				if cv, ok := constInt(v); ok && cv&MS("REMOUNT") != 0 {
					found = true
				}
				if bo, ok := v.(*ssa.BinOp); ok && bo.Op == token.OR && d < 6 {
					wk(bo.X, d+1)
					wk(bo.Y, d+1)
				}
			}
			wk(v, 0)
			return found
		}
		for _, ci := range callInstrsDeep(mm, 1) {
			if isCallTo(ci, "syscall.Mount") && len(ci.Common().Args) > 3 {
				if hasRemountBit(ci.Common().Args[3]) {
					second = ci
				} else if first == nil {
					first = ci
				}
			}
		}
		bindRo := MS("BIND") | MS("RDONLY")
		if first == nil || second == nil {
			c.Fail("2/container-sequence", "pkg/mount.Mount.Mount:sites", p.Pos(mm.Pos()), "expected a mount and a read-only remount call")
		} else {
			// the remount runs exactly for entries whose flags contain MS_BIND and MS_RDONLY: Mount is evaluated for
			// each combination of the two bits (plus an unrelated one), whatever form the test takes
			okG, badSc := true, ""
			for _, fl := range []int64{0, MS("BIND"), MS("RDONLY"), bindRo, bindRo | MS("NOSUID"), MS("NOSUID")} {
				fl := fl
				ran, rets := false, 0
				w := &walker{fn: mm, MaxVisits: 4}
				w.Seed = func(w *walker, st *wstate, v ssa.Value) *absVal {
					if u, ok := v.(*ssa.UnOp); ok && u.Op == token.MUL {
						if fa, ok := u.X.(*ssa.FieldAddr); ok && fieldName(fa.X.Type(), fa.Field) == "Flags" && strings.HasSuffix(derefType(fa.X.Type()).String(), "mount.Mount") {
							return avInt(fl)
						}
					}
					return nil
				}
				w.OnInstr = func(w *walker, st *wstate, in ssa.Instruction) {
					if in == second.(ssa.Instruction) {
						st.note("remount")
					}
				}
				w.OnReturn = func(w *walker, st *wstate, ret *ssa.Return, rs []*absVal) {
					// only returns after the first mount succeeded matter
					rets++
					if st.noted("remount") {
						ran = true
					}
				}
				w.Run()
				if want := fl&bindRo == bindRo; ran != want || rets == 0 || w.Truncated {
					okG = false
					badSc = fmt.Sprintf("flags %#x: remount reachable=%v, want %v", fl, ran, want)
				}
			}
			c.Cond(okG, "2/container-sequence", "pkg/mount.Mount.Mount:ro-remount-guard", p.Pos(second.Pos()), "read-only binds are remounted exactly when Flags ⊇ MS_BIND|MS_RDONLY (6 flag words evaluated)", "the read-only remount does not run exactly for MS_BIND|MS_RDONLY entries: "+badSc)
			c.Cond(len(extraConds(controlDeps(mm), first.Block())) == 0 && errChecked(first) && (errChecked(second) || errReturnedDeep(p, second)), "2/container-sequence", "pkg/mount.Mount.Mount:errors", p.Pos(mm.Pos()), "mount and remount errors are returned", "a mount error is dropped or the mount is conditional")
			bits := int64(0)
			rest := second.Common().Args[3]
			hasMask := false
			var walk func(v ssa.Value)
			walk = func(v ssa.Value) {
				v = stripConv(v)
				if cv, ok := constInt(v); ok {
					bits |= cv
					return
				}
				if bo, ok := v.(*ssa.BinOp); ok {
					if bo.Op == token.OR {
						walk(bo.X)
						walk(bo.Y)
					} else if bo.Op == token.AND {
						if mk, ok := constInt(bo.Y); ok {
							hasMask = true
							cmask = mk
						}
					}
				}
			}
			walk(rest)
			c.Cond(bits&MS("REMOUNT") != 0 && hasMask, "2/container-sequence", "pkg/mount.Mount.Mount:ro-remount-flags", p.Pos(second.Pos()), "remount flags = Flags | MS_REMOUNT | (statfs flags & mask)", "remount flags "+describe(second.Common().Args[3]))
			s0, ok0 := argStr(second, 0)
			c.Cond(ok0 && s0 == "" && strings.HasSuffix(describe(second.Common().Args[1]), ".Target"), "2/container-sequence", "pkg/mount.Mount.Mount:ro-remount-target", p.Pos(second.Pos()), "remount targets the entry's own target", "remount of "+describe(second.Common().Args[1]))
		}
	}
	// maskPath: both arms mount over the path or return an error; ENOENT the only swallowed error
	if maskFn != nil {
		nMount := 0
		for _, ci := range callInstrs(maskFn) {
			if isCallTo(ci, "syscall.Mount") {
				nMount++
				tgtIsParam := false
				if _, ok := ci.Common().Args[1].(*ssa.Parameter); ok {
					tgtIsParam = true
				}
				c.Cond(tgtIsParam, "4/mask-path", "container."+maskFn.Name()+fmt.Sprintf(":mount#%d-target", nMount), p.Pos(ci.Pos()), "mask mount covers the masked path", "mask mount targets "+describe(ci.Common().Args[1]))
				// what covers the path cannot be written: the bind arm binds (the read-only /dev/null node), the
				// directory arm mounts an empty file system read-only
				fl, isC := constInt(ci.Common().Args[3])
				fsType, _ := constString(ci.Common().Args[2])
				want, wname := MS("BIND"), "MS_BIND"
				if fsType != "" {
					want, wname = MS("RDONLY"), "MS_RDONLY"
				}
				c.Cond(isC && fl&want != 0, "4/mask-path", "container."+maskFn.Name()+fmt.Sprintf(":mount#%d-flags", nMount), p.Pos(ci.Pos()), "mask mount carries "+wname,
					fmt.Sprintf("the mask mount is made with flags %#x, without %s: the file system covering a masked directory is writable — programs can leave files there, and Reset (which only empties the configured tmpfs mounts) never removes them", fl, wname))
			}
		}
		c.Cond(nMount == 2, "4/mask-path", "container."+maskFn.Name()+":arms", p.Pos(maskFn.Pos()), "file arm (bind /dev/null) and directory arm (read-only tmpfs)", fmt.Sprintf("%d mount arms (expected 2)", nMount))
		// walk: error of first mount symbolic; result nil only if first mount err == nil or errors.Is(err, ErrNotExist)
		var outs []string
		w := &walker{fn: maskFn}
		w.Seed = func(w *walker, st *wstate, v ssa.Value) *absVal {
			if call, ok := v.(*ssa.Call); ok {
				n, _ := calleeOf(call)
				if n == "errors.Is" {
					tgt := describe(call.Call.Args[1])
					return avTag("is:" + tgt)
				}
			}
			return nil
		}
		_ = outs
		_ = w
		// structural: every Return of nil is control dependent only on (err == nil) or errors.Is(err, os.ErrNotExist)
		cd := controlDeps(maskFn)
		for _, b := range maskFn.Blocks {
			ret, ok := b.Instrs[len(b.Instrs)-1].(*ssa.Return)
			if !ok || len(ret.Results) != 1 || !isNilConst(retVal(ret, 0)) {
				continue
			}
			g := cd.guardOf(b)
			bad := false
			for _, a := range Support(g) {
				if strings.Contains(a, "errors.Is(") && !strings.Contains(a, "ErrNotExist") {
					bad = true
				}
			}
			// nil is returned when (err == nil) or ErrNotExist: the formula must imply one of them
			var alts []*Form
			for _, a := range Support(g) {
				if strings.HasSuffix(a, " == nil") && strings.Contains(a, "syscall.Mount(") {
					alts = append(alts, fLit(a))
				}
				if strings.Contains(a, "errors.Is(") && strings.Contains(a, "ErrNotExist") {
					alts = append(alts, fLit(a))
				}
			}
			ok2, _, _ := Valid(fImp(g, fOr(alts...)))
			c.Cond(!bad && ok2 && len(alts) > 0, "4/mask-path", fmt.Sprintf("container.%s:nil-return@b%d", maskFn.Name(), b.Index), p.Pos(ret.Pos()), "success is reported only if the mask mount succeeded or the path does not exist", "maskPath reports success although masking failed: "+g.String())
		}
		c.Expect("4/mask-path", 6)
	}
	return cmask, final
}

// maybeNilError: the return may report success (its error result is the nil constant or an error value not known to be non-nil here).
func maybeNilError(ret *ssa.Return) bool {
	if len(ret.Results) == 0 {
		return true
	}
	v := ret.Results[len(ret.Results)-1]
	if v.Type().String() != "error" {
		return true
	}
	if isNilConst(v) {
		return true
	}
	// the returned error is known non-nil: the block is control dependent on `v != nil` being true
	for _, d := range cdChain(controlDeps(ret.Parent()), ret.Block()) {
		if iff := blockIf(d.b); iff != nil {
			if bo, ok := iff.Cond.(*ssa.BinOp); ok && isNilConst(bo.Y) && bo.X == v {
				if (bo.Op == token.NEQ && d.succ == 0) || (bo.Op == token.EQL && d.succ == 1) {
					return false
				}
			}
		}
	}
	// `return err` directly after `if err != nil`
	b := ret.Block()
	if len(b.Preds) == 1 {
		if iff := blockIf(b.Preds[0]); iff != nil {
			if bo, ok := iff.Cond.(*ssa.BinOp); ok && bo.Op == token.NEQ && isNilConst(bo.Y) && b.Preds[0].Succs[0] == b {
				if bo.X == v {
					return false
				}
				// return fmt.Errorf("...: %w", err)
				if call, ok := v.(*ssa.Call); ok {
					if n, _ := calleeOf(call); n == "fmt.Errorf" || n == "errors.New" {
						return false
					}
				}
			}
		}
	}
	if call, ok := v.(*ssa.Call); ok {
		if n, _ := calleeOf(call); n == "fmt.Errorf" || n == "errors.New" {
			return false
		}
	}
	if mi, ok := v.(*ssa.MakeInterface); ok {
		_ = mi
		return false
	}
	// a wrapping helper of the module that never returns nil (every return of it is a freshly made error)
	if call, ok := v.(*ssa.Call); ok {
		if alwaysMakesError(call, 0) {
			return false
		}
	}
	return true
}

// alwaysMakesError: the call is fmt.Errorf / errors.New, or a module function every return of which is such a call
// or a concrete error value (depth-bounded).
func alwaysMakesError(call *ssa.Call, depth int) bool {
	n, callee := calleeOf(call)
	if n == "fmt.Errorf" || n == "errors.New" {
		return true
	}
	if callee == nil || !inModule(callee) || len(callee.Blocks) == 0 || depth > 2 {
		return false
	}
	any := false
	for _, b := range callee.Blocks {
		ret, ok := b.Instrs[len(b.Instrs)-1].(*ssa.Return)
		if !ok || len(ret.Results) == 0 {
			continue
		}
		any = true
		switch r := retVal(ret, len(ret.Results)-1).(type) {
		case *ssa.MakeInterface:
		case *ssa.Call:
			if !alwaysMakesError(r, depth+1) {
				return false
			}
		default:
			return false
		}
	}
	return any
}

// checkMountBuilder: flag sets produced by the builder methods.
func checkMountBuilder(c *Check) {
	p := c.P
	MS := func(n string) int64 { return p.Unix("MS_" + n) }
	pathVals := map[*ssa.Function][]*absVal{}
	flagsOf := func(fn *ssa.Function, seedBool *bool) (vals []int64, fstype []string) {
		w := &walker{fn: fn}
		w.Seed = func(w *walker, st *wstate, v ssa.Value) *absVal {
			if pr, ok := v.(*ssa.Parameter); ok && pr.Type().String() == "bool" && seedBool != nil {
				return avBool(*seedBool)
			}
			return nil
		}
		// what counts is the entry as it is appended to the builder's list (directly or through a helper of the
		// package), however it was put together before
		w.OnInstr = func(w *walker, st *wstate, in ssa.Instruction) {
			call, ok := in.(*ssa.Call)
			if !ok {
				return
			}
			bi, ok := call.Call.Value.(*ssa.Builtin)
			if !ok || bi.Name() != "append" || len(call.Call.Args) != 2 {
				return
			}
			slT, isSl := call.Type().Underlying().(*types.Slice)
			if !isSl || !strings.HasSuffix(slT.Elem().String(), "mount.Mount") {
				return
			}
			sl, ok := call.Call.Args[1].(*ssa.Slice)
			if !ok {
				vals = append(vals, -1)
				return
			}
			arr := w.eval(st, sl.X)
			if arr.k != avPtr {
				vals = append(vals, -1)
				return
			}
			el := w.load(st, arr.key+"[0]", slT.Elem())
			if el.k != avStruct {
				vals = append(vals, -1)
				return
			}
			if f := el.fields["Flags"]; f != nil {
				if i, ok := f.Int(); ok {
					vals = append(vals, i)
				} else {
					vals = append(vals, -1)
				}
			} else {
				vals = append(vals, 0)
			}
			if f := el.fields["FsType"]; f != nil {
				fstype = append(fstype, f.String())
			}
			for _, fld := range []string{"Source", "Target"} {
				if f := el.fields[fld]; f != nil {
					pathVals[fn] = append(pathVals[fn], f)
				}
			}
		}
		w.Run()
		return
	}
	tr, fl := true, false
	type tc struct {
		fn   string
		arg  *bool
		need int64
		deny int64
		what string
	}
	for _, t := range []tc{
		{"Builder.WithBind", &tr, MS("BIND") | MS("NOSUID") | MS("PRIVATE") | MS("REC") | MS("RDONLY"), 0, "read-only bind"},
		{"Builder.WithBind", &fl, MS("BIND") | MS("NOSUID") | MS("PRIVATE") | MS("REC"), MS("RDONLY"), "writable bind"},
		{"Builder.WithTmpfs", nil, MS("NOSUID") | MS("NODEV"), MS("RDONLY") | MS("BIND"), "tmpfs"},
		{"Builder.WithProcRW", &fl, MS("NOSUID") | MS("NODEV") | MS("NOEXEC") | MS("RDONLY"), 0, "read-only proc"},
		{"Builder.WithProcRW", &tr, MS("NOSUID") | MS("NODEV") | MS("NOEXEC"), MS("RDONLY"), "writable proc"},
	} {
		fn := p.Func("pkg/mount", t.fn)
		if fn == nil {
			c.Undecided("3/builder-flags", "pkg/mount."+t.fn, "-", "function not found")
			continue
		}
		vals, _ := flagsOf(fn, t.arg)
		key := "pkg/mount." + t.fn + ":" + t.what
		if len(vals) != 1 || vals[0] < 0 {
			c.Fail("3/builder-flags", key, p.Pos(fn.Pos()), fmt.Sprintf("flags are not a single constant: %v", vals))
			continue
		}
		v := vals[0]
		c.Cond(v&t.need == t.need && v&t.deny == 0, "3/builder-flags", key, p.Pos(fn.Pos()), fmt.Sprintf("%s flags %#x", t.what, v),
			fmt.Sprintf("%s flags %#x (missing %#x, forbidden %#x)", t.what, v, t.need&^v, v&t.deny))
	}
	// the paths of an entry are the caller's strings as given (or constants): a lexical rewrite (Clean, Join, Abs)
	// names another object than the kernel resolves for the original spelling when a component is a symbolic link
	for _, name := range []string{"Builder.WithBind", "Builder.WithTmpfs", "Builder.WithProcRW"} {
		fn := p.Func("pkg/mount", name)
		if fn == nil {
			continue
		}
		if _, seen := pathVals[fn]; !seen {
			flagsOf(fn, &tr)
		}
		bad := ""
		for _, v := range pathVals[fn] {
			switch {
			case v.k == avConst:
			case v.k == avSym && v.sym != nil:
				if _, isPar := stripConv(v.sym).(*ssa.Parameter); !isPar {
					bad = describe(v.sym)
				}
			default:
				bad = v.String()
			}
		}
		c.Cond(bad == "" && len(pathVals[fn]) > 0, "3/builder-flags", "pkg/mount."+name+":paths-as-given", p.Pos(fn.Pos()), "source and target are the caller's strings unmodified (or constants)",
			"the entry's source/target is "+bad+", not the parameter as given: a lexically rewritten path can name a different object than the one declared")
	}
	// WithProc = WithProcRW(false)
	if fn := p.Func("pkg/mount", "Builder.WithProc"); fn != nil {
		ok := false
		for _, ci := range callInstrs(fn) {
			if n, _ := calleeOf(ci); strings.HasSuffix(n, "Builder).WithProcRW") {
				if b, isB := constBool(ci.Common().Args[len(ci.Common().Args)-1]); isB && !b {
					ok = true
				}
			}
		}
		c.Cond(ok, "3/builder-flags", "pkg/mount.Builder.WithProc", p.Pos(fn.Pos()), "WithProc mounts proc read-only", "WithProc does not delegate to WithProcRW(false)")
	}
	// tmpfs FsType constant equals the one IsTmpFs compares with
	if fn := p.Func("pkg/mount", "Builder.WithTmpfs"); fn != nil {
		_, fst := flagsOf(fn, nil)
		is := p.Func("pkg/mount", "Mount.IsTmpFs")
		cmp := ""
		if is != nil {
			for _, b := range is.Blocks {
				for _, in := range b.Instrs {
					if bo, ok := in.(*ssa.BinOp); ok && bo.Op == token.EQL {
						if s, ok := constString(bo.Y); ok {
							cmp = fmt.Sprintf("%q", s)
						}
					}
				}
			}
		}
		c.Cond(len(fst) == 1 && fst[0] == cmp && cmp != "", "3/builder-flags", "pkg/mount:tmpfs-type-constant", p.Pos(fn.Pos()), "WithTmpfs writes the type IsTmpFs tests for ("+cmp+")", fmt.Sprintf("WithTmpfs writes FsType %v but IsTmpFs compares with %s", fst, cmp))
	}
	// FilterNotExist drops an entry only under IsBindMount ∧ IsNotExist
	if fn := p.Func("pkg/mount", "Builder.FilterNotExist"); fn != nil {
		okF := false
		for _, b := range fn.Blocks {
			for _, in := range b.Instrs {
				// the instruction that keeps an entry: an append, or a store into an element of the list (in-place
				// compaction)
				keep := false
				if call, ok := in.(*ssa.Call); ok {
					if bi, ok := call.Call.Value.(*ssa.Builtin); ok && bi.Name() == "append" {
						keep = true
					}
				}
				if st, ok := in.(*ssa.Store); ok {
					if ia, ok := st.Addr.(*ssa.IndexAddr); ok && strings.HasSuffix(describe(ia.X), ".Mounts") {
						keep = true
					}
				}
				if keep {
					g := controlDeps(fn).guardOf(b)
					// kept unless (IsBindMount ∧ IsNotExist): guard must be ¬bind ∨ ¬notexist (modulo loop)
					s := g.String()
					okF = strings.Contains(s, "IsBindMount") && (strings.Contains(s, "IsNotExist") || (strings.Contains(s, "errors.Is(") && strings.Contains(s, "ErrNotExist")))
				}
			}
		}
		c.Cond(okF, "3/builder-flags", "pkg/mount.Builder.FilterNotExist", p.Pos(fn.Pos()), "an entry is dropped only if it is a bind mount whose source does not exist", "FilterNotExist drops entries under a different condition")
	}
	// the raw parameters carry the entry's own values: Source, Target, FsType, Flags and Data of SyscallParams are
	// written in one place only (the conversion of an entry) and Flags is the entry's Flags, unmodified
	writers := map[string][]string{}
	flagsOK := false
	for _, fn := range p.AllFuncs() {
		for _, b := range fn.Blocks {
			for _, in := range b.Instrs {
				st, ok := in.(*ssa.Store)
				if !ok {
					continue
				}
				fa, ok := st.Addr.(*ssa.FieldAddr)
				if !ok {
					continue
				}
				pt, ok := fa.X.Type().Underlying().(*types.Pointer)
				if !ok || !strings.HasSuffix(pt.Elem().String(), "pkg/mount.SyscallParams") {
					continue
				}
				f := fieldName(fa.X.Type(), fa.Field)
				switch f {
				case "Flags", "Source", "Target", "FsType", "Data":
					writers[f] = append(writers[f], funcName(fn)+"@"+p.Pos(st.Pos()))
					if f == "Flags" {
						d := describe(st.Val)
						flagsOK = strings.HasSuffix(d, ".Flags") && !strings.ContainsAny(d, "&|^ ")
					}
				}
			}
		}
	}
	for _, f := range []string{"Flags", "Source", "Target"} {
		ws := writers[f]
		same := len(ws) == 1
		c.Cond(same && (f != "Flags" || flagsOK), "3/builder-flags", "pkg/mount.SyscallParams."+f+":single-writer", "pkg/mount/", "written once, by the conversion of an entry, from the entry's own field",
			fmt.Sprintf("SyscallParams.%s is written at %v: the raw mount no longer carries exactly the entry's %s (e.g. a read-only request lost on the way to the child)", f, ws, f))
	}
	c.Expect("3/builder-flags", 11)
}

// errReturnedDeep: the call's error is returned by the function it sits in (path-sensitively), i.e. handed to the
// caller of a helper.
func errReturnedDeep(p *Prog, ci ssa.CallInstruction) bool {
	v, ok := ci.(ssa.Value)
	if !ok {
		return false
	}
	if refs := v.Referrers(); refs != nil {
		for _, r := range *refs {
			if ex, isE := r.(*ssa.Extract); isE && ex.Type().String() == "error" {
				v = ex
			}
		}
	}
	ok2, _ := errPropagated(p, v)
	return ok2
}
