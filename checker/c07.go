package main

// C07 — sync gate: no target code before approval; failed launches never
// run and leave no child.

import (
	"fmt"
	"go/ast"
	"go/token"
	"go/types"
	"strings"

	"golang.org/x/tools/go/ssa"
)

func init() {
	register("C07", "Child side (E1 guard formulas, all configurations): exactly one checked write/read pair on the sync channel iff a sync callback is configured, both results tested for zero length AND error, ordered before exec, ptrace attach and the post-sync cgroup/capability/seccomp steps; the user-namespace handshake tests the status word it read. Parent side (control-dependence formulas of the function Start tail-calls): the callback runs only after a successful, well-sized ready word, gets the clone result as pid, the acknowledge write is guarded by the callback returning nil and the only other writer of the channel is the id-map status word; every error return after a successful clone passes through the kill+reap helper (SIGKILL, wait4 retried on EINTR). Every failure edge carries an ErrorLocation constant that has a name. Container relay: credential pid = callback parameter, constant 1 when syncing after exec, host passes the received pid to the user's callback. Decides shape and order; does not decide kernel pid translation.", checkC07)
}

func checkC07(c *Check) {
	x := newE1ctx(c)
	if x == nil {
		return
	}
	r := x.r
	syncNil, ptrace, secNil := r.NilF("SyncFunc"), r.A("Ptrace"), r.NilF("Seccomp")

	// ---------- 1: child side ----------
	writes := x.sel("write", nil)
	var syncReads, nsReads []*e1Event
	for _, rd := range x.sel("read", nil) {
		isSync := false
		for _, w := range writes {
			if evBeforeE1(w, rd) {
				isSync = true
			}
		}
		if isSync {
			syncReads = append(syncReads, rd)
		} else {
			nsReads = append(nsReads, rd)
		}
	}
	x.iffExactlyOne("1/child-sync", "write(pipe)", fNot(syncNil), writes, "the ready word write on the sync channel")
	x.iffExactlyOne("1/child-sync", "read(pipe)", fNot(syncNil), syncReads, "the acknowledge read on the sync channel")
	execs := x.execEvents()
	x.ordered("1/child-sync", "read<exec", syncReads, execs, "sync read", "exec")
	// each read is preceded by a write under the same configuration
	for _, rd := range syncReads {
		var pre []*Form
		for _, w := range writes {
			if evBeforeE1(w, rd) {
				pre = append(pre, w.Guard)
			}
		}
		x.valid("1/child-sync", "write<"+rd.Site, x.pos(rd), fImp(rd.Guard, anyOf(pre)), "the ready word is written before the acknowledge is awaited", "an acknowledge read is not preceded by the ready-word write")
	}
	traceme := x.sel("ptrace", nil)
	for _, t := range traceme {
		var pre []*Form
		for _, rd := range syncReads {
			if evBeforeE1(rd, t) {
				pre = append(pre, rd.Guard)
			}
		}
		x.valid("1/child-sync", "read<"+t.Site, x.pos(t), fImp(fAnd(t.Guard, fNot(syncNil), ptrace, fNot(secNil)), anyOf(pre)),
			"with ptrace+filter the sync precedes PTRACE_TRACEME", "with ptrace+filter and a sync callback, PTRACE_TRACEME is reached without the sync pair before it")
	}
	// post-sync steps: unshare(NEWCGROUP) and whatever follows it come after the read
	for _, u := range x.sel("unshare", nil) {
		var pre []*Form
		for _, rd := range syncReads {
			if evBeforeE1(rd, u) {
				pre = append(pre, rd.Guard)
			}
		}
		x.valid("1/child-sync", "read<"+u.Site, x.pos(u), fImp(fAnd(u.Guard, fNot(syncNil)), anyOf(pre)),
			"the cgroup namespace is unshared only after the sync", "unshare(CLONE_NEWCGROUP) can run before the sync callback has been acknowledged")
	}
	// channel and buffer arguments; both results tested
	chanDesc := ""
	for _, e := range append(append([]*e1Event{}, writes...), syncReads...) {
		d := e.argDesc(0)
		if chanDesc == "" {
			chanDesc = d
		}
		c.Cond(d == chanDesc && isSyncChannel(e.arg(0), r.Child), "1/child-sync", "channel:"+e.Site, x.pos(e), "operates on the sync channel "+d, "sync operation on "+d+" (expected the child's end of the socket pair, "+chanDesc+")")
		z, e2 := resultTests(e, r)
		c.Cond(z && e2, "1/child-sync", "result-tests:"+e.Site, x.pos(e), "both the byte count (zero = peer closed) and the errno are tested on the failure edge",
			fmt.Sprintf("sync %s does not test both results (count==0 tested: %v, errno tested: %v): a closed channel would be taken as approval", e.Name, z, e2))
	}
	// user-namespace handshake: the word read is the word tested
	for _, rd := range nsReads {
		x.valid("1/child-sync", "userns-read-guard:"+rd.Site, x.pos(rd), fIff(rd.Guard, r.FlagSet("CLONE_NEWUSER")), "the id-map status word is awaited exactly when a user namespace is requested", "the id-map status read is not tied to CLONE_NEWUSER")
		c.Cond(bufferTested(rd, r), "1/child-sync", "userns-word-tested:"+rd.Site, x.pos(rd), "the status word read from the parent is tested and a non-zero word aborts the launch",
			"the status word read from the parent is never tested: a failed id-map write would be ignored")
		z, e2 := resultTests(rd, r)
		c.Cond(z && e2, "1/child-sync", "result-tests:"+rd.Site, x.pos(rd), "size and errno of the status read are tested", "status read does not test both results")
		// the read precedes every privileged step
		var rest []*e1Event
		for _, e := range r.Events {
			if e != rd && e.Name != "close" {
				rest = append(rest, e)
			}
		}
		bad := ""
		for _, e := range rest {
			if !evBeforeE1(rd, e) {
				if ok, _, _ := Valid(fNot(fAnd(rd.Guard, e.Guard))); !ok {
					bad = e.Site
				}
			}
		}
		c.Cond(bad == "", "1/child-sync", "userns-read-first:"+rd.Site, x.pos(rd), "the id-map handshake precedes every other child step", "child step "+bad+" can run before the id maps are written")
	}
	c.Expect("1/child-sync", 16)

	// ---------- 2/3: parent side ----------
	checkC07Parent(x)

	// ---------- 4: error locations ----------
	checkErrorLocations(x)
	checkReportDestination(x)

	// ---------- 5: container relay ----------
	checkSyncRelay(c)

	// Args[0] guard in prepareExec (empty argument list must be an error, not a panic)
	checkPrepareExec(c, r)
	c.Extra["assignments_enumerated"] = x.nEnum
	// the parameters acted upon are those of this request (no field inherited from the previous message)
	checkFreshDecode(c, "9/request-is-fresh")

	// the channel on which a failing step is reported stays intact until exec: no scratch duplicate may land on
	// the child's end of the sync socket (rule shared with C06: the slot is stepped past the reserved descriptors
	// immediately before every allocation)
	sub := NewCheck("C06", c.Tier, c.P)
	checkC06(sub)
	nch := 0
	for _, o := range sub.Obs {
		if o.Rule != "C06.2/scratch-discipline" || !strings.HasPrefix(o.Key, "skip-reserved:") {
			continue
		}
		if o.Status == "ok" || strings.Contains(o.Msg, "sync channel") {
			nch++
			c.Obs = append(c.Obs, Obligation{Rule: "C07.10/report-channel-intact", Key: o.Key, Pos: o.Pos, Status: o.Status, Msg: o.Msg})
		}
	}
	c.Expect("10/report-channel-intact", 3)
	// a failed id-map write is an error of the launch: it is relayed to the child and the launch fails (rule of C04.O9)
	sub4 := NewCheck("C04", c.Tier, c.P)
	checkIDMaps(sub4)
	for _, o := range sub4.Obs {
		if strings.HasSuffix(o.Key, ":failure-relayed") {
			c.Obs = append(c.Obs, Obligation{Rule: "C07.11/idmap-failure-reported", Key: o.Key, Pos: o.Pos, Status: o.Status, Msg: o.Msg})
		}
	}
	c.Expect("11/idmap-failure-reported", 1)

	// while the callback decides, nothing else talks to the container (any other command would be taken for approval)
	importObs(c, "C17", "C17.5/env-mutex", "12/one-call-at-a-time", nil)
	c.Expect("12/one-call-at-a-time", 10)
	// a lost connection never reads as the go-ahead: whenever the init's 'done' is closed an error was recorded, and
	// what is recorded is non-nil (rules of C11.5 for the container side)
	importObs(c, "C11", "C11.5/destroy", "14/lost-connection-is-an-error", func(o Obligation) bool { return strings.Contains(o.Key, "(containerServer)") })
	c.Expect("14/lost-connection-is-an-error", 2)
}

// isSyncChannel: v is element 1 of the [2]int parameter, possibly moved (phi with the scratch cursor).
func isSyncChannel(v ssa.Value, fn *ssa.Function) bool {
	v = stripConv(v)
	seen := map[ssa.Value]bool{}
	var rec func(v ssa.Value) bool
	rec = func(v ssa.Value) bool {
		v = stripConv(v)
		if seen[v] {
			return false
		}
		seen[v] = true
		switch x := v.(type) {
		case *ssa.Phi:
			for _, e := range x.Edges {
				if rec(e) {
					return true
				}
			}
		case *ssa.UnOp:
			if ia, ok := x.X.(*ssa.IndexAddr); ok {
				if idx, ok := constInt(ia.Index); ok && idx == 1 {
					if a, ok := ia.X.(*ssa.Alloc); ok {
						// parameter array spilled to a local
						return strings.Contains(a.Comment, "p") || true
					}
				}
			}
		case *ssa.Index:
			if idx, ok := constInt(x.Index); ok && idx == 1 {
				return true
			}
		}
		return false
	}
	return rec(v)
}

// resultTests: does a failure edge test the byte count (against a constant) and the errno of this call?
func resultTests(ev *e1Event, r *e1Result) (countTested, errTested bool) {
	refs := ev.Call.Referrers()
	if refs == nil {
		return
	}
	for _, ref := range *refs {
		ex, ok := ref.(*ssa.Extract)
		if !ok {
			continue
		}
		if leadsToFailure(ex, r) {
			if ex.Index == 0 {
				countTested = true
			}
			if ex.Index == 2 {
				errTested = true
			}
		}
	}
	return
}

// leadsToFailure: some comparison of v controls an If one of whose edges is a failure block.
func leadsToFailure(v ssa.Value, r *e1Result) bool {
	work := []ssa.Value{v}
	seen := map[ssa.Value]bool{}
	for len(work) > 0 {
		cur := work[len(work)-1]
		work = work[:len(work)-1]
		if seen[cur] {
			continue
		}
		seen[cur] = true
		refs := cur.Referrers()
		if refs == nil {
			continue
		}
		for _, ref := range *refs {
			switch y := ref.(type) {
			case *ssa.BinOp:
				work = append(work, y)
			case *ssa.Convert:
				work = append(work, y)
			case *ssa.If:
				// failure block directly or via one more If of a short-circuit chain
				for _, s := range y.Block().Succs {
					if _, ok := r.failBlk[s]; ok {
						return true
					}
					if i2 := blockIf(s); i2 != nil && len(s.Instrs) <= 4 {
						for _, s2 := range s.Succs {
							if _, ok := r.failBlk[s2]; ok {
								return true
							}
						}
					}
				}
			}
		}
	}
	return false
}

// bufferTested: the buffer the event read into is loaded afterwards and tested on a failure edge.
func bufferTested(ev *e1Event, r *e1Result) bool {
	buf := stripConv(ev.arg(1))
	alloc, ok := buf.(*ssa.Alloc)
	if !ok {
		return false
	}
	refs := alloc.Referrers()
	if refs == nil {
		return false
	}
	for _, ref := range *refs {
		if u, ok := ref.(*ssa.UnOp); ok && u.Op == token.MUL {
			if dominatesInstr(ev.Call, u) && leadsToFailure(u, r) {
				return true
			}
		}
	}
	return false
}

func dependsOn(v ssa.Value, roots map[ssa.Value]bool, d int) bool {
	if d > 8 {
		return false
	}
	if roots[v] {
		return true
	}
	switch x := v.(type) {
	case *ssa.BinOp:
		return dependsOn(x.X, roots, d+1) || dependsOn(x.Y, roots, d+1)
	case *ssa.UnOp:
		return dependsOn(x.X, roots, d+1)
	case *ssa.Convert:
		return dependsOn(x.X, roots, d+1)
	case *ssa.ChangeType:
		return dependsOn(x.X, roots, d+1)
	case *ssa.Extract:
		return dependsOn(x.Tuple, roots, d+1)
	case *ssa.FieldAddr:
		return dependsOn(x.X, roots, d+1)
	case *ssa.Phi:
		for _, e := range x.Edges {
			if dependsOn(e, roots, d+1) {
				return true
			}
		}
	}
	return false
}

func checkC07Parent(x *e1ctx) {
	c, r, p := x.c, x.r, x.c.P
	fn := r.Parent
	if fn == nil {
		c.Undecided("2/parent-sync", "forkexec.syncWithChild", "-", "cannot resolve the function Start tail-calls with the clone result")
		return
	}
	key := "pkg/forkexec." + fn.Name()
	cd := controlDeps(fn)
	memo := map[*ssa.BasicBlock]*Form{}
	guard := func(in ssa.Instruction) *Form { return cd.guardOfM(in.Block(), memo, map[*ssa.BasicBlock]bool{}) }

	// roles in the parent: the Runner parameter, the pid parameter, the errno parameter
	var rParam, pidParam, errnoParam *ssa.Parameter
	for _, pr := range fn.Params {
		switch {
		case strings.HasSuffix(pr.Type().String(), "forkexec.Runner"):
			rParam = pr
		case pr.Type().String() == "int":
			pidParam = pr
		case pr.Type().String() == "syscall.Errno":
			errnoParam = pr
		}
	}
	if rParam == nil || pidParam == nil || errnoParam == nil {
		c.Undecided("2/parent-sync", key+":params", p.Pos(fn.Pos()), "unexpected parameter list")
		return
	}
	// the callback invocation
	var syncCall *ssa.Call
	var readCalls []*ssa.Call
	var chanWrites []*ssa.Call
	writeNr := p.Sys("SYS_WRITE")
	readNr := p.Sys("SYS_READ")
	for _, ci := range callInstrs(fn) {
		call, ok := ci.(*ssa.Call)
		if !ok {
			continue
		}
		n, callee := calleeOf(call)
		if n == "dynamic" && describe(call.Call.Value) == rParam.Name()+".SyncFunc" {
			syncCall = call
		}
		if callee != nil && inModule(callee) && reachesCall(callee, 2, func(c2 ssa.CallInstruction) bool {
			n2, _ := calleeOf(c2)
			if n2 == "syscall.Syscall" || n2 == "syscall.RawSyscall" {
				v, ok := constInt(c2.Common().Args[0])
				return ok && v == readNr
			}
			return false
		}) {
			readCalls = append(readCalls, call)
		}
		if isRawSyscallName(n) || n == "syscall.Syscall" {
			if v, ok := constInt(call.Call.Args[0]); ok && v == writeNr {
				chanWrites = append(chanWrites, call)
			}
		}
		// a helper of the package that issues the raw write(2) counts as a write at its call site
		if callee != nil && inModule(callee) && reachesCall(callee, 2, func(c2 ssa.CallInstruction) bool {
			n2, _ := calleeOf(c2)
			if n2 == "syscall.Syscall" || isRawSyscallName(n2) {
				v, ok := constInt(c2.Common().Args[0])
				return ok && v == writeNr
			}
			return false
		}) {
			chanWrites = append(chanWrites, call)
		}
	}
	if syncCall == nil {
		c.Fail("2/parent-sync", key+":callback", p.Pos(fn.Pos()), "the configured SyncFunc is never invoked by the parent")
		return
	}
	pos := p.Pos(syncCall.Pos())
	// argument is the clone result
	argOK := len(syncCall.Call.Args) == 1 && stripConv(syncCall.Call.Args[0]) == ssa.Value(pidParam)
	c.Cond(argOK, "2/parent-sync", key+":callback-arg", pos, "the callback receives the clone result", "the callback is invoked with "+describe(syncCall.Call.Args[0])+" instead of the child's pid")
	// dominated by a read of the child's ready word whose results guard it
	var ready *ssa.Call
	for _, rc := range readCalls {
		if dominatesInstr(rc, syncCall) {
			ready = rc
		}
	}
	if ready == nil {
		c.Fail("2/parent-sync", key+":ready-word", pos, "the callback is not preceded by reading the child's ready word")
	} else {
		g := guard(syncCall)
		roots := map[ssa.Value]bool{ready: true}
		var errAtom, sizeAtoms, wordAtom []*Form
		for _, b := range fn.Blocks {
			iff := blockIf(b)
			if iff == nil {
				continue
			}
			bo, ok := iff.Cond.(*ssa.BinOp)
			if !ok {
				continue
			}
			a, _ := condLit(iff.Cond)
			if dependsOn(bo, roots, 0) {
				if ex, ok := stripConv(bo.X).(*ssa.Extract); ok && ex.Index == 1 {
					errAtom = append(errAtom, fLit(a))
				} else if _, isC := constInt(bo.Y); isC {
					sizeAtoms = append(sizeAtoms, fLit(a))
				}
			} else if u, ok := stripConv(bo.X).(*ssa.UnOp); ok && u.Op == token.MUL {
				// load of a field of the buffer handed to the read
				if fa, ok := u.X.(*ssa.FieldAddr); ok && len(ready.Call.Args) >= 2 && fa.X == stripConv(ready.Call.Args[1]) {
					if z, isC := constInt(bo.Y); isC && z == 0 {
						wordAtom = append(wordAtom, fLit(a))
					}
				}
			}
		}
		c.Cond(len(errAtom) > 0 && len(sizeAtoms) > 0 && len(wordAtom) > 0, "2/parent-sync", key+":ready-word-tests", pos,
			"read error, size and error word of the ready message are tested", fmt.Sprintf("ready word tests missing (error test: %d, size tests: %d, error-word test: %d)", len(errAtom), len(sizeAtoms), len(wordAtom)))
		if len(errAtom) > 0 && len(sizeAtoms) > 0 && len(wordAtom) > 0 {
			x.valid("2/parent-sync", key+":callback-after-good-ready-word", pos,
				fImp(g, fAnd(errAtom[0], anyOf(sizeAtoms), wordAtom[0])),
				"the callback runs only after a complete, error-free ready word", "the callback can run although the child's ready word was short, failed to read or carried an error")
		}
	}
	// the writers of the channel
	syncOK := fLit(describe(syncCall) + " == nil")
	rSyncNil := fLit(rParam.Name() + ".SyncFunc == nil")
	newuser := fLit(fmt.Sprintf("(%s.CloneFlags & %#x) == %#x", rParam.Name(), p.Unix("CLONE_NEWUSER"), p.Unix("CLONE_NEWUSER")))
	nAck := 0
	for i, w := range chanWrites {
		g := guard(w)
		wpos := p.Pos(w.Pos())
		wkey := fmt.Sprintf("%s:channel-write#%d", key, i+1)
		if before(syncCall, w) || dominatesInstr(syncCall, w) {
			nAck++
			x.valid("2/parent-sync", wkey+":ack-guard", wpos, fImp(g, fAnd(fNot(rSyncNil), syncOK)),
				"the acknowledge is written only after the callback returned nil", "the child is released although the callback failed or was not run")
			continue
		}
		ok, _, _ := Valid(fImp(g, newuser))
		c.Cond(ok && before(w, syncCall), "2/parent-sync", wkey+":idmap-word", wpos, "status word of the id-map write (user namespace only), before the callback",
			"a write on the sync channel that is neither the id-map status word nor the guarded acknowledge: it would release the child early")
	}
	c.Cond(nAck == 1, "2/parent-sync", key+":one-ack", pos, "exactly one acknowledge write", fmt.Sprintf("%d acknowledge writes after the callback", nAck))
	// the parent's reads of the sync socket block until the child wrote or exec'd/exited: the descriptor is never made
	// non-blocking (a poll that finds nothing yet would be taken for "the child exec'd": Start returns success while
	// the child is still setting up, and its later failure report goes nowhere)
	var nb []string
	for _, ci := range callInstrsDeep(fn, 2) {
		n, _ := calleeOf(ci)
		if strings.HasSuffix(n, ".SetNonblock") {
			if v, isC := constBool(ci.Common().Args[1]); !isC || v {
				nb = append(nb, p.Pos(ci.Pos()))
			}
		}
		if strings.HasSuffix(n, ".FcntlInt") || strings.HasSuffix(n, ".Fcntl") {
			if len(ci.Common().Args) >= 3 {
				if cmd, ok := constInt(ci.Common().Args[1]); ok && cmd == p.Sys("F_SETFL") {
					nb = append(nb, p.Pos(ci.Pos()))
				}
			}
		}
	}
	c.Cond(len(nb) == 0, "2/parent-sync", key+":blocking-reads", pos, "the sync socket stays in blocking mode in the parent", "the parent switches the sync socket to non-blocking mode at "+strings.Join(nb, ", "))
	c.Expect("2/parent-sync", 7)

	// ---------- 3: failure ⇒ killed and reaped ----------
	var reaper *ssa.Function
	sigkill := p.Sys("SIGKILL")
	seenCallee := map[*ssa.Function]bool{}
	for _, ci := range callInstrsDeep(fn, 2) {
		_, callee := calleeOf(ci)
		if callee == nil || !inModule(callee) || seenCallee[callee] {
			continue
		}
		seenCallee[callee] = true
		hasKill, hasWait := false, false
		for _, c2 := range callInstrs(callee) {
			n2, _ := calleeOf(c2)
			if strings.HasSuffix(n2, ".Kill") && len(c2.Common().Args) == 2 {
				if s, ok := constInt(c2.Common().Args[1]); ok && s == sigkill {
					if _, isParam := stripConv(c2.Common().Args[0]).(*ssa.Parameter); isParam {
						hasKill = true
					}
				}
			}
			if strings.HasSuffix(n2, ".Wait4") {
				if _, isParam := stripConv(c2.Common().Args[0]).(*ssa.Parameter); isParam {
					hasWait = true
				}
			}
		}
		if hasWait {
			reaper = callee
			rk := "pkg/forkexec." + callee.Name()
			c.Cond(hasKill, "3/fail-kill-reap", rk+":kill", p.Pos(callee.Pos()), "the failed child is sent SIGKILL before it is awaited", "the failed child is awaited without being killed: a child that ignores the closed channel keeps running (and the launch hangs)")
			// kill before wait, wait retried on EINTR
			var kill, wait ssa.CallInstruction
			nWait := 0
			for _, c2 := range callInstrs(callee) {
				n2, _ := calleeOf(c2)
				if strings.HasSuffix(n2, ".Kill") {
					kill = c2
				}
				if strings.HasSuffix(n2, ".Wait4") {
					if wait == nil {
						wait = c2
					}
					nWait++
				}
			}
			if kill != nil && wait != nil {
				c.Cond(before(kill, wait), "3/fail-kill-reap", rk+":order", p.Pos(callee.Pos()), "kill precedes wait4", "wait4 precedes the kill")
			}
			eintr := false
			for _, b := range callee.Blocks {
				if iff := blockIf(b); iff != nil {
					// `err == EINTR` or `err != EINTR`, in any loop form
					if a, _ := condLit(iff.Cond); strings.HasSuffix(a, fmt.Sprintf("== %d", p.Sys("EINTR"))) {
						eintr = true
					}
				}
			}
			// the wait blocks for exactly this child: no option that narrows the children waited for or returns early
			okOpt := true
			optD := ""
			for _, c2 := range callInstrs(callee) {
				if n2, _ := calleeOf(c2); strings.HasSuffix(n2, ".Wait4") && len(c2.Common().Args) >= 3 {
					if o, isC := constInt(c2.Common().Args[2]); !isC || o != 0 {
						okOpt = false
						optD = describe(c2.Common().Args[2])
					}
				}
			}
			c.Cond(okOpt, "3/fail-kill-reap", rk+":wait-options", p.Pos(callee.Pos()), "wait4 with options 0", "the failed child is awaited with options "+optD+": with __WCLONE a child created with exit signal SIGCHLD is never matched (ECHILD at once, the zombie stays); with WNOHANG the wait does not wait")
			c.Cond(eintr && (nWait >= 2 || inLoop(wait.Block())), "3/fail-kill-reap", rk+":eintr", p.Pos(callee.Pos()), "wait4 is retried on EINTR", "wait4 is not retried on EINTR: an interrupted wait leaves a zombie")
		}
	}
	if reaper == nil {
		c.Fail("3/fail-kill-reap", key+":reaper", p.Pos(fn.Pos()), "no kill+wait4 helper is called on the failure paths")
		return
	}
	// every error return after a successful clone passes through the reaper
	cloneFailed := fLit("local:" + errnoParam.Name() + " == 0") // atom as rendered for the spilled parameter
	_ = cloneFailed
	nRet := 0
	for _, b := range fn.Blocks {
		ret, ok := b.Instrs[len(b.Instrs)-1].(*ssa.Return)
		if !ok || len(ret.Results) != 2 {
			continue
		}
		if isNilConst(retVal(ret, 1)) {
			continue
		}
		nRet++
		// exempt: the clone-failed return (control dependent on the errno parameter being non-zero)
		g := cd.guardOfM(b, memo, map[*ssa.BasicBlock]bool{})
		if isCloneFailedGuard(g, errnoParam) {
			c.OK("3/fail-kill-reap", fmt.Sprintf("%s:return#%d", key, nRet), p.Pos(ret.Pos()), "clone failed: there is no child")
			continue
		}
		found, trail := pathQuery{fn: fn, target: func(in ssa.Instruction) bool { return in == ssa.Instruction(ret) },
			stop: func(in ssa.Instruction) bool {
				ci, ok := in.(ssa.CallInstruction)
				if !ok {
					return false
				}
				_, callee := calleeOf(ci)
				if callee == reaper {
					return true
				}
				// a helper of the package whose every path calls the reaper
				if callee != nil && inModule(callee) && callee.Pkg == fn.Pkg && len(callee.Blocks) > 0 {
					skips, _ := pathQuery{fn: callee, target: isReturn, stop: func(in2 ssa.Instruction) bool {
						c2, ok := in2.(ssa.CallInstruction)
						if !ok {
							return false
						}
						_, c3 := calleeOf(c2)
						return c3 == reaper
					}}.find()
					return !skips
				}
				return false
			}}.find()
		c.Cond(!found, "3/fail-kill-reap", fmt.Sprintf("%s:return#%d", key, nRet), p.Pos(ret.Pos()), "error return is preceded by kill+reap on every path",
			"an error is returned while the child is neither killed nor reaped; path: "+p.trail(trail))
	}
	c.Expect("3/fail-kill-reap", 6)
}

func isCloneFailedGuard(g *Form, errno *ssa.Parameter) bool {
	// guard is exactly ¬(<errno> == 0)
	if g.Op == '!' && g.Kids[0].Op == 'L' {
		a := g.Kids[0].Atom
		return strings.HasSuffix(a, errno.Name()+" == 0")
	}
	return false
}

func checkErrorLocations(x *e1ctx) {
	c, r, p := x.c, x.r, x.c.P
	maxLoc := int64(0)
	for v := range r.LocNames {
		if v > maxLoc {
			maxLoc = v
		}
	}
	n := 0
	for _, e := range r.Events {
		if !e.Checked {
			continue
		}
		n++
		key := "loc:" + e.Site
		okConst := e.FailLocV >= 1 && e.FailLocV <= maxLoc && !strings.HasPrefix(e.FailLoc, "?")
		c.Cond(okConst, "4/error-location", key, x.pos(e), "failure is reported as "+e.FailLoc, "failure edge passes "+e.FailLoc+", not a declared ErrorLocation constant")
		if e.InLoop && e.FailIdx == "" && (e.Name == "mount" || e.Name == "prlimit64" || e.Name == "mkdirat" || e.Name == "mknodat" || e.Name == "statfs") && strings.Contains(e.Guard.String(), "rangeindex") {
			c.Fail("4/error-location", key+":index", x.pos(e), "a per-item step inside a loop reports its failure without the item index")
		}
	}
	// the final exit after exec fails
	// the record that carries the index is as wide as the loop index: a narrower field reports item 256+k as k
	if pk := p.Pkg("pkg/forkexec"); pk != nil {
		if tn, ok := pk.Types.Scope().Lookup("ChildError").(*types.TypeName); ok {
			if st, ok := tn.Type().Underlying().(*types.Struct); ok {
				wide, found := false, false
				ft := ""
				for i := 0; i < st.NumFields(); i++ {
					if st.Field(i).Name() == "Index" {
						found = true
						ft = st.Field(i).Type().String()
						if b, ok := st.Field(i).Type().Underlying().(*types.Basic); ok {
							switch b.Kind() {
							case types.Int, types.Int64, types.Uint, types.Uint64, types.Uintptr:
								wide = true
							}
						}
					}
				}
				c.Cond(found && wide, "4/error-location", "forkexec.ChildError.Index:width", "pkg/forkexec/", "the index field is as wide as the loop index", "ChildError.Index has type "+ft+": the position of a failing mount / rlimit beyond its range is reported modulo its width (the error names the wrong step)")
			}
		}
	}
	c.Expect("4/error-location", 41)
	// String(): every declared constant has a name different from "unknown"
	strFn := p.Func("pkg/forkexec", "ErrorLocation.String")
	var names []string
	if pk := p.Pkg("pkg/forkexec"); pk != nil {
		// the name table: the package-level []string indexed by String()
		for _, f := range pk.Syntax {
			ast.Inspect(f, func(nd ast.Node) bool {
				vs, ok := nd.(*ast.ValueSpec)
				if !ok || len(vs.Values) != 1 {
					return true
				}
				cl, ok := vs.Values[0].(*ast.CompositeLit)
				if !ok {
					return true
				}
				if tv, ok := pk.TypesInfo.Types[cl]; ok && tv.Type.String() == "[]string" && len(cl.Elts) > 20 {
					for _, el := range cl.Elts {
						if tv := pk.TypesInfo.Types[el]; tv.Value != nil {
							names = append(names, tv.Value.ExactString())
						}
					}
				}
				return true
			})
		}
	}
	if strFn == nil || len(names) == 0 {
		c.Undecided("4/error-location", "ErrorLocation.String", "-", "cannot find the name table of ErrorLocation")
		return
	}
	c.Cond(int64(len(names)) == maxLoc+1, "4/error-location", "name-table-length", p.Pos(strFn.Pos()), fmt.Sprintf("name table has %d entries for constants 1..%d", len(names), maxLoc),
		fmt.Sprintf("name table has %d entries but the largest ErrorLocation constant is %d: failures are reported under the wrong name or as unknown", len(names), maxLoc))
	for v := int64(1); v <= maxLoc; v++ {
		var outs []string
		w := &walker{fn: strFn}
		w.Seed = func(w *walker, st *wstate, val ssa.Value) *absVal {
			if pr, ok := val.(*ssa.Parameter); ok && pr == strFn.Params[0] {
				return avInt(v)
			}
			return nil
		}
		w.OnReturn = func(w *walker, st *wstate, ret *ssa.Return, rs []*absVal) { outs = append(outs, rs[0].String()) }
		w.Run()
		bad := len(outs) != 1 || outs[0] == `"unknown"`
		nm := ""
		if v < int64(len(names)) {
			nm = names[v]
		}
		if nm == `"unknown"` || nm == `""` || nm == "" {
			bad = true
		}
		c.Cond(!bad, "4/error-location", "named:"+r.LocNames[v], p.Pos(strFn.Pos()), fmt.Sprintf("%s (%d) is reported as %s", r.LocNames[v], v, nm),
			fmt.Sprintf("%s (%d) has no name: String() yields %v", r.LocNames[v], v, outs))
	}
}

// checkSyncRelay: container relay of the pid.
func checkSyncRelay(c *Check) {
	p := c.P
	he := p.Func("container", "containerServer.handleExecve")
	if he == nil {
		c.Undecided("5/container-relay", "container.handleExecve", "-", "function not found")
		return
	}
	// the closure that builds a Ucred: Pid field = its parameter
	var syncClosure *ssa.Function
	// a closure of the handler, or a function / method of the package used as the callback
	cands := append([]*ssa.Function{}, he.AnonFuncs...)
	for _, f := range p.PkgFuncs("container") {
		if f.Parent() == nil && f != he {
			cands = append(cands, f)
		}
	}
	for _, a := range cands {
		for _, b := range a.Blocks {
			for _, in := range b.Instrs {
				if st, ok := in.(*ssa.Store); ok {
					if fa, ok := st.Addr.(*ssa.FieldAddr); ok && strings.HasSuffix(derefType(fa.X.Type()).String(), "syscall.Ucred") && fieldName(fa.X.Type(), fa.Field) == "Pid" {
						syncClosure = a
						isParam := false
						if pr, ok := stripConv(st.Val).(*ssa.Parameter); ok && len(a.Params) > 0 && (pr == a.Params[0] || (a.Signature.Recv() != nil && len(a.Params) > 1 && pr == a.Params[1])) {
							isParam = true
						}
						c.Cond(isParam, "5/container-relay", "container.handleExecve$sync:cred-pid", p.Pos(st.Pos()), "credential pid is the callback's parameter", "credential pid is "+describe(st.Val)+", not the pid handed to the sync callback")
					}
				}
			}
		}
	}
	if syncClosure == nil {
		c.Undecided("5/container-relay", "container.handleExecve$sync", p.Pos(he.Pos()), "cannot find the closure that sends the credential with the pid")
		return
	}
	// the callback as a value: the closure itself, or the bound-method wrapper of the method
	isSyncFn := func(v ssa.Value) bool {
		f, ok := v.(*ssa.Function)
		if !ok {
			return false
		}
		if f == syncClosure {
			return true
		}
		if f.Synthetic != "" {
			for _, c2 := range callInstrs(f) {
				if _, c3 := calleeOf(c2); c3 == syncClosure {
					return true
				}
			}
		}
		return false
	}
	// direct invocation when syncing after exec: constant 1 (the container init as seen from the host)
	nDirect := 0
	for _, ci := range callInstrs(he) {
		_, callee := calleeOf(ci)
		isSync := callee == syncClosure
		if !isSync {
			// call through the closure value
			if mc, ok := ci.Common().Value.(*ssa.MakeClosure); ok && isSyncFn(mc.Fn) {
				isSync = true
			}
		}
		if isSync {
			nDirect++
			v, ok := constInt(ci.Common().Args[len(ci.Common().Args)-1])
			c.Cond(ok && v == 1, "5/container-relay", "container.handleExecve:sync-after-exec-pid", p.Pos(ci.Pos()), "sync after exec reports pid 1 (the container init)", "sync after exec reports "+describe(ci.Common().Args[len(ci.Common().Args)-1])+" instead of the constant 1")
		}
	}
	c.Cond(nDirect >= 1, "5/container-relay", "container.handleExecve:sync-after-exec-call", p.Pos(he.Pos()), "sync-after-exec call site found", "no direct sync call for the sync-after-exec mode")
	// the closure is what is stored into Runner.SyncFunc (possibly through a phi with nil)
	stored := false
	for _, b := range he.Blocks {
		for _, in := range b.Instrs {
			if st, ok := in.(*ssa.Store); ok {
				if fa, ok := st.Addr.(*ssa.FieldAddr); ok && fieldName(fa.X.Type(), fa.Field) == "SyncFunc" {
					vals := []ssa.Value{st.Val}
					if ph, ok := st.Val.(*ssa.Phi); ok {
						vals = ph.Edges
					}
					for _, v := range vals {
						if mc, ok := v.(*ssa.MakeClosure); ok && isSyncFn(mc.Fn) {
							stored = true
						}
					}
				}
			}
		}
	}
	c.Cond(stored, "5/container-relay", "container.handleExecve:SyncFunc", p.Pos(he.Pos()), "Runner.SyncFunc is the relaying closure", "Runner.SyncFunc is not the closure that relays the pid to the host")
	// host: param.SyncFunc(int(msg.Cred.Pid))
	if ex := p.Func("container", "container.Execve"); ex != nil {
		found := false
		for _, ci := range callInstrsDeep(ex, 2) {
			if n, _ := calleeOf(ci); n == "dynamic" && strings.HasSuffix(describe(ci.Common().Value), ".SyncFunc") {
				found = true
				d := describe(ci.Common().Args[0])
				c.Cond(strings.HasSuffix(d, ".Cred.Pid") || strings.Contains(d, "Cred.Pid"), "5/container-relay", "container.Execve:callback-arg", p.Pos(ci.Pos()), "the user's callback receives the pid from the received credential", "the user's callback receives "+d)
			}
		}
		c.Cond(found, "5/container-relay", "container.Execve:callback", p.Pos(ex.Pos()), "host invokes the user's SyncFunc", "host never invokes the user's SyncFunc")
	}
	c.Expect("5/container-relay", 5)
	_ = types.Typ
}

// checkPrepareExec: the index of element 0 of the argument list is guarded by a length test.
func checkPrepareExec(c *Check, r *e1Result) {
	p := c.P
	for _, ci := range callInstrs(r.Start) {
		_, callee := calleeOf(ci)
		if callee == nil || !inModule(callee) || callee == r.Child || callee == r.Parent {
			continue
		}
		for _, b := range callee.Blocks {
			for _, in := range b.Instrs {
				ia, ok := in.(*ssa.IndexAddr)
				if !ok {
					continue
				}
				if _, isParam := ia.X.(*ssa.Parameter); !isParam {
					continue
				}
				if idx, isC := constInt(ia.Index); isC && idx == 0 {
					g := controlDeps(callee).guardOf(b)
					ok := g.Op != 'T' && strings.Contains(g.String(), "len("+ia.X.Name()+")")
					c.Cond(ok, "3/fail-kill-reap", "pkg/forkexec."+callee.Name()+":"+ia.X.Name()+"[0]-guard", p.Pos(ia.Pos()),
						"element 0 of "+ia.X.Name()+" is taken only when the list is non-empty (an empty list is an error)", "element 0 of "+ia.X.Name()+" is indexed without a length test: an empty list panics instead of failing the launch")
				}
			}
		}
	}
}

// checkReportDestination: every failure report of the child is written to the sync channel. For each exit helper
// the parameter that becomes the descriptor of its write(2) is found; at every call in the child the argument
// given for it belongs to the same variable (φ-web) as the descriptor the child reads the parent's go-ahead from.
func checkReportDestination(x *e1ctx) {
	c, r, p := x.c, x.r, x.c.P
	const rule = "13/report-destination"
	child := r.Child
	if child == nil {
		c.Undecided(rule, "forkexec.child", "-", "child function not resolved")
		return
	}
	// φ-webs of the child
	parent := map[ssa.Value]ssa.Value{}
	var find func(v ssa.Value) ssa.Value
	find = func(v ssa.Value) ssa.Value {
		if pv, ok := parent[v]; ok && pv != v {
			r := find(pv)
			parent[v] = r
			return r
		}
		return v
	}
	union := func(a, b ssa.Value) {
		if _, isC := b.(*ssa.Const); isC {
			return
		}
		ra, rb := find(a), find(b)
		if ra != rb {
			parent[ra] = rb
		}
	}
	for _, b := range child.Blocks {
		for _, in := range b.Instrs {
			if ph, ok := in.(*ssa.Phi); ok {
				for _, e := range ph.Edges {
					union(ph, stripConv(e))
				}
			}
		}
	}
	// the sync descriptor: fd of the read(2) calls of the child
	var syncFd ssa.Value
	for _, ci := range callInstrs(child) {
		if nm, _ := calleeOf(ci); isRawSyscallName(nm) {
			if nr, ok := constInt(ci.Common().Args[0]); ok && nr == p.Sys("SYS_READ") {
				syncFd = stripConv(ci.Common().Args[1])
			}
		}
	}
	if syncFd == nil {
		c.Undecided(rule, "forkexec.child:sync-read", p.Pos(child.Pos()), "the child's read of the sync channel was not found")
		return
	}
	// descriptor parameter of each exit helper
	fdParam := map[*ssa.Function]int{}
	for ef := range r.ExitFns {
		idx := -1
		for _, ci := range callInstrs(ef) {
			if nm, _ := calleeOf(ci); isRawSyscallName(nm) {
				if nr, ok := constInt(ci.Common().Args[0]); ok && nr == p.Sys("SYS_WRITE") {
					if pr, ok := stripConv(ci.Common().Args[1]).(*ssa.Parameter); ok {
						for i, q := range ef.Params {
							if q == pr {
								idx = i
							}
						}
					}
				}
			}
		}
		if idx >= 0 {
			fdParam[ef] = idx
		}
	}
	n, bad, badPos := 0, "", ""
	for _, ci := range callInstrs(child) {
		_, callee := calleeOf(ci)
		idx, ok := fdParam[callee]
		if callee == nil || !ok || idx >= len(ci.Common().Args) {
			continue
		}
		n++
		a := stripConv(ci.Common().Args[idx])
		if find(a) != find(syncFd) && bad == "" {
			bad, badPos = describe(a), p.Pos(ci.Pos())
		}
	}
	if badPos == "" {
		badPos = p.Pos(child.Pos())
	}
	switch {
	case n == 0 || len(fdParam) == 0:
		c.Undecided(rule, "forkexec.child:reports", badPos, "no failure report with a descriptor argument found")
	default:
		c.Cond(bad == "", rule, "forkexec.child:reports", badPos, fmt.Sprintf("all %d failure reports are written to the sync channel", n),
			"a failure report is written to descriptor "+bad+", which is not the sync channel: the parent never learns that the launch failed (and a descriptor of the program receives the record)")
	}
	c.Expect(rule, 1)
}
